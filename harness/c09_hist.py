"""C09, history stream: SEQUENCES of filter_period_intersect / period_union calls in one process on Event objects
that live on between the calls.

The functional models are pure: the result of a call is a function of the two lists as they are when the call is
made.  A session is a small script over named list variables; every call step is observed exactly like a single
case of harness/c09.py (views of the inputs at call time, canonical result, modification report), judged by the
property oracle of c09.py on that call alone and sent to the extracted model on that call alone.  So whatever an
implementation keeps between calls (a memo on an Event instance, on the module, a default mutable argument, a result
that shares sub-objects with an earlier result) shows up as a call whose result is not the property's function of its
own arguments - a failing input that is the script.

script = [step, ...]        (JSON; instants are absolute microseconds)
  ["mk", v, [[ts, dur, data, id], ...]]      v := fresh Event objects
  ["isect" | "union", out, a, b, via]        out := the transform on the list OBJECTS a, b; via "fn" (the module's
                                             function) | "pkg" (aw_transform.<name>) | "q2" (aw_query.functions registry)
  ["dur", v, i, dur_us] / ["ts", v, i, ts_us]   the caller changes ITS OWN event v[i] between two calls
  ["put", v, i, key, value]                  v[i].data[key] = value      (labelling a result in place)
  ["setdata", v, i, data]                    v[i].data = data
  ["categorize", v] / ["tag", v]             aw_transform.categorize / tag with no rules (annotate in place)
  ["copy", out, v]                           out := copy.deepcopy(v)     (equal but not identical objects)
  ["flood", out, v, pulsetime_s]             out := aw_transform.flood(v, pulsetime)  (deep-copies, stretches durations)
  ["cat", out, a, b]                         out := a + b                (new list, the same Event objects)
  ["sel", out, v, [i, ...]]                  out := [v[i], ...]          (the same Event objects)
A step naming a variable that does not exist (after shrinking) or an index beyond the list is skipped."""
import copy
import json
from datetime import timedelta

from . import common
from .evutil import BASE, dt, mk_event

CALLS = {"isect": "filter_period_intersect", "union": "period_union"}


class Env:
    def __init__(self):
        import importlib
        from aw_core.models import Event
        import aw_transform
        import aw_query.functions as qf
        self.Event = Event
        self.fpi = importlib.import_module("aw_transform.filter_period_intersect")
        self.pkg = aw_transform
        self.q2 = qf.functions

    def fn(self, kind, via):
        name = CALLS[kind]
        if via == "q2":
            f = self.q2[name]
            return lambda a, b: f(None, {}, a, b)
        if via == "pkg":
            return getattr(self.pkg, name)
        return getattr(self.fpi, name)


def run_script(script, env, labels, c09, stop_at_first=True):
    """-> (records, findings).  records: one per executed call step
    {"step", "kind", "via", "va", "vb", "res", "mod"}; findings: [(step, clause, message, soft)] in step order, the
    oracle of c09.py applied to every call on its own (soft = only the instance-attribute report)."""
    V = {}
    records, findings = [], []
    kept = []       # results of earlier calls: [step, kind, the returned list object, its Event objects, their snapshots]

    def snap(e):
        return json.dumps([e.get("id"), str(e.get("timestamp")), str(e.get("duration")), e.get("data")], sort_keys=True, default=str)

    def refresh(objs):
        """the script itself (or period_union's documented clearing of its caller's events) changed these objects"""
        ids = {id(o) for o in objs}
        for rec in kept:
            rec[4] = [snap(e) if id(e) in ids else s0 for e, s0 in zip(rec[3], rec[4])]

    def changed_results():
        for step0, kind0, lst, objs, snaps in kept:
            if len(lst) != len(objs) or any(a is not b for a, b in zip(lst, objs)):
                return step0, kind0, "the list returned by the call of step %d was resized or re-filled later" % step0
            for e, s0 in zip(objs, snaps):
                if snap(e) != s0:
                    return step0, kind0, "an event returned by the call of step %d was %s and is now %s although the caller " \
                                         "never touched it" % (step0, s0, snap(e))
        return None
    for k, st in enumerate(script):
        op = st[0]
        try:
            if op == "mk":
                V[st[1]] = c09.build(env.Event, [tuple(x) for x in st[2]])
            elif op in CALLS:
                _, out, an, bn, via = st
                if an not in V or bn not in V:
                    continue
                a, b = V[an], V[bn]
                res, va, vb, mod, ret = c09.observe_call(op, a, b, env.fn(op, via), labels, strict=True)
                V[out] = ret if isinstance(ret, list) else list(ret)
                if op == "union":
                    refresh(a + b)          # the returned caller events lose their data (the function's documented frame)
                kept.append([k, op, V[out], list(V[out]), [snap(e) for e in V[out]]])
                records.append({"step": k, "kind": op, "via": via, "va": va, "vb": vb, "res": res, "mod": mod})
                soft = bool(mod) and "instance attributes" in mod
                if op == "isect":
                    bad = c09.oracle_isect(va, vb, res, None if soft else mod, labels)
                    if bad is None and soft:
                        bad = "not-modified: " + mod
                else:
                    bad = c09.oracle_union(va, vb, res, labels)
                    soft = False
                if bad is None:
                    ch = changed_results()
                    if ch:
                        bad = "earlier-result-intact: %s (the change happened during the call of step %d)" % (ch[2], k)
                if bad:
                    findings.append((k, bad.split(":")[0], bad, soft and bad.startswith("not-modified")))
                    if stop_at_first and not findings[-1][3]:
                        break
            elif op in ("dur", "ts", "put", "setdata"):
                lst = V.get(st[1])
                if not lst or st[2] >= len(lst):
                    continue
                e = lst[st[2]]
                shared = [o for rec in kept for o in rec[3] if o is not e and o.get("data") is e.get("data")] if op == "put" else []
                if op == "dur":
                    e.duration = timedelta(microseconds=st[3])
                elif op == "ts":
                    e.timestamp = dt(st[3])
                elif op == "put":
                    e.data[st[3]] = copy.deepcopy(st[4])
                else:
                    e.data = copy.deepcopy(st[3])
                refresh([e])
                if shared and not findings:
                    findings.append((k, "earlier-result-intact", "earlier-result-intact: writing a key into the data of ONE returned event "
                                     "changed %d other returned event(s): they share one data dict" % len(shared), False))
                    if stop_at_first:
                        break
            elif op in ("categorize", "tag"):
                if st[1] in V:
                    getattr(env.pkg, op)(V[st[1]], [])
                    refresh(V[st[1]])
            elif op == "copy":
                if st[2] in V:
                    V[st[1]] = copy.deepcopy(V[st[2]])
            elif op == "flood":
                if st[2] in V:
                    V[st[1]] = env.pkg.flood(V[st[2]], st[3])
            elif op == "cat":
                if st[2] in V and st[3] in V:
                    V[st[1]] = V[st[2]] + V[st[3]]
            elif op == "sel":
                if st[2] in V:
                    V[st[1]] = [V[st[2]][i] for i in st[3] if i < len(V[st[2]])]
            else:
                raise ValueError("unknown step %r" % (st,))
        except ValueError:
            raise
        except Exception as ex:  # noqa: BLE001 -- a helper step (flood on an odd list, ...) that raises ends the session
            records.append({"step": k, "kind": "aborted", "why": "%s: %s" % (type(ex).__name__, str(ex)[:100])})
            break
    return records, findings


# ---------------------------------------------------------------------------------------
# sessions


def S(units, tag, unit=1000, ids=True, data=None):
    """event specs from (start, length) pairs in `unit` µs after BASE"""
    D = [{"app": "a"}, {"app": "b"}, {"title": "x", "n": 1}]
    return [[BASE + s * unit, d * unit, copy.deepcopy(data if data is not None else D[(i + tag) % 3]),
             (10 * tag + i) if ids else None] for i, (s, d) in enumerate(units)]


def boundary_sessions():
    """hand-written histories, one per way in which state can outlive a call"""
    out = []
    for unit in (1000, 1_000_000):
        for via in ("fn", "q2"):
            u = unit
            # the caller keeps its lists, extends its last event (heartbeat style) / moves a filter event, asks again
            out.append([["mk", "w", S([(0, 10), (20, 10)], 1, u)], ["mk", "f", S([(5, 35)], 2, u)],
                        ["isect", "r1", "w", "f", via], ["dur", "w", 1, 15 * u], ["isect", "r2", "w", "f", via],
                        ["ts", "f", 0, BASE + 25 * u], ["isect", "r3", "w", "f", via],
                        ["dur", "w", 0, 2 * u], ["isect", "r4", "w", "f", via]])
            # the same, the changed event is on the filter side / shrinks
            out.append([["mk", "w", S([(0, 10), (20, 10)], 1, u)], ["mk", "f", S([(5, 10), (22, 3)], 2, u)],
                        ["isect", "r1", "w", "f", via], ["dur", "f", 0, 2 * u], ["dur", "f", 1, 20 * u],
                        ["isect", "r2", "w", "f", via]])
            # intersect -> flood (deep copy of the earlier result, durations stretched) -> intersect
            out.append([["mk", "e", S([(0, 10), (12, 8)], 1, u)], ["mk", "all", S([(0, 100)], 2, u)],
                        ["isect", "s1", "e", "all", via], ["flood", "s2", "s1", 5 * u / 1e6], ["mk", "g", S([(9, 6)], 3, u)],
                        ["isect", "s3", "s2", "g", via]])
            # a deep copy of an input that went through a call is changed and passed in again
            out.append([["mk", "w", S([(0, 4), (6, 4)], 1, u)], ["mk", "f", S([(2, 6)], 2, u)],
                        ["isect", "r1", "w", "f", via], ["copy", "w2", "w"], ["dur", "w2", 1, 9 * u], ["ts", "w2", 0, BASE + 1 * u],
                        ["isect", "r2", "w2", "f", via], ["isect", "r3", "w", "f", via]])
            # results fed back: pieces of an earlier intersection, changed, against the old filter; union of results
            out.append([["mk", "w", S([(0, 10), (20, 10)], 1, u)], ["mk", "f", S([(5, 20)], 2, u)],
                        ["isect", "r1", "w", "f", via], ["dur", "r1", 0, 1 * u], ["isect", "r2", "r1", "f", via],
                        ["union", "u1", "r1", "w", via], ["dur", "u1", 0, 40 * u], ["union", "u2", "u1", "f", via],
                        ["isect", "r3", "u1", "f", via]])
            # period_union: warm call, an input grows and swallows its neighbour, again
            out.append([["mk", "a", S([(0, 10), (30, 10)], 1, u, ids=False)], ["mk", "b", S([(50, 10)], 2, u, ids=False)],
                        ["union", "u1", "a", "b", via], ["dur", "a", 0, 35 * u], ["union", "u2", "a", "b", via],
                        ["ts", "b", 0, BASE + 36 * u], ["union", "u3", "a", "b", via]])
            # period_union: the caller labels ONE returned period in place; siblings, and every later call, stay data-less
            out.append([["mk", "a", S([(0, 10), (30, 10)], 1, u)], ["mk", "b", S([(5, 7), (60, 10)], 2, u)],
                        ["union", "u1", "a", "b", via], ["put", "u1", 0, "status", "active"],
                        ["mk", "c", S([(100, 10)], 1, u)], ["mk", "d", S([(105, 15), (200, 10)], 2, u)],
                        ["union", "u2", "c", "d", via], ["union", "u3", "u1", "c", via]])
            # ... through another transform that annotates in place
            out.append([["mk", "a", S([(0, 10)], 1, u)], ["mk", "b", S([(20, 10)], 2, u)], ["union", "u1", "a", "b", via],
                        ["categorize", "u1"], ["mk", "c", S([(40, 10)], 1, u)], ["mk", "d", S([(45, 15)], 2, u)],
                        ["union", "u2", "c", "d", via], ["tag", "u2"], ["mk", "e", S([(70, 1)], 3, u)],
                        ["union", "u3", "e", "e", via], ["union", "u4", "u2", "u3", via]])
            # data-less results whose data is replaced / nested values
            out.append([["mk", "a", S([(0, 3), (3, 3), (9, 1)], 1, u)], ["mk", "b", S([], 2, u)], ["union", "u1", "a", "b", via],
                        ["setdata", "u1", 1, {"k": [1, {"z": 2}]}], ["put", "u1", 0, "l", [1]],
                        ["mk", "c", S([(0, 3), (9, 1)], 3, u)], ["union", "u2", "c", "b", via], ["union", "u3", "c", "u1", via]])
            # pieces keep e's data: annotate a piece in place, intersect the same inputs again
            out.append([["mk", "w", S([(0, 10), (20, 10)], 1, u)], ["mk", "f", S([(5, 20)], 2, u)],
                        ["isect", "r1", "w", "f", via], ["put", "r1", 0, "seen", True], ["categorize", "r1"],
                        ["isect", "r2", "w", "f", via], ["isect", "r3", "r1", "f", via]])
            # the same list object on both sides, the same Event in two lists, then a change
            out.append([["mk", "w", S([(0, 5), (5, 5), (12, 0)], 1, u)], ["isect", "r1", "w", "w", via],
                        ["sel", "x", "w", [1, 2]], ["mk", "y", S([(3, 20)], 2, u)], ["cat", "z", "x", "y"],
                        ["isect", "r2", "w", "x", via], ["dur", "x", 0, 9 * u], ["isect", "r3", "w", "x", via],
                        ["union", "u1", "z", "w", via], ["isect", "r4", "w", "y", via]])
    return out


def _units(rng, n, chain):
    out, t = [], rng.randrange(0, 4)
    for _ in range(n):
        if chain:
            t += rng.choice([0, 0, 1, 2, 5])
            d = rng.choice([0, 1, 1, 2, 3, 7])
            out.append((t, d))
            t += d
        else:
            out.append((rng.randrange(0, 30), rng.choice([0, 1, 2, 3, 6, 12])))
    return out


def random_session(rng):
    unit = rng.choice([1000, 1000, 1_000_000, 60_000_000])
    via_pool = rng.choice([["fn"], ["q2"], ["fn", "pkg", "q2"]])
    script, lists, results, n = [], [], [], 0

    def fresh(chain=None):
        nonlocal n
        n += 1
        name = "v%d" % n
        chain = rng.random() < 0.7 if chain is None else chain
        specs = S(_units(rng, rng.randrange(0, 5), chain), n, unit, ids=rng.random() < 0.7,
                  data=rng.choice([None, None, {}, {"app": "a"}]))
        if rng.random() < 0.3:
            rng.shuffle(specs)
        script.append(["mk", name, specs])
        lists.append((name, len(specs)))
        return name

    def newname(prefix, length):
        nonlocal n
        n += 1
        name = "%s%d" % (prefix, n)
        lists.append((name, length))
        return name

    fresh(), fresh()
    calls = 0
    for _ in range(rng.randrange(5, 14)):
        r = rng.random()
        nonempty = [(v, k) for v, k in lists if k]
        if r < 0.40 or calls == 0:
            kind = rng.choice(["isect", "isect", "union"])
            a, b = rng.choice(lists)[0], rng.choice(lists)[0]
            if rng.random() < 0.5 and calls:          # the same arguments as an earlier call, after whatever happened since
                prev = rng.choice([s for s in script if s[0] in CALLS])
                a, b = prev[2], prev[3]
            out = newname("r", 4)
            results.append(out)
            script.append([kind, out, a, b, rng.choice(via_pool)])
            calls += 1
        elif r < 0.62 and nonempty:
            v, k = rng.choice(nonempty)
            i = rng.randrange(k)
            if rng.random() < 0.7:
                script.append(["dur", v, i, rng.choice([0, 1, 2, 3, 5, 9, 15, 40]) * unit])
            else:
                script.append(["ts", v, i, BASE + rng.randrange(0, 40) * unit])
        elif r < 0.76 and results:
            v = rng.choice(results)
            w = rng.random()
            if w < 0.5:
                script.append(["put", v, rng.randrange(3), rng.choice(["status", "$category", "k"]),
                               rng.choice(["active", 1, ["x"], {"n": 1}])])
            elif w < 0.65:
                script.append(["setdata", v, rng.randrange(3), rng.choice([{"k": 1}, {}, {"app": "a"}])])
            else:
                script.append([rng.choice(["categorize", "tag"]), v])
        elif r < 0.84:
            script.append(["copy", newname("c", 3), rng.choice(lists)[0]])
        elif r < 0.90:
            script.append(["flood", newname("fl", 3), rng.choice(lists)[0], rng.choice([0, 1, 2, 5]) * unit / 1e6])
        elif r < 0.94:
            script.append(["cat", newname("k", 4), rng.choice(lists)[0], rng.choice(lists)[0]])
        elif r < 0.97 and nonempty:
            v, k = rng.choice(nonempty)
            script.append(["sel", newname("s", 2), v, sorted(rng.sample(range(k), rng.randrange(1, k + 1)))])
        else:
            fresh()
    return script


def shrink_script(script, fails):
    script = common.shrink_list(script, fails, max_steps=150)
    for k, st in enumerate(script):
        if st[0] == "mk" and len(st[2]) > 1:
            specs = common.shrink_list(st[2], lambda sp, _k=k: fails(script[:_k] + [["mk", script[_k][1], sp]] + script[_k + 1:]),
                                       max_steps=30)
            script = script[:k] + [["mk", st[1], specs]] + script[k + 1:]
    return script


class SnapLabels(common.Labels):
    """labels whose representatives are copies: in a history the labelled dict objects are written to later on"""

    def label(self, v):
        n = len(self.reps)
        i = super().label(v)
        if i == n:
            self.reps[i] = copy.deepcopy(v)
        return i


def make_runner(c09):
    """To be called BEFORE the check has called anything in the implementation: every session is evaluated in a
    process forked from that pristine state (harness/freshproc.py), so a session that fails is a self-contained
    history - the state earlier sessions left behind in module globals, caches or default arguments cannot leak in."""
    from .freshproc import Fresh
    env = Env()

    def handler(script):
        labels = SnapLabels()
        records, findings = run_script(script, env, labels, c09)
        return records, findings, labels.reps
    return Fresh(handler)


def run(ck, runner, labels, wire, checks, wire_events, canon_out, empty):
    """the history stream of the C09 check: oracle per call (failing input = shrunk script), every call also queued for
    the extracted model (wire/checks lists of c09.main)"""
    n = 900 if ck.tier == "quick" else 40000
    sessions = boundary_sessions() + [random_session(ck.rng) for _ in range(n)]
    soft_seen = False
    for si, script in enumerate(sessions):
        records, findings, reps = runner.run(script)
        remap = [labels.label(v) for v in reps]

        def views(vs):
            return [(i, t, d, remap[x]) for i, t, d, x in vs]
        ck.count("history:sessions")
        ncalls = 0
        for r in records:
            if r["kind"] == "aborted":
                ck.count("history:session-ended-by-a-helper-step-raising")
                continue
            ncalls += 1
            ck.count("history:call:%s:%s" % (r["kind"], r["via"]))
            va, vb = views(r["va"]), views(r["vb"])
            res = [0, views(r["res"][1])] if r["res"][0] == 0 else r["res"]
            if r["kind"] == "isect":
                wire.append(common.sx([0, wire_events(va), wire_events(vb)]))
                stream = "filter_period_intersect"
            else:
                wire.append(common.sx([1, empty, wire_events(va), wire_events(vb)]))
                stream = "period_union"
            checks.append((stream, "history session %d step %d (%s)" % (si, r["step"], json.dumps(script)[:600]),
                           canon_out(res), {"script": script, "step": r["step"], "impl": res}))
            ck.note_case(["history", si, r["step"], r["kind"], [list(v) for v in va], [list(v) for v in vb]],
                         nontrivial=ncalls >= 2 and res[0] == 0 and len(res[1]) > 0)
        ck.count("history:calls-per-session=%s" % (ncalls if ncalls < 4 else ">=4"))
        for (k, clause, msg, soft) in sorted(findings, key=lambda f: (f[3], f[0])):     # behaviour first
            if soft and soft_seen:
                continue
            soft_seen = soft_seen or soft

            def fails(sc, _clause=clause, _soft=soft):
                return any(c == _clause and s == _soft for _, c, _, s in runner.run(sc)[1])
            small = shrink_script(script, fails) if len(ck.violations) < 3 else script
            f2 = runner.run(small)[1]
            hit = next(((kk, m) for kk, c, m, s in f2 if c == clause and s == soft), (k, msg))
            kind = next((s_[0] for s_ in reversed(small[:hit[0] + 1]) if s_[0] in CALLS), "isect")
            ncall = sum(1 for s in small[:hit[0] + 1] if s[0] in CALLS)
            ck.failing_input("C09:%s:%s" % (kind, clause),
                             "%s, call number %d of a sequence of calls in one process (step %d of the script): %s" % (
                                 CALLS.get(kind, kind), ncall, hit[0], hit[1]),
                             {"script": small, "failing_step": hit[0], "violated": hit[1],
                              "how_to_read": "the steps run in order in ONE fresh process on live objects (harness/c09_hist.py)",
                              "rerun": "PYTHONPATH=%s:%s /venv/bin/python -m harness.c09_replay --script '%s'" % (
                                  common.REPO, common.VERIF, json.dumps(small))})
            break
    ck.coverage["history_evaluations_in_fresh_processes"] = runner.evaluations
