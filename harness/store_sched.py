"""Scenarios on the real stores beyond "one storage object, one thread, an engine that never fails" (round 6).

Every history of harness/store_hist.py / harness/c05.py runs on ONE storage object, in ONE thread, over an engine whose
every call succeeds.  Three classes of context are therefore never produced (seeds C05-14, C04-14, C04-15, C03-14):

  (1) FAULT      one engine call (the k-th statement of a storage method - read or write -, or its COMMIT) raises once,
                 the storage method propagates the exception, the CALLER SURVIVES and carries on with the same object;
  (2) OBJECTS    two storage / Datastore objects on ONE file (peewee: the module-level database handle makes them share a
                 connection - the project's own tests do this; sqlite: two connections), used alternately;
  (3) THREADS    two threads sharing one Datastore / storage object, with a deterministic schedule (harness/twothreads.py):
                 thread A is suspended inside the n-th engine call of its operation (peewee: `Database.execute_sql`;
                 memory: an item lookup of an Event = the sort key, or `copy.deepcopy`) while thread B runs whole
                 operations, then A finishes.

A scenario is JSON:
  {"backend", "layer": "storage" | "datastore", "objects": 1 | 2, "universe": [bucket labels], "dump": "self" | "fresh",
   "opts": {"lazy": bool}, "cls": "fault" | "objects" | "threads", "steps": [step ...]}
  step = {"o": k, "op": symbolic op of store_hist, "fault": [kind, nth, mech] | null, "quiet": bool}
       | {"a": {"o", "op"}, "b": [{"o", "op"} ...], "pause": [callee, nth]}        callee: "sql" | "item" | "deepcopy"
fault kinds: "any" (every statement but PRAGMA, reads included, in order), "write", "read", "commit" (sqlite); mechanisms
"wrap" (the call raises 'database is locked' before it reaches the engine) and, for writes / COMMIT, "auth" (the ENGINE
refuses: the connection's authorizer denies exactly that statement).

`run_scenario` executes it on a fresh store and records, per step, the result and (unless quiet) a dump of every bucket of
the universe + the listing + the number of event rows in the tables.  "fresh" dumps are taken by an observer of the
harness's own: a new storage object opened on the file for that purpose (a client that opens the file now).

`judge` is the property statement on such a run, from the CALLS alone (`Account`: reference keyed map bucket -> metadata as
supplied, events by the id the call returned / id-less multiset for bulk inserts): a call that returned normally is
reflected exactly once; a call that raised changed nothing - except that a call in which the injected fault fired may have
happened, not happened, or (delete_bucket) left its bucket listed with some of its events (decision recorded in
notes/agents/C05.md "Round 6": the property text forbids none of these; what it does forbid is an UNLISTED bucket whose
events stay behind and turn up in the next bucket, a change of another bucket, a change of metadata); buckets addressed by
no call since the last dump read back exactly as before (C04); a created bucket starts empty (C05).  Two threads: the
final state is the effect of A's and B's returned operations in either order, a read returns a state between two
operations, a read concurrent with nothing but reads returns what the same read returns afterwards."""
import copy as _copy
import json
import multiprocessing
import os
import shutil
import sqlite3
import sys
import tempfile

from . import c07_fault as cf
from . import common
from . import store_hist as sh
from . import twothreads as tt
from .evutil import BASE

SEC = sh.SEC
MISSING = sh.MISSING_BUCKET
KINDS = ("any", "write", "read", "commit")


# ---------------------------------------------------------------------------
# the engine that can fail (own counter: reads are positions too; mechanisms of harness/c07_fault.py)


class Engine:
    def __init__(self):
        self.armed = None
        self.n = dict.fromkeys(KINDS, 0)
        self.position = None
        self.log = []

    def arm(self, kind, nth, mech="wrap"):
        self.n = dict.fromkeys(KINDS, 0)
        self.position = None
        self.log = []
        self.armed = (kind, nth, mech)

    def disarm(self):
        self.armed = None

    def hit(self, kinds, what):
        """one engine call that counts under `kinds` -> None | mechanism by which it has to fail"""
        how = None
        a = self.armed
        if a is not None:
            self.log.append(what)
        for k in kinds:
            i = self.n[k]
            self.n[k] += 1
            if a and self.position is None and a[0] == k and a[1] == i:
                how = a[2]
        return how

    def note(self, kind, what=None):
        if self.position is None and self.armed:
            self.position = [self.armed[0], self.armed[1], what]


def _kw(sql):
    try:
        return sql.lstrip().split(None, 1)[0].upper()
    except Exception:  # noqa: BLE001
        return "?"


def _kinds(kw):
    if kw == "PRAGMA":
        return ()
    return ("any", "write") if kw in cf.WRITE_KW else ("any", "read")


class _Cursor:
    def __init__(self, real, conn):
        self.__dict__["_real"] = real
        self.__dict__["_conn"] = conn

    def execute(self, sql, *a):
        return self._conn._statement(self._real.execute, sql, a)

    def executemany(self, sql, *a):
        return self._conn._statement(self._real.executemany, sql, a)

    def __iter__(self):
        return iter(self._real)

    def __getattr__(self, name):
        return getattr(self._real, name)

    def __setattr__(self, name, v):
        setattr(self._real, name, v)


class _Conn:
    """delegates to the storage's real sqlite3 connection"""

    def __init__(self, real, eng):
        self.__dict__["_real"] = real
        self.__dict__["_eng"] = eng

    def _statement(self, call, sql, a):
        kw = _kw(sql)
        how = self._eng.hit(_kinds(kw), kw)
        if how == "auth" and kw in cf.WRITE_KW:
            return cf._deny_once(self._real, self._eng, "write", lambda act, a1: act in cf._WRITE_ACTIONS,
                                 lambda: call(sql, *a), kw)
        if how is not None:
            self._eng.note("any", kw)
            raise sqlite3.OperationalError("database is locked")
        return call(sql, *a)

    def commit(self):
        how = self._eng.hit(("commit",), "COMMIT")
        if how == "auth":
            return cf._deny_once(self._real, self._eng, "commit",
                                 lambda act, a1: act == sqlite3.SQLITE_TRANSACTION and a1 == "COMMIT", self._real.commit, "COMMIT")
        if how is not None:
            self._eng.note("commit", "COMMIT")
            raise sqlite3.OperationalError("database is locked")
        return self._real.commit()

    def execute(self, sql, *a):
        return self._statement(self._real.execute, sql, a)

    def executemany(self, sql, *a):
        return self._statement(self._real.executemany, sql, a)

    def cursor(self, *a, **k):
        return _Cursor(self._real.cursor(*a, **k), self)

    def __getattr__(self, name):
        return getattr(self._real, name)

    def __setattr__(self, name, v):
        setattr(self._real, name, v)


def install(backend, raws, eng):
    """the counting / failing wrapper under every storage object of the scenario -> undo"""
    if backend == "sqlite":
        reals = [(st, st.conn) for st in raws]
        for st, real in reals:
            st.conn = _Conn(real, eng)

        def undo():
            for st, real in reals:
                st.conn = real
        return undo
    if backend == "peewee":
        import peewee
        db = raws[0].db
        orig = db.execute_sql

        def execute_sql(sql, params=None, *a, **k):
            kw = _kw(sql)
            how = eng.hit(_kinds(kw), kw)
            if how == "auth" and kw in cf.WRITE_KW:
                return cf._deny_once(db.connection(), eng, "write", lambda act, a1: act in cf._WRITE_ACTIONS,
                                     lambda: orig(sql, params, *a, **k), kw)
            if how is not None:
                eng.note("any", kw)
                raise peewee.OperationalError("database is locked")
            return orig(sql, params, *a, **k)
        db.execute_sql = execute_sql           # instance attribute of the module-level database object

        def undo():
            try:
                del db.execute_sql
            except AttributeError:
                pass
        return undo
    return lambda: None


# ---------------------------------------------------------------------------
# the stage: the objects of one scenario


class Stage:
    def __init__(self, scn, tmpdir, n):
        from aw_datastore import Datastore
        from aw_datastore.storages import MemoryStorage, PeeweeStorage, SqliteStorage
        self.scn = scn
        self.backend = be = scn["backend"]
        self.layer = layer = scn.get("layer", "storage")
        self.count = count = scn.get("objects", 1)
        self.path = os.path.join(tmpdir, f"sched{n}.db")
        lazy = scn.get("opts", {}).get("lazy", count == 1)
        self.objs = []
        self.shared = None
        for _ in range(count):
            if be == "memory":
                if self.shared is None:
                    self.shared = MemoryStorage(testing=True)
                shared = self.shared
                self.objs.append(shared if layer == "storage"
                                 else sh.ViaDatastore(Datastore(lambda testing, **kw: shared, testing=True)))
            elif be == "sqlite":
                self.objs.append(SqliteStorage(testing=True, filepath=self.path, enable_lazy_commit=lazy) if layer == "storage"
                                 else sh.ViaDatastore(Datastore(SqliteStorage, testing=True, filepath=self.path,
                                                                enable_lazy_commit=lazy)))
            else:
                self.objs.append(PeeweeStorage(testing=True, filepath=self.path) if layer == "storage"
                                 else sh.ViaDatastore(Datastore(PeeweeStorage, testing=True, filepath=self.path)))
        if be == "sqlite" and count > 1:
            # two connections: a statement that fails can leave a transaction open on one of them; the other one then waits
            # sqlite3's default 5 s per call.  No lock is ever held between two calls on the unchanged tree (every
            # write commits: enable_lazy_commit=False), so a short timeout changes nothing there
            for k in range(count):
                self.raw(k).conn.execute("PRAGMA busy_timeout=300")
        self.eng = Engine()
        self.undo = install(be, [self.raw(k) for k in range(count)], self.eng) \
            if any(s.get("fault") for s in scn["steps"]) else (lambda: None)

    def raw(self, k):
        o = self.objs[k]
        return o.raw if isinstance(o, sh.ViaDatastore) else o

    def close(self):
        self.undo()
        for k in range(self.count):
            try:
                if self.backend == "sqlite":
                    self.raw(k).conn.close()
                elif self.backend == "peewee":
                    self.raw(k).db.close()
            except Exception:  # noqa: BLE001
                pass
        for suf in ("", "-wal", "-shm", "-journal"):
            try:
                os.unlink(self.path + suf)
            except OSError:
                pass

    # -- observation

    def observer(self):
        """-> (storage object to read through, close function)"""
        if self.scn.get("dump", "self") != "fresh" or self.backend == "memory":
            return self.objs[0], (lambda: None)
        if self.backend == "sqlite":
            from aw_datastore.storages import SqliteStorage
            st = SqliteStorage(testing=True, filepath=self.path, enable_lazy_commit=False)
            st.conn.execute("PRAGMA busy_timeout=300")
            return st, st.conn.close
        from aw_datastore.storages import PeeweeStorage
        return PeeweeStorage(testing=True, filepath=self.path), (lambda: None)

    def nrows(self):
        if self.backend == "memory":
            return sum(len(v) for v in (self.shared.db.values()))
        c = sqlite3.connect(self.path, timeout=1.0)
        try:
            return c.execute("SELECT count(*) FROM " + ("events" if self.backend == "sqlite" else "eventmodel")).fetchone()[0]
        except sqlite3.Error as ex:
            return ["raised", type(ex).__name__]
        finally:
            c.close()

    def observe(self, univ):
        st, done = self.observer()
        try:
            views = dump_total(st, univ)
            try:
                listing = [[sh.n_of(k), sh.meta_w(v)] for k, v in st.buckets().items()]
            except Exception as ex:  # noqa: BLE001
                listing = ["raised", type(ex).__name__]
        finally:
            done()
        return views, listing, self.nrows()


def dump_total(st, univ):
    out = []
    for b in univ:
        try:
            m = st.get_metadata(sh.s_of(b))
        except ValueError:
            out.append([])
            continue
        except Exception as ex:  # noqa: BLE001 -- reported by the oracle
            out.append(["raised", "get_metadata", type(ex).__name__])
            continue
        try:
            evs = sorted((sh.ev_w(e) for e in st.get_events(sh.s_of(b), -1)), key=lambda w: (w[0], w[1:]))
            out.append([[sh.meta_w(m), evs]])
        except Exception as ex:  # noqa: BLE001
            out.append(["raised", "get_events", type(ex).__name__])
    return out


def _plain(views):
    return [[] if (v and v[0] == "raised") else v for v in views]


def _prebuilt(wire):
    """Event objects for the event arguments of a wire op, built by the caller's thread BEFORE the call"""
    code = wire[0]
    if code in (5, 8):
        return [sh.mk_ev(wire[2])]
    if code == 7:
        return [sh.mk_ev(wire[3])]
    if code == 6:
        return [sh.mk_ev(w) for w in wire[2]]
    return None


def _close_thread_connection(stage):
    if stage.backend == "peewee":
        try:
            db = stage.raw(0).db
            if not db.is_closed():
                db.close()
        except Exception:  # noqa: BLE001
            pass


def _callee(stage, name):
    if name == "sql":
        import peewee
        return tt.Callee(peewee.Database, "execute_sql")
    if name == "item":
        from aw_core.models import Event
        return tt.Callee(Event, "__getitem__")
    if name == "deepcopy":
        import copy
        return tt.Callee(copy, "deepcopy", everywhere=False)
    raise ValueError(name)


def run_scenario(scn, tmpdir, n):
    """-> {"steps": [record per step]}; see the module text.  Never raises for what the library does."""
    univ = scn["universe"]
    stage = Stage(scn, tmpdir, n)
    out = []
    try:
        views, listing, nrows = stage.observe(univ)
        seen = set()
        for step in scn["steps"]:
            rec = {}
            if "a" in step:
                wa = sh.concretise(step["a"]["op"], univ, _plain(views), seen)
                wbs = [sh.concretise(s["op"], univ, _plain(views), seen) for s in step["b"]]
                if wa is None or any(w is None for w in wbs):
                    out.append({"skipped": True})
                    continue
                aargs = _prebuilt(wa)
                bargs = [_prebuilt(w) for w in wbs]
                oa = stage.objs[step["a"]["o"]]

                def a(oa=oa, wa=wa, aargs=aargs):
                    try:
                        return sh.apply_op(oa, wa, aargs)
                    finally:
                        _close_thread_connection(stage)

                def b(step=step, wbs=wbs, bargs=bargs):
                    try:
                        return [sh.apply_op(stage.objs[s["o"]], w, ar) for s, w, ar in zip(step["b"], wbs, bargs)]
                    finally:
                        _close_thread_connection(stage)
                def mid():
                    try:
                        return stage.observe(univ)[0]
                    finally:
                        _close_thread_connection(stage)
                o = tt.interleave(a, b, pause=_callee(stage, step["pause"][0]), nth=step["pause"][1], wait_s=30.0, mid=mid)
                rec = {"wire_a": wa, "wire_b": wbs, "reached": o.reached, "blocked": o.b_blocked, "timed_out": list(o.timed_out),
                       "a": o.a.value if o.a.state == "ok" else ["thread", o.a.state, type(o.a.exc).__name__ if o.a.exc else None],
                       "b": o.b.value if o.b.state == "ok" else ["thread", o.b.state, type(o.b.exc).__name__ if o.b.exc else None]}
                if o.mid.state == "ok" and o.reached and not o.b_blocked:
                    rec["mid"] = o.mid.value         # every bucket as it reads after B, while A is still suspended
                if o.timed_out:
                    out.append(rec)
                    break
                if all(w[0] in (10, 11, 12) for w in [wa] + wbs):
                    # nothing but reads ran: the same reads again, one after the other
                    rec["reread"] = [sh.apply_op(stage.objs[s["o"]], w) for s, w in zip([step["a"]] + step["b"], [wa] + wbs)]
            else:
                w = sh.concretise(step["op"], univ, _plain(views), seen)
                if w is None:
                    out.append({"skipped": True})
                    continue
                f = step.get("fault")
                if f:
                    stage.eng.arm(*f)
                try:
                    res = sh.apply_op(stage.objs[step["o"]], w)
                finally:
                    pos, log = stage.eng.position, list(stage.eng.log)
                    stage.eng.disarm()
                rec = {"wire": w, "res": res}
                if f:
                    rec["fired"] = pos
                    rec["statements"] = log
            if not step.get("quiet"):
                views, listing, nrows = stage.observe(univ)
                for v in _plain(views):
                    seen.update(sh.live_ids(v))
                rec.update(views=views, listing=listing, nrows=nrows)
            out.append(rec)
        return {"steps": out}
    finally:
        stage.close()


_WORK = {}


def _worker(args):
    lo, hi = args
    tmpdir = tempfile.mkdtemp(prefix="awsched-", dir=_WORK["tmp"])
    out = []
    try:
        for n in range(lo, hi):
            try:
                out.append(run_scenario(_WORK["scn"][n], tmpdir, n))
            except Exception as ex:  # noqa: BLE001 -- the harness could not drive the store: reported
                import traceback
                out.append({"crash": f"{type(ex).__name__}: {ex}", "trace": traceback.format_exc()[-1500:]})
    finally:
        shutil.rmtree(tmpdir, ignore_errors=True)
    return lo, out


def run_batch(scenarios, procs=None):
    procs = procs or min(12, os.cpu_count() or 2)
    from aw_core.dirs import get_data_dir
    get_data_dir("aw-server")
    tmp = tempfile.mkdtemp(prefix="awsched-batch-")
    _WORK.update(scn=scenarios, tmp=tmp)
    n = len(scenarios)
    step = max(1, min(20, (n + procs * 4 - 1) // (procs * 4)))
    jobs = [(i, min(n, i + step)) for i in range(0, n, step)]
    results = [None] * n
    try:
        if n == 0:
            return []
        ctx = multiprocessing.get_context("fork")
        with ctx.Pool(min(procs, len(jobs))) as pool:
            parts = pool.map(_worker, jobs, chunksize=1)
        for lo, out in parts:
            results[lo:lo + len(out)] = out
    finally:
        shutil.rmtree(tmp, ignore_errors=True)
    return results


# ---------------------------------------------------------------------------
# the property statement on a scenario run


BUCKET_LEVEL = {0, 1, 2, 3, 4}
READS = {3, 4, 10, 11, 12}
PRIORITY = ["created-not-empty", "other-bucket", "read", "events", "map", "missing", "timeout", "unreadable", "orphan-rows"]


def payload(w):
    return tuple(w[1:])


def meta_agrees(given, got):
    ty, cl, ho, cr, na, da = given
    return (got[0] == ty and got[1] == cl and got[2] == ho and got[3] == cr and got[5] == da
            and (na in (None, 0) or got[4] == [na]))


def _new(meta, fresh=True):
    return {"meta": list(meta), "mk": True, "byid": {}, "anon": [], "known": True, "fresh": fresh}


def effect(ref, wire, res):
    """effect on the reference keyed map of a call that RETURNED NORMALLY (ids as the call returned them)"""
    code = wire[0]
    if code in READS or code == 13:
        return
    b = wire[1]
    if code == 0:
        if b in ref:                       # outside the quantifier: memory resets the bucket
            ref[b].update(known=False, mk=False, fresh=False)
        else:
            m = wire[2]
            ref[b] = _new([m[0], m[1], m[2], m[3], sh.unopt(m[4]), m[5]])
        return
    r = ref.get(b)
    if r is None:
        return
    if code == 1:
        vals = [sh.unopt(v) for v in wire[2:7]]
        if any(v == 0 for v in vals if v is not None):
            r["mk"] = False
            return
        for idx, v in zip((0, 1, 2, 4, 5), vals):
            if v is not None:
                r["meta"][idx] = v
        return
    if code == 2:
        del ref[b]
        return
    r["fresh"] = False

    def upsert(i, p):
        if i in r["byid"]:
            r["byid"][i] = p
        else:
            r["known"] = False
    if code == 5:
        w = wire[2]
        if w[0]:
            r["known"] = False           # a single insert that carries an id: outside the quantifier (sqlite ignores the id)
        else:
            o = res[1]
            if o[0] == 1 and len(o[1]) == 1 and o[1][0][0]:
                r["byid"][o[1][0][0][0]] = payload(w)
            else:
                r["known"] = False
    elif code == 6:
        for w in wire[2]:
            if w[0]:
                upsert(w[0][0], payload(w))
            else:
                r["anon"].append(payload(w))
    elif code == 7:
        if wire[3][0] and wire[3][0][0] != wire[2]:
            r["known"] = False
        else:
            upsert(wire[2], payload(wire[3]))
    elif code == 8:
        ts = sorted(((p[0], i) for i, p in r["byid"].items()), reverse=True)
        if r["anon"] or not ts or (len(ts) > 1 and ts[0][0] == ts[1][0]) or wire[2][0]:
            r["known"] = False
        else:
            r["byid"][ts[0][1]] = payload(wire[2])
    elif code == 9:
        if wire[2] in r["byid"]:
            del r["byid"][wire[2]]
        elif r["anon"]:
            r["known"] = False


def matches(cand, view):
    if cand is None:
        return view == []
    if view == [] or view[0] == "raised":
        return False
    m, evs = view[0]
    if cand["mk"] and not meta_agrees(cand["meta"], m):
        return False
    if not cand["known"]:
        return True
    ids = [w[0][0] for w in evs if w[0]]
    if len(ids) != len(evs) or len(set(ids)) != len(ids):
        return False
    here = {w[0][0]: payload(w) for w in evs if w[0][0] in cand["byid"]}
    rest = sorted(payload(w) for w in evs if w[0][0] not in cand["byid"])
    if cand.get("subset"):
        return not rest and all(cand["byid"][i] == p for i, p in here.items())
    return here == cand["byid"] and rest == sorted(cand["anon"])


def from_view(view):
    if view == [] or view[0] == "raised":
        return None
    m, evs = view[0]
    r = _new([m[0], m[1], m[2], m[3], sh.unopt(m[4]), m[5]], fresh=False)
    r["byid"] = {w[0][0]: payload(w) for w in evs if w[0]}
    if len(r["byid"]) != len(evs):
        r["known"] = False         # events without an id / two under one id: reported once, not again at every later step
    return r


def show(cand):
    if cand is None:
        return "absent"
    ev = sorted([i] + list(p) for i, p in cand["byid"].items())
    return (f"meta {cand['meta'] if cand['mk'] else 'any'}, events "
            + (f"{ev}" + (f" + bulk-inserted {sorted(cand['anon'])}" if cand["anon"] else "") if cand["known"] else "any")
            + (" (or a part of them)" if cand.get("subset") else ""))


def _events_of(res):
    """events / count a read returned -> ("events", sorted wire events) | ("count", n) | None"""
    if res[0] != 0:
        return None
    o = res[1]
    if o[0] == 2:
        return "events", sorted(o[1], key=lambda w: (w[0], w[1:]))
    if o[0] == 3:
        return "count", o[1]
    return None


def _read_ok(wire, res, states):
    """an unwindowed read of all events / the count: is the answer the contents of the bucket in one of the states?"""
    if res[0] != 0:
        return True
    if wire[0] == 11 and (wire[2] >= 0 or wire[3] != [] or wire[4] != []):
        return True
    if wire[0] == 12 and (wire[2] != [] or wire[3] != []):
        return True
    got = _events_of(res)
    if got is None:
        return True
    for st in states:
        r = st.get(wire[1])
        if r is None or not r["known"]:
            return True
        if got[0] == "count":
            if got[1] == len(r["byid"]) + len(r["anon"]):
                return True
        elif matches(dict(r, mk=False), [[None, got[1]]]):
            return True
    return False


def judge(scn, run):
    """-> list of violations {"kind", "step", "text"} (empty: the run satisfies the statement).  See the module text."""
    univ = scn["universe"]
    out = []
    if "crash" in run:
        return [{"kind": "unreadable", "step": -1, "text": "the harness could not drive the store: " + run["crash"]}]
    ref = {}
    cands = {}                  # bucket -> admitted alternatives besides ref[b] (a call in which the fault fired)
    touched = {}                # bucket -> description of the calls addressed to it since the last dump
    created = set()             # buckets (re-)created by a returned call since the last dump
    prev = [[] for _ in univ]

    def bad(kind, j, text):
        out.append({"kind": kind, "step": j, "text": text})

    def who(step):
        return (f"object {step['o']}: " if scn.get("objects", 1) > 1 else "") + ""

    for j, (step, rec) in enumerate(zip(scn["steps"], run["steps"])):
        if rec.get("skipped"):
            continue
        if "a" in step:
            if rec["timed_out"]:
                bad("timeout", j, f"thread(s) {rec['timed_out']} never finished: A = {sh.describe(rec['wire_a'])} suspended in its "
                                  f"{step['pause'][1]}. call of {step['pause'][0]}, B = {[sh.describe(w) for w in rec['wire_b']]}")
                break
            wa, wbs, ra, rbs = rec["wire_a"], rec["wire_b"], rec["a"], rec["b"]
            what = (f"thread A: {sh.describe(wa)} suspended inside its {step['pause'][1]}. call of "
                    f"{ {'sql': 'Database.execute_sql', 'item': 'Event.__getitem__', 'deepcopy': 'copy.deepcopy'}[step['pause'][0]] }"
                    f"{'' if rec['reached'] else ' (never reached: A ran to its end first)'}; meanwhile thread B: "
                    f"{[sh.describe(w) for w in wbs]}; results A {ra}, B {rbs}")
            if ra and ra[0] == "thread" or rbs and rbs[0] == "thread":
                bad("unreadable", j, what + ": the harness's thread function failed")
                break
            # states reachable by the returned calls: B's prefix with / without A
            def after(seq):
                r = _copy.deepcopy(ref)
                for w, res in seq:
                    if res[0] == 0:
                        effect(r, w, res)
                return r
            bseq = list(zip(wbs, rbs))
            no_a = [after(bseq[:i]) for i in range(len(bseq) + 1)]
            with_a = [after([(wa, ra)] + bseq[:i]) for i in range(len(bseq) + 1)]
            if not _read_ok(wa, ra, no_a):
                bad("read", j, what + f": A's read of bucket {wa[1]} is not the contents of the bucket at any moment "
                                      f"(before: {show(ref.get(wa[1]))})")
            for i, (w, res) in enumerate(bseq):
                if not _read_ok(w, res, [no_a[i], with_a[i]]):
                    bad("read", j, what + f": B's read {sh.describe(w)} returned {res[1]}, the bucket holds "
                                          f"{show(no_a[i].get(w[1]))}")
            if "reread" in rec:
                for w, r1, r2 in zip([wa] + wbs, [ra] + rbs, rec["reread"]):
                    if r1 != r2:
                        bad("read", j, what + f": nothing but reads ran, yet {sh.describe(w)} returned {r1} then and {r2} "
                                              "when asked again afterwards")
            ab, ba = after([(wa, ra)] + bseq), after(bseq + [(wa, ra)])
            for w, res in [(wa, ra)] + bseq:
                if w[0] not in READS:
                    b = w[1]
                    touched.setdefault(b, []).append(sh.describe(w))
                    if w[0] == 0 and res[0] == 0:
                        created.add(b)
            for b in set(ab) | set(ba) | set(ref):
                if ab.get(b) != ba.get(b) or ab.get(b) != ref.get(b):
                    cands.setdefault(b, []).append(ba.get(b))
            ref = ab
            desc = what
        else:
            w, res = rec["wire"], rec["res"]
            code = w[0]
            b = None if code == 3 else w[1]
            fired = rec.get("fired")
            ok = res[0] == 0
            desc = (who(step) + sh.describe(w) + (" -> returned" if ok else f" -> raised {sh.ERRNAME.get(res[1], 'other')}")
                    + (f" (its {fired[1] + 1}. {'statement' if fired[0] == 'any' else fired[0]}, {fired[2]}, failed once"
                       f" [{step['fault'][2]}]; the caller carries on)" if fired else ""))
            if code not in READS and code != 13:
                touched.setdefault(b, []).append(desc)
            if ok:
                if b is not None and b not in ref and code in (1, 2, 4) and not cands.get(b):
                    bad("missing", j, f"{desc}: the bucket does not exist, the call was not rejected")
                if code == 0 and b not in ref:
                    created.add(b)
                if code in (11, 12) and not _read_ok(w, res, [ref]) and not cands.get(b):
                    bad("read", j, f"{desc}: the bucket holds {show(ref.get(b))}")
                effect(ref, w, res)
            elif fired and code not in READS:
                old = ref.get(b)
                alts = []
                if code == 0 and old is None:
                    m = w[2]
                    alts = [_new([m[0], m[1], m[2], m[3], sh.unopt(m[4]), m[5]])]
                elif code == 1 and old is not None:
                    new = {b: _copy.deepcopy(old)}
                    effect(new, w, res)
                    alts = [new[b]]
                elif code == 2 and old is not None:
                    part = _copy.deepcopy(old)
                    part["subset"] = True
                    alts = [part, None]
                elif old is not None:
                    unk = _copy.deepcopy(old)
                    unk["known"] = False
                    alts = [unk]
                cands.setdefault(b, []).extend(alts)
            elif not ok and scn.get("objects", 1) == 1 and b is not None and b not in ref and not cands.get(b) \
                    and code in (1, 2, 4) and res[1] != sh.ERR["ValueError"] and not fired:
                bad("missing", j, f"{desc}: expected ValueError")
        if "views" not in rec:
            continue
        views, listing, nrows = rec["views"], rec["listing"], rec["nrows"]
        if "a" in step and "mid" in rec:
            # between the observation taken while A was suspended (B had finished) and the one taken at the end, A's
            # operation ran alone: it may change the bucket it addresses (nothing at all when it is a read)
            wa = rec["wire_a"]
            own = None if wa[0] in READS else wa[1]
            for b, v0, v1 in zip(univ, rec["mid"], views):
                if b != own and v0 != v1:
                    if wa[0] in READS:
                        bad("read", j, desc + f": A only reads, yet bucket {b} read back as {v0} while A's read was in progress "
                                             f"(B had finished) and as {v1} afterwards")
                    else:
                        bad("other-bucket", j, desc + f": A's operation is addressed to bucket {own}; between the observation "
                                                     f"taken while it was suspended (B had finished) and the end it ran alone and "
                                                     f"changed bucket {b}: {v0} -> {v1}")
                    break
        for b, v in zip(univ, views):
            alts = [ref.get(b)] + cands.get(b, [])
            hit = next((c for c in alts if matches(c, v)), "no")
            if hit == "no":
                since = touched.get(b)
                if v and v[0] == "raised":
                    kind = "unreadable"
                    text = f"storage.{v[1]} of bucket {b} raises {v[2]}"
                elif since is None:
                    kind = "other-bucket"
                    text = (f"changed bucket {b}, which no call addressed: {prev[univ.index(b)]} -> {v}")
                elif b in created and v != [] and v[0][1] and alts[0] is not None and not alts[0]["byid"] and not alts[0]["anon"]:
                    kind = "created-not-empty"
                    text = f"bucket {b} was created by a call that returned and nothing was written to it, it holds {v[0][1]}"
                elif (alts[0] is None) != (v == []) or (v != [] and alts[0] is not None and alts[0]["mk"]
                                                        and not meta_agrees(alts[0]["meta"], v[0][0])):
                    kind = "map"
                    text = (f"bucket {b} reads back as {v if v else 'absent'}; the calls that returned say: "
                            + " or ".join(show(c) for c in alts))
                else:
                    kind = "events"
                    text = (f"bucket {b} holds {v[0][1] if v else v}; the calls addressed to it that returned account for: "
                            + " or ".join(show(c) for c in alts))
                bad(kind, j, f"{desc}: " + text + (f" (calls addressed to bucket {b} since it was last read: {since})"
                                                   if since and kind != "other-bucket" else ""))
                hit = from_view(v)
            if hit is None:
                ref.pop(b, None)
            else:
                new = from_view(v) if not (v and v[0] == "raised") else hit
                ref[b] = new if new is not None else hit
        if isinstance(listing, list) and listing and listing[0] == "raised":
            bad("unreadable", j, f"{desc}: buckets() raises {listing[1]}")
        else:
            ids = [x[0] for x in listing]
            want = [b for b in ref]
            if sorted(ids) != sorted(want) or len(set(ids)) != len(ids):
                bad("map", j, f"{desc}: buckets() lists {ids}, the buckets that can be described are {sorted(want)}")
            else:
                for b, m in listing:
                    v = views[univ.index(b)] if b in univ else []
                    if v and v[0] != "raised" and v[0][0] != m:
                        bad("map", j, f"{desc}: bucket {b}: buckets() says {m}, get_metadata says {v[0][0]}")
                        break
            if isinstance(nrows, int) and set(ids) <= set(univ) and all(not (v and v[0] == "raised") for v in views):
                held = sum(len(v[0][1]) for v in views if v != [])
                if nrows != held:
                    bad("orphan-rows", j, f"{desc}: the tables hold {nrows} event rows, the listed buckets own {held}: rows of "
                                          "a bucket that is not listed were left behind")
        cands, touched, created = {}, {}, set()
        prev = views
    out.sort(key=lambda v: (v["step"], PRIORITY.index(v["kind"])))
    return out


def verdict(scn, run, kinds):
    """the violation to report for a check that owns `kinds`: the first step that has one, the most telling kind there -
    but a later `created-not-empty` / `other-bucket` (the sentence of the property text) is preferred to an earlier
    white-box `orphan-rows` / `map` observation"""
    vs = [v for v in judge(scn, run) if v["kind"] in kinds]
    if not vs:
        return None
    for k in ("created-not-empty", "other-bucket"):
        for v in vs:
            if v["kind"] == k:
                return v
    return vs[0]


# ---------------------------------------------------------------------------
# generators


def E(t, d=SEC, x=1, h=None):
    return [h, BASE + t * SEC, d, x]


M1 = [1, 2, 3, 0, None, 0]
M2 = [4, 3, 2, 1, 5, 2]
M3 = [2, 2, 2, 2, None, 1]


def _setup(o=0, with_c=True):
    """three buckets: 1 holds three events (the newest row of the table when `last` = 1), 2 two, 3 one"""
    s = [{"o": o, "op": ["create", 1, M1]}, {"o": o, "op": ["create", 2, M2]}]
    if with_c:
        s.append({"o": o, "op": ["create", 3, M3]})
    s += [{"o": o, "op": ["insert", 2, E(0, x=4)]}, {"o": o, "op": ["insert", 1, E(0, x=1)]},
          {"o": o, "op": ["insert_many", 2, [E(1, x=5)]]}]
    if with_c:
        s.append({"o": o, "op": ["insert", 3, E(0, x=3)]})
    s += [{"o": o, "op": ["insert", 1, E(1, x=2)]}, {"o": o, "op": ["insert", 1, E(2, 0, 3)]}]
    return s


def _scn(be, layer, steps, cls, objects=1, dump="self", univ=None, opts=None):
    return {"backend": be, "layer": layer, "objects": objects, "universe": univ or [1, 2, 3, 4, MISSING], "dump": dump,
            "opts": opts or {}, "cls": cls, "steps": steps}


def fault_ops():
    """the operations in which the engine fails, each with the number of statement positions worth trying"""
    x = E(5, x=9)
    return [
        (["create", 4, M2], 3), (["update", 1, 3, None, None, 7, 2], 3), (["update", 2, None, 4, None, None, None], 3),
        (["delete_bucket", 1], 4), (["delete_bucket", 2], 4), (["delete_bucket", 3], 4),
        (["insert", 1, x], 2), (["insert_many", 1, [x, E(6, x=8)]], 2), (["insert_many", 2, [[["live", 0]] + E(7, x=7)[1:], x]], 4),
        (["replace", 1, ["live", 1], x], 3), (["replace_last", 1, x], 3), (["delete", 1, ["live", 2]], 2),
    ]


def follow_ups(op):
    """what the surviving caller does next: the same call again, then creates - the SAME id again after a delete, and
    ANOTHER id (peewee hands out the key of the newest deleted row again) -, writes and reads"""
    b = op[1]
    again = [op]
    other = 4 if b != 4 else 3
    if op[0] == "delete_bucket":
        return [[["create", other, M3], ["insert", other, E(8, x=6)], op, ["create", b, M2]],
                [["create", b, M3], ["insert", b, E(8, x=6)]],
                [op, ["create", b, M3], ["create", other, M1]],
                [["insert", b, E(8, x=6)], op, ["create", other, M1]]]
    if op[0] == "create":
        return [[op, ["insert", b, E(8, x=6)]], [["insert", b, E(8, x=6)], op], [["delete_bucket", b], op]]
    if op[0] == "update":
        return [[op, ["metadata", b]], [["delete_bucket", b], ["create", b, M3]]]
    return [again + [["insert", b, E(8, x=6)]], [["delete_bucket", b], ["create", b, M3], ["create", other, M1]]]


def fault_scenarios(rng=None, quick=True, backends=("peewee", "sqlite")):
    """every statement position of every bucket-level and event-level operation x mechanism x what the caller does next.
    Deterministic grid (sampled by the seed in the quick tier), then a few scenarios with an unread run-up."""
    out = []
    for be in backends:
        for op, npos in fault_ops():
            positions = [["write", k, m] for k in range(min(npos, 3)) for m in ("wrap", "auth")]
            # a failing READ: not inside peewee's create_bucket / delete_bucket (their last statement re-reads the key
            # map; when that SELECT raises the unchanged tree keeps a stale map - finding C of notes/agents/C05.md
            # "Round 6" - and nothing of what follows can be judged through that object)
            if not (be == "peewee" and op[0] in ("create", "delete_bucket")):
                positions += [["read", k, "wrap"] for k in range(2)]
            if be == "sqlite":
                positions += [["commit", 0, "wrap"], ["commit", 0, "auth"], ["commit", 1, "wrap"]]
            for pos in positions:
                for fu in follow_ups(op):
                    for layer in sh.LAYERS:
                        steps = _setup() + [{"o": 0, "op": op, "fault": pos}] + [{"o": 0, "op": o} for o in fu]
                        out.append(_scn(be, layer, steps, "fault", opts={"lazy": True}))
    for s in out:
        s["core"] = s["steps"][len(_setup())]["op"][0] in ("delete_bucket", "create", "update")
        s["bucket_level"] = s["core"]
    # an unread run-up: writes to other buckets are pending (sqlite, lazy commit) when the faulty call arrives
    for be in backends:
        for op, npos in fault_ops()[:6]:
            for k in range(npos):
                pre = [{"o": 0, "op": ["insert", 2, E(3, x=2)], "quiet": True}, {"o": 0, "op": ["insert", 3, E(3, x=3)], "quiet": True}]
                steps = _setup() + pre + [{"o": 0, "op": op, "fault": ["write", k, "wrap"]}] \
                    + [{"o": 0, "op": o} for o in follow_ups(op)[0]]
                out.append(dict(_scn(be, "storage", steps, "fault", opts={"lazy": True}), core=True, bucket_level=True))
    return out


def object_scenarios(rng, quick=True):
    """two storage / Datastore objects on one file, used alternately.  peewee: each object addresses the buckets it
    created itself (an object's key map is refreshed only by its own constructor / create_bucket / delete_bucket - see the
    finding in notes/agents/C04.md "Round 6"), the other object's buckets are only observed.  sqlite / memory: any
    object addresses any bucket."""
    out = []

    def own(k, b):
        return {"o": k, "op": b}
    for be in ("peewee", "sqlite", "memory"):
        for layer in sh.LAYERS:
            if be == "memory" and layer == "storage":
                continue
            x = E(6, x=9)
            for last in ([["delete_bucket", 1]], [["delete", 1, ["live", 0]]], [["update", 1, 5, None, None, None, 3]],
                         [["replace", 1, ["live", 1], x]], [["replace_last", 1, x]], [["insert_many", 1, [x, x]]],
                         [["delete_bucket", 1], ["create", 1, M3]], [["delete_bucket", 1], ["create", 4, M3], ["insert", 4, x]],
                         [["insert", 1, x], ["delete_bucket", 1], ["create", 1, M2], ["delete_bucket", 1]]):
                for order in (0, 1, 2):
                    # object 0 owns bucket 1, object 1 owns 2 and 3 (created and filled AFTER object 0 last looked)
                    a = [own(0, ["create", 1, M1]), own(0, ["insert", 1, E(0, x=1)]), own(0, ["insert", 1, E(1, x=2)])]
                    b = [own(1, ["create", 2, M2]), own(1, ["insert", 2, E(0, x=4)]), own(1, ["insert_many", 2, [E(1, x=5), E(2, x=1)]]),
                         own(1, ["create", 3, M3]), own(1, ["insert", 3, E(0, x=3)])]
                    steps = {0: a + b, 1: b[:3] + a + b[3:], 2: a[:1] + b + a[1:]}[order]
                    steps = steps + [own(0, o) for o in last] + [own(1, ["insert", 2, E(7, x=2)]), own(1, ["delete_bucket", 3]),
                                                                 own(0, ["create", 3, M1])]
                    out.append(_scn(be, layer, steps, "objects", objects=2, dump="fresh"))
    # seeded random alternation
    n = 60 if quick else 1500
    for i in range(n):
        be = ["peewee", "sqlite", "peewee", "memory"][i % 4]
        layer = "datastore" if be == "memory" else sh.LAYERS[(i // 4) % 2]
        owner = {}
        exists = set()
        steps = []
        pool = sorted(rng.sample(range(0, 9), 5))
        for _ in range(rng.randrange(6, 22)):
            k = rng.randrange(2)
            mine = [b for b in sorted(exists) if be != "peewee" or owner[b] == k]
            r = rng.random()
            if not mine or (r < 0.15 and len(exists) < 4):
                cand = [b for b in (1, 2, 3, 4) if b not in exists]
                if not cand:
                    continue
                b = rng.choice(cand)
                steps.append(own(k, ["create", b, sh.rnd_meta(rng)]))
                exists.add(b)
                owner[b] = k
                continue
            b = rng.choice(mine)
            if r < 0.45:
                steps.append(own(k, ["insert", b, sh.rnd_ev(rng, pool)]))
            elif r < 0.55:
                steps.append(own(k, ["insert_many", b, [sh.rnd_ev(rng, pool) for _ in range(rng.choice([1, 2, 3]))]]))
            elif r < 0.65:
                steps.append(own(k, ["delete", b, ["live", rng.randrange(4)]]))
            elif r < 0.72:
                steps.append(own(k, ["replace", b, ["live", rng.randrange(4)], sh.rnd_ev(rng, pool)]))
            elif r < 0.80:
                steps.append(own(k, ["update", b, rng.randrange(1, 6), None, None, rng.choice([None, 3]), None]))
            elif r < 0.92:
                steps.append(own(k, ["delete_bucket", b]))
                exists.discard(b)
            else:
                steps.append(own(k, ["get", b, -1, None, None]))
        out.append(_scn(be, layer, steps, "objects", objects=2, dump="fresh"))
    return out


def thread_scenarios(rng=None, quick=True, backends=("peewee", "memory")):
    """thread A suspended inside the n-th engine call of one operation while thread B runs whole operations on the
    same Datastore / storage object.  B never deletes the event A rewrites and never writes to a bucket A deletes
    (on the unchanged tree those schedules are races of their own: finding in notes/agents/C04.md "Round 6")."""
    out = []
    x, y = E(5, x=9), E(6, x=8)
    for be in backends:
        pauses = [["sql", 1], ["sql", 2], ["sql", 3]] if be == "peewee" else \
            [["item", 1], ["item", 2], ["item", 4], ["deepcopy", 1], ["deepcopy", 2]]
        a_ops = [["delete", 1, ["live", 2]], ["delete", 1, ["live", 0]], ["insert", 1, x], ["insert_many", 1, [x, y]],
                 ["get", 1, -1, None, None], ["get", 1, 1, None, None], ["count", 1, None, None], ["get_event", 1, ["live", 1]],
                 ["update", 1, 4, None, None, None, 2], ["create", 4, M2], ["delete_bucket", 3], ["replace", 1, ["live", 0], x],
                 # windowed reads (edges a quarter / half second off the event edges)
                 ["get", 1, -1, BASE + 500_000, None], ["count", 1, BASE + 250_000, BASE + 1_750_000],
                 ["get", 1, 2, None, BASE + 1_500_000]]
        if be == "memory":
            # MemoryStorage: A is a read or a single insert, B reads / inserts singly / works on other buckets / (A a read)
            # deletes or rewrites an event.  Its delete / replace walk a snapshot of (index, event) pairs and its bulk insert
            # is a loop of single inserts: two WRITERS of one bucket are a race of the unchanged tree (finding D)
            a_ops = [a for a in a_ops if a[0] in ("get", "count", "get_event", "insert")]
        for a in a_ops:
            tgt = [a[2]] if a[0] in ("delete", "replace") else None
            b_lists = [
                [["get", 1, -1, None, None], ["count", 1, None, None]],
                [["get", 2, -1, None, None], ["get", 1, 2, None, None]],
                [["get", 1, -1, BASE + 500_000, BASE + 2_500_000], ["count", 1, None, BASE + 1_500_000]],
                [["insert", 2, y]],
                [["insert", 1, y], ["get", 1, -1, None, None]],
                [["insert_many", 2, [y, x]], ["delete", 2, ["live", 0]]],
                [["update", 2, None, 5, None, None, None], ["insert", 2, y]],
            ]
            if a[0] == "delete":
                # the same delete arrives a second time (a client's retry) and another client inserts elsewhere
                b_lists += [[["delete", 1, a[2]], ["insert", 2, y]], [["delete", 1, a[2]], ["insert", 1, y], ["insert", 2, x]]]
            if a[0] in ("get", "count", "get_event"):
                b_lists += [[["delete", 1, ["live", 1]]], [["replace", 1, ["live", 0], y]]]
            if a[0] != "delete_bucket":
                b_lists += [[["delete_bucket", 3], ["create", 4 if a[0] != "create" else 3, M3]]]
            del tgt
            if be == "memory":
                b_lists = [bl for bl in b_lists if not any(o[0] == "insert_many" for o in bl)
                           and not (a[0] == "insert" and any(o[0] in ("delete", "replace") for o in bl))]
            for bl in b_lists:
                for p in pauses:
                    for layer in (sh.LAYERS if be == "peewee" else ["storage", "datastore"]):
                        steps = _setup() + [{"a": {"o": 0, "op": a}, "b": [{"o": 0, "op": o} for o in bl], "pause": p},
                                            {"o": 0, "op": ["get", 1, -1, None, None]}]
                        scn = _scn(be, layer, steps, "threads")
                        # always run: the retried delete with an insert elsewhere; reads beside reads
                        scn["core"] = (a[0] == "delete" and bl[0][0] == "delete") or \
                            (a[0] in ("get", "count") and all(o[0] in ("get", "count") for o in bl))
                        out.append(scn)
    return out


def pick(rng, scenarios, n_rest, must=lambda s: s.get("core")):
    """the scenarios that are always run + a seeded sample of the others"""
    keep = [s for s in scenarios if must(s)]
    rest = [s for s in scenarios if not must(s)]
    rng.shuffle(rest)
    return keep + rest[:n_rest]


# ---------------------------------------------------------------------------
# use from a check


C04_KINDS = ("other-bucket", "events", "read", "timeout")
C05_KINDS = ("created-not-empty", "map", "missing", "orphan-rows", "other-bucket", "unreadable", "timeout")
C03_KINDS = ("read", "events", "timeout", "unreadable")


def describe_scenario(scn, run=None):
    lines = []
    recs = run["steps"] if run and "steps" in run else [None] * len(scn["steps"])
    for step, rec in zip(scn["steps"], list(recs) + [None] * (len(scn["steps"]) - len(recs))):
        if "a" in step:
            s = (f"two threads: A = {step['a']['op']} suspended in its {step['pause'][1]}. call of {step['pause'][0]} | "
                 f"B = {[x['op'] for x in step['b']]}")
            if rec and not rec.get("skipped"):
                s += f" -> A {rec.get('a')}, B {rec.get('b')}" + ("" if rec.get("reached") else " (A not suspended)")
        else:
            s = (f"object {step['o']}: " if scn.get("objects", 1) > 1 else "") + str(step["op"])
            if step.get("fault"):
                s += f"  [engine fault {step['fault']}]"
            if rec and not rec.get("skipped"):
                s += f" -> {rec.get('res')}" + (f" fired at {rec.get('fired')}" if step.get("fault") else "")
        lines.append(s)
    return lines


def shrink(scn, kinds, want, rounds=10, deadline=None):
    """drop steps while a violation of the same kind persists (each candidate on a fresh store, in forked workers)"""
    import time
    cur = scn
    for _ in range(rounds):
        if deadline is not None and time.time() > deadline:
            break
        cands = []
        for i in range(len(cur["steps"])):
            c = dict(cur, steps=cur["steps"][:i] + cur["steps"][i + 1:])
            if any(s.get("fault") or "a" in s for s in c["steps"]) == any(s.get("fault") or "a" in s for s in cur["steps"]) \
                    or cur["cls"] == "objects":
                cands.append(c)
        if not cands:
            break
        runs = run_batch(cands)
        nxt = None
        for c, r in zip(cands, runs):
            v = verdict(c, r, kinds)
            if v is not None and v["kind"] == want:
                nxt = c
                break
        if nxt is None:
            break
        cur = nxt
    return cur


def check(ck, prop, kinds, scenarios, label):
    """run the scenarios, judge them, report failing inputs (at most three are shrunk) -> runs"""
    runs = run_batch(scenarios)
    reported = 0
    failing = []
    for scn, run in zip(scenarios, runs):
        be, cls = scn["backend"], scn["cls"]
        ck.count(f"{label}:{cls}:{be}:{scn['layer']}")
        ck.note_case([label, scn], nontrivial=True)
        for step, rec in zip(scn["steps"], run.get("steps", [])):
            if rec.get("skipped"):
                ck.count(f"{label}:step-skipped")
            elif "a" in step:
                ck.count(f"{label}:threads:{be}:" + ("A-suspended-inside-the-call" if rec["reached"] else "A-ran-to-its-end-first")
                         + (":B-blocked" if rec["blocked"] else ""))
            elif step.get("fault"):
                w, res = rec["wire"], rec["res"]
                ck.count(f"{label}:fault:{be}:{sh.OPNAME[w[0]]}:" + ("position-not-reached" if not rec.get("fired") else
                                                                    "call-returned" if res[0] == 0 else "call-raised"))
                # what a call that RAISED left behind on this tree (probe, not a verdict)
                if rec.get("fired") and res[0] != 0 and "views" in rec and w[0] in (0, 1, 2):
                    v = rec["views"][scn["universe"].index(w[1])]
                    ck.count(f"{label}:probe:{be}:{sh.OPNAME[w[0]]}-raised-at-{rec['fired'][0]}-{rec['fired'][1]}-{rec['fired'][2]}:bucket-then-"
                             + ("absent" if v == [] else "unreadable" if v[0] == "raised" else f"listed-with-{len(v[0][1])}-events"))
        v = verdict(scn, run, kinds)
        if v is not None:
            failing.append((scn, run, v))
    # the sentence of the property text first: a created bucket that is not empty, another bucket changed
    failing.sort(key=lambda t: PRIORITY.index(t[2]["kind"]))
    import time
    deadline = time.time() + 45           # shrinking is a courtesy to the reader of the replay: bounded
    for scn, run, v in failing:
        be, cls = scn["backend"], scn["cls"]
        small, srun, sv = scn, run, v
        if reported < 3 and "crash" not in run:
            cand = shrink(scn, kinds, v["kind"], deadline=deadline)
            if cand is not scn:
                r2 = run_batch([cand])[0]
                v2 = verdict(cand, r2, kinds)
                if v2 is not None and v2["kind"] == v["kind"]:
                    small, srun, sv = cand, r2, v2
        reported += 1
        ck.failing_input(f"{prop}:{be}:{cls}:{sv['kind']}",
                         f"{be}{'' if small['layer'] == 'storage' else ' (through Datastore/Bucket)'}"
                         f"{', two objects on one file used alternately' if cls == 'objects' else ''}: {sv['text']}",
                         {"backend": be, "class": cls, "scenario": small, "history": describe_scenario(small, srun),
                          "blamed_step": sv["step"], "run": srun, "trace": srun.get("trace"),
                          "how": "python -m harness.store_sched <this file>  (cd /verif, VERIF_REPO=<tree>): runs "
                                 "replay['scenario'] on a fresh store with harness.store_sched.run_scenario and judges it; "
                                 "symbolic ops / labels are those of harness/store_hist.py; a step with 'fault' = that engine "
                                 "call of the operation raises once and the caller carries on; a step with 'a'/'b' = two "
                                 "threads (harness/twothreads.py), A suspended inside its n-th call of the named callee "
                                 "while B runs"})
    return runs


def main(argv):
    r = json.load(open(argv[0]))
    r = r.get("replay", r)
    scn = r["scenario"]
    common.setup_impl_env()
    run = run_batch([scn])[0]
    for line in describe_scenario(scn, run):
        print("  ", line)
    vs = judge(scn, run)
    for v in vs:
        print(f"VIOLATION kind={v['kind']} step={v['step']}: {v['text']}")
    if "crash" in run:
        print(run.get("trace"))
    print("clean" if not vs else f"{len(vs)} violation(s)")
    return 1 if vs else 0


if __name__ == "__main__":
    sys.exit(main(sys.argv[1:]))
