"""C14 -- migrating a legacy (peewee v2) database to the SQLite store loses nothing.

Tie A: generated legacy databases are written with the real PeeweeStorage at its default path
under a private XDG_DATA_HOME, then the real SqliteStorage(testing) is constructed in a fresh
interpreter (harness/c14_child.py) so that its own migration code runs; the new store is read
back through the API and table by table and compared (a) with the extracted model
(Model/Migration.v: sqlite_open = trigger + migrate over the C02 store models) row for row, ids
and insertion order included, and (b) by the property oracle with the legacy store's own dump
(same metadata, same multiset of (instant, duration, data), no other bucket, legacy file bytes
unchanged).  A second, in-process stream ties detect_db_files / check_for_migration on generated
directory listings.

Round 2: (i) "session" cases run several constructions (SqliteStorage of either profile, at the default or a
custom path, PeeweeStorage opened beforehand) in ONE interpreter; every SqliteStorage step is judged like a
construction in a fresh interpreter (expand()).  (ii) Large legacy buckets (harness/c14_gen.py: thousands to
tens of thousands of events, ties / touching / overlapping events at every instant) for copies that read a
bucket in several pieces.  Every legacy store is written by a process of its own (fork in the build child).

Round 5: the legacy files are written through TODAY's PeeweeStorage, so every row and the file itself have the shape
today's code produces.  Store field "raw" = steps of harness/c14_gen.apply_raw, run with plain sqlite3 on the finished
file: the same content (checked by the harness's own reading of the legacy schema) in the other shapes the schema and
the legacy reader admit -- the rows copied into a new file with the RELEASED schema and sqlite defaults ("rebuild": no
dependence on what the PeeweeStorage under test does to a file it creates or opens), bucket datastr NULL / '' /
'{ }', other JSON texts of the same value (compact, raw UTF-8, key order, whitespace), `created` / event timestamps in
other ISO 8601 texts of the same instant, shifted / reversed row ids and bucket keys, event rows of no bucket, rollback
journal vs WAL, page sizes, auto_vacuum, header fields, free pages, extra table / column / index, missing index (older
schema).  Judged by the unchanged oracle (expected content = the dump taken through the API before the rewrite;
legacy bytes, and now also the modification time, unchanged)."""
import hashlib
import json
import os
import shutil
import subprocess
import sys
import tempfile
from concurrent.futures import ThreadPoolExecutor
from datetime import datetime, timedelta, timezone

from . import c14_gen, common, edgevals
from .c14_gen import data_dir, fingerprint, legacy_prints, listing  # noqa: F401 -- shared with the child
from .common import Check, sx
from .evutil import BASE

RULE = ("large legacy buckets first (quick: one of 10-22 k events, one of 5-7.5 k, one of 1.1-2.4 k; thorough: 0.5 k .. "
        "70 k around 1000/4096/5000/8192/10000/16384/32768/50000 and random), dense everywhere -- 1-3 events per "
        "instant, durations that touch / overlap by 1 us / stop 1 us short of the next instant, zero-length and "
        "bucket-spanning events, rows written ascending / descending / shuffled / in blocks -- and a wide-span bucket "
        "(events of hours to weeks across midnight, month and year ends), so that a copy that reads a bucket in "
        "several pieces (by count, instant or day) cuts beside ties and overlaps wherever it cuts; then the "
        "deterministic corpus (0/1/100/101/250-event buckets across peewee's 100-row chunking, ties and "
        "zero-length events, unicode / dotted / empty bucket ids, name None/''/given, data None/{}/nested, id holes "
        "from deletes, deleted and re-created buckets, both profiles, other-profile-only, both profiles present, no "
        "legacy, pre-existing sqlite file, custom path, stray and dotless names) then seeded random legacy stores "
        "(0-4 buckets, 0-300 events); every case = real PeeweeStorage writes the legacy file, real "
        "SqliteStorage(testing) constructed in a fresh interpreter, new store compared row by row with the model and "
        "bucket by bucket with the legacy dump, SHA-256 of every legacy file before/after; non-trivial = the migration "
        "ran and copied at least one event.  Sessions: several constructions in ONE interpreter (SqliteStorage of "
        "one profile then the other, in both orders, kept open or closed, after a custom-path store, after a "
        "PeeweeStorage left open / closed / unread on the same, the other or an unrelated file; 22 fixed + random "
        "ones): every SqliteStorage step is judged like a construction in a fresh interpreter (model and oracle, "
        "with the directory listing and legacy fingerprints taken right before / after the step), and a store left "
        "open is read again at the end of the process.  Every legacy store is written by a process of its own.  "
        "Round 5: legacy files in shapes today's writer never produces -- after the build the file is rewritten with "
        "plain sqlite3 into another representation of the SAME content (harness's own reading of the schema checks "
        "that): rows copied into a new file with the released schema and sqlite defaults, bucket datastr NULL / '' / "
        "'{ }', other JSON texts of the same values, created / timestamp texts of the same instants ('T' or space, Z, "
        "offsets, explicit fraction), shifted / reversed ids and keys, orphan event rows, rollback journal / WAL, page "
        "sizes 512..65536, auto_vacuum, header fields, free pages, extra table / column / index, missing index; 31 "
        "fixed cases + on 45 % of the random stores, 40 % of the session stores, half of the large buckets; expected "
        "content stays the API dump taken before the rewrite, legacy bytes and mtime must not change.  "
        "Round 5b: legacy bucket data and event data with text that is not well-formed Unicode or sits at the edge of a TEXT "
        "cell (lone high / lone low surrogate = a title cut in the middle of an emoji, astral code points, NUL, U+2028; as values "
        "and keys; in the fixed corpus, the random stores and the large buckets); when a construction RAISES, the next start "
        "(fresh interpreter, same directory) is observed too: inside the precondition it must not present a store that lacks "
        "legacy content as complete.  "
        "Second stream: detect_db_files / check_for_migration on generated listings.")

ERR = {"KeyError": 4, "ValueError": 5, "IndexError": 6, "AttributeError": 7, "TypeError": 8, "IntegrityError": 9}
SEC = 1_000_000
PY = sys.executable
REPLAY_HINT = ("cd /verif && PYTHONPATH=$VERIF_REPO:/verif VERIF_REPO=${VERIF_REPO:-/repo} /venv/bin/python -m harness.c14 replay "
               "<this file>   (re-creates the legacy store of 'case', constructs SqliteStorage, prints the violations)")


# ---------------------------------------------------------------------------
# children


def child(mode, req, tmp):
    fd, path = tempfile.mkstemp(prefix="req-", suffix=".json", dir=tmp)
    with os.fdopen(fd, "w") as f:
        json.dump(req, f)
    env = dict(os.environ)
    env["PYTHONPATH"] = common.REPO + os.pathsep + common.VERIF
    env["VERIF_REPO"] = common.REPO
    p = subprocess.run([PY, "-m", "harness.c14_child", mode, path], cwd=common.REPO, env=env,
                       stdout=subprocess.PIPE, stderr=subprocess.PIPE, text=True, timeout=600)
    os.unlink(path)
    if p.returncode != 0:
        raise RuntimeError(f"c14_child {mode} failed: {p.stderr[-800:]}")
    return json.loads(p.stdout)


def older_schema(store):
    """a legacy file of an older schema, which PeeweeStorage.__init__ upgrades in place whenever it opens it"""
    return bool(store.get("old_schema")) or c14_gen.raw_older_schema(store.get("raw"))


def pw_file(testing):
    return "peewee-sqlite" + ("-testing" if testing else "") + ".v2.db"


def sq_file(testing):
    return "sqlite" + ("-testing" if testing else "") + ".v1.db"


# ---------------------------------------------------------------------------
# generators

IDS = ["b", "aw-watcher-window_host", "bé中", "b.v2.db", "😀-bucket", " spaced id ", "B", "", "peewee-sqlite",
       "x" * 150, "a'b\"c", "ä́"]
STRS = ["t", "currentwindow", "c", "aw-watcher-afk", "h", "höst", "", "値", "x y"]
NAMES = [None, None, "", "nm", "Ünï näme"]
BDATA = [None, {}, {"k": "v"}, {"k": {"n": [1, 2, {"z": None}]}, "ü": "é"}, {"a": 1.5, "b": True}]
EDATA = [{}, {"app": "a"}, {"app": "b", "title": "x"}, {"n": 1}, {"n": 1.0}, {"n": True}, {"u": "ünï中😀"},
         {"nested": {"l": [1, [2, 3], {"k": None}]}}, {"title": "q'uote\"s \\ and\nnewline"}, {"big": "y" * 300}]
# round 5 (fix6-data): text that is not well-formed Unicode or sits at the edge of what a TEXT cell takes - a window title cut
# in the middle of an emoji holds a LONE surrogate (high alone / low alone; never a high directly followed by a low: that
# pair is outside the domain, notes/agents/JSON.md), astral code points, NUL, U+2028 - as values and as keys, in bucket data and
# in event data.  Python, ASCII-escaped JSON and the legacy store carry them; established on the unchanged tree: the legacy
# store returns them `==` and the migration copies them losslessly (notes/agents/C14.md "Round 5 (fix6-data)").
EDGE_EDATA = [dict(d) for d in edgevals.EDGE_DATA]
EDGE_BDATA = [{"title": edgevals.EDGE_STRINGS[0]}, {edgevals.EDGE_STRINGS[1]: [edgevals.EDGE_STRINGS[2], {"k": edgevals.EDGE_STRINGS[9]}]},
              {"sep": edgevals.EDGE_STRINGS[11], "astral": edgevals.EDGE_STRINGS[8]}]
BDATA += EDGE_BDATA[:2]
EDATA += EDGE_EDATA[:3] + EDGE_EDATA[5:8]
CREATED = ["2020-01-01T00:00:00+00:00", "2020-01-01T05:00:00+02:00", "2021-06-30T23:59:59.123456+00:00",
           "2019-12-31T19:00:00-05:00", "2020-01-01T00:00:00", "2020-03-04T05:06:07Z", "2020-03-04 05:06:07+00:00",
           "2020-03-04T05:06:07.5+00:00"]
DURS = [0, 0, 1000, 500_000, SEC, SEC, 2 * SEC, 1_500_000, 1, 1001, 25 * 3600 * SEC, 123_456]
TZS = [0, 0, 0, 120, -300, 330]


def ev(rng, pool):
    return [BASE + rng.choice(pool) * 1000, rng.choice(DURS), rng.choice(EDATA), rng.choice(TZS)]


def events(rng, n, pool=None):
    pool = pool or [0, 1000, 2000, 2000, 3000, 5500, 86_400_000, 7, 999]
    return [ev(rng, pool) for _ in range(n)]


def create(b, ty="t", cl="c", ho="h", cr=CREATED[0], na=None, da=None):
    return ["create", b, ty, cl, ho, cr, na, da]


def gen_store(rng, big=False):
    """Symbolic ops of one legacy store: 0-4 buckets, 0-300 events, some edits."""
    nb = rng.choice([0, 1, 1, 2, 2, 3, 4])
    ids = rng.sample(IDS, nb)
    ops = []
    for b in ids:
        ops.append(create(b, rng.choice(STRS), rng.choice(STRS), rng.choice(STRS), rng.choice(CREATED),
                          rng.choice(NAMES), rng.choice(BDATA)))
    per = []
    for b in ids:
        k = rng.random()
        if k < 0.12:
            continue
        mine = []
        n = rng.choice([1, 2, 3, 5, 8, 13, 40]) if not big else rng.choice([99, 100, 101, 150, 200, 201, 300])
        pool = sorted(rng.sample(range(0, 40), rng.choice([3, 6, 12]))) + [86_400_000]
        left = n
        while left > 0:
            m = min(left, rng.choice([1, 1, 2, 7, 120, 300]))
            if m == 1 and rng.random() < 0.5:
                mine.append(["insert", b, ev(rng, pool)])
            else:
                mine.append(["insert_many", b, events(rng, m, pool)])
            left -= m
            r = rng.random()
            if r < 0.15:
                mine.append(["delete", b, rng.randrange(0, 50)])
            elif r < 0.25:
                mine.append(["replace", b, rng.randrange(0, 50), ev(rng, pool)])
        per.append(mine)
    if rng.random() < 0.5:
        # the rows of a bucket lie between other buckets' rows (each bucket's own ops stay in order)
        while any(per):
            q = rng.choice([x for x in per if x])
            ops.append(q.pop(0))
    else:
        ops += [o for x in per for o in x]
    if ids and rng.random() < 0.25:
        b = rng.choice(ids)
        ops.append(["update", b, rng.choice([None, "t2"]), rng.choice([None, "c2"]), None,
                    rng.choice([None, "renamed"]), rng.choice([None, {}, {"upd": 1}])])
    if ids and rng.random() < 0.15:
        b = rng.choice(ids)
        ops.append(["delete_bucket", b])
        if rng.random() < 0.6:
            ops.append(create(b, "again", "c", "h", CREATED[1], None, {"re": "created"}))
            ops.append(["insert_many", b, events(rng, rng.choice([0, 2, 5]))])
    rng.shuffle(ids)
    return ops


def mk_case(kind, new_testing, stores, custom=None, pre_sqlite=False, stray=(), session=None):
    c = {"kind": kind, "new_testing": new_testing, "stores": stores, "custom": custom,
         "pre_sqlite": pre_sqlite, "stray": list(stray)}
    if session is not None:
        c["session"] = session
    return c


# -- round 5: the same legacy content in shapes the schema allows and today's writer never produces ------------
# (store field "raw": steps of harness/c14_gen.apply_raw, run with plain sqlite3 on the finished legacy file)

PAGE_SIZES = [512, 1024, 2048, 8192, 16384, 65536]


def random_raw(rng, session=False, order_keeping=False, p=1.0):
    """0-3 rewrite steps (at most one per kind, at most one timestamp form; the journal mode last)"""
    # the file as the released code would have left it (rows copied into a new file with the released schema)
    first = [["rebuild"]] if rng.random() < 0.35 else []
    if rng.random() >= p:
        return first
    G = c14_gen
    menu = [lambda: ["bucket_empty_data", rng.choice(sorted(G.EMPTY_FORMS))],
            lambda: ["bucket_empty_data", "null"],
            lambda: ["bucket_json", rng.choice(G.JSON_STYLES)],
            lambda: ["event_json", rng.choice(G.JSON_STYLES), rng.choice([1, 1, 2, 3, 7]), rng.randrange(7)],
            lambda: ["created"] + [rng.choice(G.CREATED_FORMS) for _ in range(rng.choice([1, 2, 3]))],
            lambda: rng.choice([["ts_T"], ["ts_frac6"]] if order_keeping else
                               [["ts_T"], ["ts_frac6"], ["ts_mixed_T", rng.choice([2, 3])], ["ts_Z", rng.choice([1, 2])],
                                ["ts_offset", rng.choice([1, 2, 5])]]),
            lambda: ["id_shift", rng.choice([7, 1000, 1 << 40])],
            lambda: ["key_shift", rng.choice([10, 1000])],
            lambda: ["journal", "delete" if session else rng.choice(["delete", "wal", "wal"])],
            lambda: ["page_size", rng.choice(PAGE_SIZES)],
            lambda: ["auto_vacuum", rng.choice([1, 2])],
            lambda: rng.choice([["user_version", rng.choice([1, 2, 7])], ["application_id", 0x41574442], ["schema_cookie", rng.choice([1, 9])]]),
            lambda: rng.choice([["extra_table"], ["extra_column"], ["churn", rng.choice([50, 400])], ["orphans", rng.choice([1, 5])]])]
    if not order_keeping:
        menu += [lambda: ["id_reverse"], lambda: ["extra_index"]]
    steps = []
    for f in rng.sample(menu, rng.choice([1, 1, 2, 3])):
        st = f()
        if all(st[0] != x[0] and not (st[0].startswith("ts_") and x[0].startswith("ts_"))
               and not ({st[0], x[0]} == {"id_shift", "id_reverse"}) for x in steps):
            steps.append(st)
    return first + sorted(steps, key=lambda x: x[0] == "journal")


def raw_base_store(t, raw):
    """buckets with and without data / name / events, unicode, ties, equal rows, an id hole, rows of one bucket between
    another's"""
    e = lambda i, d, x, tz=0: [BASE + i * SEC // 2, d, x, tz]  # noqa: E731
    ops = [create("b", na=None, da=None), create("bé中", "値", "c", "höst", CREATED[1], "", {}),
           create("c", "ty", "cl", "", CREATED[2], "nm", BDATA[3]), create("no-events", cr=CREATED[4], da=BDATA[4]),
           ["insert_many", "b", [e(0, 0, {}), e(1, SEC, {"u": "ünï中😀"}, 120), e(2, 1_500_000, {"app": "b", "title": "x"}),
                                 e(3, 2 * SEC, {"n": 1.0}, -300)]],
           ["insert_many", "c", [e(0, 0, {"i": 1}), e(0, 0, {"i": 1}), e(2, SEC, {"z": 1, "a": 2})]],
           ["insert_many", "b", [e(4, 1, {"n": True}), e(5, 10, EDATA[8]), e(6, 90_000 * SEC + 250_000, EDATA[7], 330)]],
           ["insert", "bé中", [BASE + 5000, 3 * SEC, {"app": "a"}, 0]], ["insert", "b", [BASE + 1000, SEC, {"b": 1, "a": 2}, 0]],
           ["delete", "b", 2], ["insert", "c", e(9, SEC // 4, {"title": "é"})]]
    return {"testing": t, "ops": ops, "raw": raw}


def raw_corpus(rng):
    G = c14_gen
    variants = [("raw-released-file", [["rebuild"]]), ("raw-bucket-data-null", [["bucket_empty_data", "null"]]), ("raw-bucket-data-empty", [["bucket_empty_data", "empty"]])]
    variants += [("raw-json-" + st, [["bucket_json", st], ["event_json", st, 1 + k % 2, k]]
                  + ([["bucket_empty_data", st]] if st in G.EMPTY_FORMS else [])) for k, st in enumerate(G.JSON_STYLES)]
    variants += [("raw-timestamp-T", [["ts_T"]]), ("raw-timestamp-fraction", [["ts_frac6"]]), ("raw-timestamp-mixed-T", [["ts_mixed_T", 2]]),
                 ("raw-timestamp-Z", [["ts_Z", 1]]), ("raw-timestamp-some-offsets", [["ts_offset", 2]]),
                 ("raw-ids-shifted", [["id_shift", 1000], ["key_shift", 40]]), ("raw-ids-reversed", [["id_reverse"]]),
                 ("raw-journal-delete", [["journal", "delete"]]), ("raw-journal-wal", [["journal", "wal"]]),
                 ("raw-page-size-512", [["page_size", 512], ["auto_vacuum", 1]]), ("raw-page-size-1024", [["page_size", 1024]]),
                 ("raw-page-size-65536", [["auto_vacuum", 2], ["page_size", 65536]]),
                 ("raw-header-fields", [["user_version", 7], ["application_id", 0x41574442], ["schema_cookie", 5], ["churn", 300],
                                        ["id_shift", 1 << 40]]),
                 ("raw-extra-table-column", [["extra_table"], ["extra_column"]]), ("raw-extra-index", [["extra_index"]]),
                 ("raw-orphan-events", [["orphans", 4]]),
                 ("raw-all", [["rebuild"], ["bucket_empty_data", "null"], ["bucket_json", "compact"], ["event_json", "utf8", 2, 1],
                              ["created"] + G.CREATED_FORMS[2:6], ["ts_T"], ["id_shift", 99], ["key_shift", 5], ["extra_column"],
                              ["extra_table"], ["user_version", 2], ["journal", "wal"], ["journal", "delete"], ["page_size", 1024]]),
                 ("raw-all-wal", [["bucket_empty_data", "empty"], ["event_json", "reversed", 1, 0], ["created", "Z", "space-utc"],
                                  ["ts_offset", 1], ["churn", 60], ["page_size", 8192], ["journal", "wal"]])]
    # an older schema: peewee's own indexes are missing; PeeweeStorage.__init__ (create_table(safe=True)) adds them
    variants += [("old-schema-no-index", [["drop_index", n] for n in ("eventmodel_timestamp", "eventmodel_bucket_id", "bucketmodel_id")])]
    out = []
    for k, (kind, raw) in enumerate(variants):
        t = k % 2 == 0
        out.append(mk_case(kind, t, [raw_base_store(t, raw)]))
    # `created` of every bucket in another textual form of the same instant
    for t in (True, False):
        forms = G.CREATED_FORMS if t else list(reversed(G.CREATED_FORMS))
        ops = [create(f"b{i}", cr=CREATED[i % len(CREATED)], da=BDATA[i % len(BDATA)]) for i in range(len(forms) + 2)]
        ops.append(["insert_many", "b0", events(rng, 3)])
        out.append(mk_case("raw-created-forms", t, [{"testing": t, "ops": ops, "raw": [["created"] + forms]}]))
    # the other profile's legacy file in another shape (must stay untouched as well), ours as written
    out.append(mk_case("raw-other-profile", True, [raw_base_store(False, [["bucket_empty_data", "null"], ["journal", "wal"]]),
                                                   {"testing": True, "ops": [create("mine"), ["insert_many", "mine", events(rng, 2)]]}]))
    return out


def store_raw(case, t):
    return [st for s in case["stores"] if s["testing"] == t for st in (s.get("raw") or [])]


# -- large buckets (the copy may read a bucket in several pieces: by count, by instant, by day ..) ----------


def gen_op(b, n, seed, kind="dense", step_ms=1000, off_ms=0, order="asc"):
    return ["insert_gen", b, {"kind": kind, "n": n, "seed": seed, "step_ms": step_ms, "off_ms": off_ms, "order": order}]


def case_events(case):
    return sum(c14_gen.spec_events(o) for s in case["stores"] for o in s["ops"])


def big_store(rng, n, kind="dense"):
    """one large bucket, dense everywhere (c14_gen), written in 1-3 pieces in some row order, between 0-2 small
    buckets; now and then one edit so that the row ids have a hole"""
    ids = rng.sample(IDS[:7], 3)
    b = ids[0]
    step = rng.choice([1000, 1000, 1000, 1, 250, 60_000]) if kind == "dense" else rng.choice([7, 21, 24]) * 3_600_000
    ops = []
    before = rng.choice([0, 1])
    after = rng.choice([0, 1])
    if before:
        ops.append(create(ids[1], na="small-before", da={"k": "v"}))
        ops.append(["insert_many", ids[1], events(rng, 3)])
    ops.append(create(b, rng.choice(STRS), rng.choice(STRS), rng.choice(STRS), rng.choice(CREATED),
                      rng.choice(NAMES), rng.choice(BDATA)))
    if after:
        ops.append(create(ids[2], na="small-after"))
    pieces = rng.choice([1, 1, 2, 3])
    left = n
    for k in range(pieces):
        m = left if k == pieces - 1 else max(1, rng.randrange(1, max(2, left // 2)))
        # later pieces lie inside the range of the first one, on a coarser grid: more ties and overlaps
        ops.append(gen_op(b, m, rng.randrange(1 << 30), kind, step * (1 if k == 0 else 3), 0 if k == 0 else step * 7,
                          rng.choice(["asc", "desc", "shuffle", "blocks"])))
        left -= m
        if left <= 0:
            break
    if after:
        ops.append(["insert_many", ids[2], events(rng, 2)])
    if n <= 8000 and rng.random() < 0.5:
        ops.append(["delete", b, rng.randrange(0, n)])
        ops.append(["replace", b, rng.randrange(0, n), ev(rng, [0, 1000, 5500])])
    return ops


def big_cases(rng, tier):
    if tier == "quick":
        sizes = [rng.randrange(10_001, 22_000), rng.randrange(5_001, 7_500), rng.randrange(1_100, 2_400)]
    else:
        sizes = [70_001, 50_001, 32_769, 20_001, 16_385, 10_001, 10_000, 8_193, 5_001, 5_000, 4_999, 4_097, 2_500,
                 1_001, 1_000, 999, 501] + [rng.randrange(1_000, 40_000) for _ in range(7)]
    out = []
    for n in sizes:
        t = rng.random() < 0.5
        out.append(mk_case("big-dense", t, [{"testing": t, "ops": big_store(rng, n), "raw": random_raw(rng, order_keeping=True, p=0.5)}]))
    wide = [rng.randrange(300, 900)] if tier == "quick" else [400, 1200, 3000]
    for n in wide:
        t = rng.random() < 0.5
        out.append(mk_case("wide-span", t, [{"testing": t, "ops": big_store(rng, n, "wide")}]))
    return out


# -- several constructions in one process ---------------------------------------------------------------


def sq_step(t, custom=None, close=False, name=None, via=None):
    d = {"op": "sqlite", "testing": t, "custom": custom, "close": close}
    if name:
        d["name"] = name
    if via:
        d["via"] = via
    return d


def pw_step(t=None, file=None, touch=True, close=False):
    return {"op": "peewee", "testing": t, "file": file, "touch": touch, "close": close}


def use_step(kind="sqlite", testing=True, file=None, calls=(), close=False, via=None, name=None, target=None):
    """ordinary use of a store earlier in the process (harness/c14_child.py, step "use")"""
    return {"op": "use", "kind": kind, "testing": testing, "file": file, "calls": list(calls), "close": close,
            "via": via, "name": name, "target": target}


def legacy_ids(stores, t):
    out = []
    for s in stores:
        if s["testing"] == t:
            for o in s["ops"]:
                if o[0] == "create" and o[1] not in out:
                    out.append(o[1])
    return out


def use_calls(rng, ids, bulk=True, single=True, reads=True, edits=False, drop=None, shift=None, n=None):
    """Calls of an ordinary program on a store that holds buckets of the SAME ids as the legacy store, created in
    another order (and, with `shift`, behind a bucket of its own), so that every id has another row number
    there than it will get in the migrated store; other metadata, other events."""
    ids = list(ids) or ["b"]
    order = list(reversed(ids))
    if len(order) > 2 and rng.random() < 0.5:
        rng.shuffle(order)
    if shift is None:
        shift = len(ids) == 1 or order == ids or rng.random() < 0.4
    if shift:
        order = ["used-only"] + order
    calls = [create(b, "used-ty", "used-cl", "used-ho", CREATED[3], "used", {"used": True}) for b in order]
    for b in order:
        k = n if n is not None else rng.choice([1, 2, 5])
        if bulk:
            calls.append(["insert_many", b, events(rng, k)])
        if single:
            calls.append(["insert", b, ev(rng, [0, 1000, 7000])])
        if reads:
            calls.append(rng.choice([["get_events", b, -1], ["get_events", b, 1], ["get_eventcount", b], ["get_metadata", b],
                                     ["get_event", b, 0], ["buckets"]]))
        if edits:
            calls.append(["replace", b, rng.randrange(0, 9), ev(rng, [0, 1000])])
            calls.append(["delete", b, rng.randrange(0, 9)])
    if drop is not None:
        b = order[drop % len(order)]
        calls.append(["delete_bucket", b])
        if rng.random() < 0.5:
            calls.append(create(b, "used-again"))
            calls.append(["insert_many", b, events(rng, 2)])
    if reads:            # the last thing the program did with that store: it read every bucket
        calls.append(["buckets"])
        calls += [["get_events", b, -1] for b in order]
    return calls


def named_store(rng, t, n=5):
    """a legacy store whose bucket ids are those a real installation has, three buckets, a handful of events each"""
    ids = ["aw-watcher-window_host", "aw-watcher-afk_host", "b"]
    ops = [create(ids[0], "currentwindow", "aw-watcher-window", "host", CREATED[0], "window", {"k": [1, 2]}),
           create(ids[1], "afkstatus", "aw-watcher-afk", "host", CREATED[2]), create(ids[2], da={"k": "v"})]
    for j, b in enumerate(ids):
        ops.append(["insert_many", b, [[BASE + (i * (j + 1)) * SEC, (j + 1) * SEC, {"bucket": j, "i": i}, 0] for i in range(n + j)]])
    return {"testing": t, "ops": ops}


def use_corpus(rng):
    """sessions in which the process has USED a store before the migrating construction"""
    out = []
    for t in (True, False):
        mine = [named_store(rng, t)]
        ids = legacy_ids(mine, t)
        other = [{"testing": not t, "ops": [create("b", "other-ty"), create("aw-watcher-afk_host", "other-afk"),
                                            ["insert_many", "b", events(rng, 3)],
                                            ["insert_many", "aw-watcher-afk_host", events(rng, 2)]]}]
        add = lambda kind, stores, session: out.append(mk_case(kind, t, stores, session=session))  # noqa: E731
        for close in (False, True):
            add("session-used-custom-sqlite", mine, [use_step("sqlite", t, "export.db", use_calls(rng, ids, shift=False), close=close), sq_step(t)])
        add("session-used-custom-sqlite-via-datastore", mine,
            [use_step("sqlite", not t, "export.db", use_calls(rng, ids), via="datastore"), sq_step(t, via="datastore")])
        add("session-used-custom-sqlite-bulk-only", mine, [use_step("sqlite", t, "export.db", use_calls(rng, ids, single=False, reads=False)), sq_step(t)])
        add("session-used-custom-sqlite-single-only", mine, [use_step("sqlite", t, "export.db", use_calls(rng, ids, bulk=False, reads=False)), sq_step(t)])
        add("session-used-custom-sqlite-reads-edits", mine, [use_step("sqlite", t, "export.db", use_calls(rng, ids, edits=True)), sq_step(t), sq_step(not t)])
        for drop in (0, 1):
            add("session-used-custom-sqlite-bucket-deleted", mine,
                [use_step("sqlite", t, "export.db", use_calls(rng, ids, drop=drop, shift=bool(drop))), sq_step(t)])
        add("session-used-two-files", mine + other,
            [use_step("sqlite", t, "export.db", use_calls(rng, ids, shift=True), name="x"),
             use_step("sqlite", t, "export2.db", use_calls(rng, ids, shift=False)), sq_step(not t),
             use_step(target="x", calls=[["insert_many", b, events(rng, 2)] for b in ids]), sq_step(t)])
        # the other profile's default store is opened (its own first creation: judged), used, then ours is created
        add("session-used-other-default", mine + other,
            [sq_step(not t, name="o"), use_step(target="o", calls=use_calls(rng, ids) + [["delete_bucket", "b"]]), sq_step(t)])
        add("session-used-other-default-no-legacy", mine,
            [sq_step(not t, name="o"), use_step(target="o", calls=use_calls(rng, ids), via="datastore"), sq_step(t)])
        add("session-used-memory", mine, [use_step("memory", t, None, use_calls(rng, ids)), sq_step(t)])
        add("session-used-memory-via-datastore", mine, [use_step("memory", t, None, use_calls(rng, ids), via="datastore"), sq_step(t)])
        add("session-used-peewee-elsewhere", mine, [use_step("peewee", t, "elsewhere-peewee.db", use_calls(rng, ids)), sq_step(t)])
        add("session-used-peewee-elsewhere-closed", mine + other,
            [use_step("peewee", not t, "elsewhere-peewee.db", use_calls(rng, ids, edits=True), close=True), sq_step(t), sq_step(not t)])
        add("session-used-after-custom-construction", mine,
            [sq_step(t, custom="custom.db", name="c"), use_step(target="c", calls=use_calls(rng, ids)), sq_step(t)])
    # a bulk insert larger than any plausible cache / chunk constant into the used store
    t = rng.random() < 0.5
    mine = [named_store(rng, t, 40)]
    ids = legacy_ids(mine, t)
    out.append(mk_case("session-used-custom-sqlite-large", t, mine,
                       session=[use_step("sqlite", t, "export.db",
                                         use_calls(rng, ids)[:4] + [gen_op(ids[0], 10_001, 7), gen_op(ids[1], 2_000, 8)]), sq_step(t)]))
    return out


def random_use(rng, stores, p, names):
    """one use step in front of the construction of profile p in a random session"""
    ids = legacy_ids(stores, p) or legacy_ids(stores, not p)
    calls = use_calls(rng, ids, bulk=rng.random() < 0.85, single=rng.random() < 0.6, reads=rng.random() < 0.6,
                      edits=rng.random() < 0.25, drop=rng.choice([None, None, None, 0, 1]))
    via = rng.choice([None, None, "datastore"])
    if names and rng.random() < 0.3:
        return use_step(target=rng.choice(names), calls=calls, via=via)
    kind = rng.choice(["sqlite", "sqlite", "sqlite", "memory", "peewee"])
    return use_step(kind, rng.random() < 0.5, {"sqlite": f"used-{rng.randrange(2)}.db", "peewee": "elsewhere-peewee.db", "memory": None}[kind],
                    calls, close=rng.random() < 0.3, via=via)


def two_stores(rng, t, n=4):
    """legacy stores of both profiles that share one bucket id (different metadata and events) and each hold
    one bucket of their own"""
    return [{"testing": t, "ops": [create("shared", "ty-mine", na="mine", da={"p": str(t)}), create("only-" + str(t)),
                                   ["insert_many", "shared", events(rng, n)], ["insert_many", "only-" + str(t), events(rng, 2)]]},
            {"testing": not t, "ops": [create("shared", "ty-other", ho="devbox", cr=CREATED[2]), create("only-" + str(not t), da={"o": 1}),
                                       ["insert_many", "shared", events(rng, n + 3)],
                                       ["insert", "only-" + str(not t), ev(rng, [0, 1000])]]}]


def session_corpus(rng):
    out = []
    for t in (True, False):
        mine = [{"testing": t, "ops": [create("b", da={"k": "v"}), ["insert_many", "b", events(rng, 4)]]}]
        other = [{"testing": not t, "ops": [create("other"), ["insert_many", "other", events(rng, 3)]]}]
        for close in (False, True):
            out.append(mk_case("session-both-profiles", not t, two_stores(rng, t), session=[sq_step(t, close=close), sq_step(not t)]))
        out.append(mk_case("session-custom-then-both", not t, two_stores(rng, t),
                           session=[sq_step(t, custom="custom.db"), sq_step(t), sq_step(not t, custom="custom2.db"), sq_step(not t)]))
        out.append(mk_case("session-other-only-first", not t, other, session=[sq_step(t), sq_step(not t)]))
        out.append(mk_case("session-peewee-other-open", t, mine + other, session=[pw_step(not t), sq_step(t)]))
        out.append(mk_case("session-peewee-other-absent", t, mine, session=[pw_step(not t), sq_step(t), sq_step(not t)]))
        out.append(mk_case("session-peewee-same-open", t, mine, session=[pw_step(t), sq_step(t)]))
        out.append(mk_case("session-peewee-elsewhere-open", t, mine, session=[pw_step(t, file="elsewhere-peewee.db"), sq_step(t)]))
        out.append(mk_case("session-peewee-elsewhere-untouched", t, mine + other,
                           session=[pw_step(not t, file="elsewhere-peewee.db", touch=False), sq_step(t), sq_step(not t)]))
        out.append(mk_case("session-peewee-other-closed", t, mine + other, session=[pw_step(not t, close=True), sq_step(t)]))
        out.append(mk_case("session-peewee-between", not t, two_stores(rng, t),
                           session=[sq_step(t), pw_step(t, close=True), sq_step(not t)]))
    return out


def session_cases(rng, n, use=False):
    out = []
    for _ in range(n):
        t = rng.random() < 0.5
        r = rng.random()
        if r < 0.6:
            stores = [{"testing": t, "ops": gen_store(rng)}, {"testing": not t, "ops": gen_store(rng)}]
        elif r < 0.8:
            stores = [{"testing": t, "ops": gen_store(rng)}]
        else:
            stores = [{"testing": not t, "ops": gen_store(rng)}]
        for st in stores:
            st["raw"] = random_raw(rng, session=True, p=0.4)
        steps = []
        names = []
        profiles = [t, not t] if rng.random() < 0.75 else [t]
        for p in profiles:
            k = rng.random()
            if k < 0.45:
                steps.append(pw_step(rng.choice([p, not p]), file=rng.choice([None, None, "elsewhere-peewee.db"]),
                                     touch=rng.random() < 0.7, close=rng.random() < 0.3))
            if rng.random() < 0.2:
                close = rng.random() < 0.5
                steps.append(sq_step(p, custom=f"custom-{len(steps)}.db", close=close, name=None if close else f"s{len(steps)}"))
                if not close:
                    names.append(steps[-1]["name"])
            if use and rng.random() < 0.7:
                steps.append(random_use(rng, stores, p, names))
            close = rng.random() < 0.4
            steps.append(sq_step(p, close=close, name=None if close else f"s{len(steps)}", via=rng.choice([None, None, "datastore"])))
            if not close:
                names.append(steps[-1]["name"])
        out.append(mk_case("session-random", steps[-1]["testing"], stores, session=steps))
    return out


def corpus(rng):
    out = []
    e3 = [[BASE, SEC, {"i": 0}, 0], [BASE, 0, {"i": 1}, 0], [BASE + SEC, 0, {"i": 0}, 120]]
    for t in (True, False):
        out.append(mk_case("empty-legacy", t, [{"testing": t, "ops": []}]))
        out.append(mk_case("no-legacy", t, []))
        out.append(mk_case("one-empty-bucket", t, [{"testing": t, "ops": [create("b", na="nm", da={"k": "v"})]}]))
        out.append(mk_case("w10", t, [{"testing": t, "ops": [create("b", na="nm", da={"k": "v"}),
                                                              ["insert_many", "b", [[BASE + i * SEC, SEC, {"i": i}, 0] for i in range(5)]]]}]))
        out.append(mk_case("ties-zero-length", t, [{"testing": t, "ops": [create("bé中", "値", "c", "höst", CREATED[1], "", {}),
                                                                           ["insert_many", "bé中", e3 + e3], ["insert", "bé中", e3[1]]]}]))
        for n in (99, 100, 101, 250):
            out.append(mk_case(f"chunk-{n}", t, [{"testing": t, "ops": [create("b"), create("b2", da=BDATA[3]),
                                                                         ["insert_many", "b", [[BASE + (i % 7) * SEC, (i % 3) * SEC, {"i": i}, 0] for i in range(n)]],
                                                                         ["insert_many", "b2", events(rng, 3)]]}]))
        out.append(mk_case("id-holes", t, [{"testing": t, "ops": [create("b"), create("c", na="n2"),
                                                                   ["insert_many", "b", events(rng, 6)], ["insert_many", "c", events(rng, 4)],
                                                                   ["delete", "b", 0], ["delete", "b", 3], ["insert", "c", e3[0]], ["delete", "c", 4],
                                                                   ["replace", "b", 1, e3[2]], ["insert", "b", e3[1]]]}]))
        out.append(mk_case("recreated-bucket", t, [{"testing": t, "ops": [create("b"), create("c"), ["insert_many", "b", events(rng, 4)],
                                                                           ["insert_many", "c", events(rng, 2)], ["delete_bucket", "b"],
                                                                           create("b", "again", da={"re": 1}), ["insert_many", "b", events(rng, 3)],
                                                                           ["update", "c", "t2", None, None, "renamed", {"upd": 1}]]}]))
        out.append(mk_case("all-ids", t, [{"testing": t, "ops": [create(b, na=NAMES[i % len(NAMES)], da=BDATA[i % len(BDATA)],
                                                                         cr=CREATED[i % len(CREATED)]) for i, b in enumerate(IDS)]
                                           + [["insert_many", b, events(rng, 1 + i % 3)] for i, b in enumerate(IDS)]}]))
        other = [{"testing": not t, "ops": [create("other"), ["insert_many", "other", events(rng, 3)]]}]
        out.append(mk_case("other-profile-only", t, other))
        out.append(mk_case("both-profiles", t, other + [{"testing": t, "ops": [create("mine", da={"p": str(t)}),
                                                                                ["insert_many", "mine", events(rng, 4)]]}]))
        mine = [{"testing": t, "ops": [create("b"), ["insert_many", "b", events(rng, 3)]]}]
        out.append(mk_case("pre-existing-sqlite", t, mine, pre_sqlite=True))
        out.append(mk_case("custom-path", t, mine, custom="custom.db"))
        out.append(mk_case("stray-bak-only", t, [], stray=[pw_file(t) + ".bak"]))
        out.append(mk_case("stray-mixed", t, mine, stray=[pw_file(t) + ".bak", "notes.txt", "peewee-sqlite.v1.db", "sqlite.v0.db",
                                                          pw_file(not t) + "-journal", "peewee-sqlitex.v2.db"]))
        out.append(mk_case("stray-v2-no-ext", t, [], stray=["peewee-sqlite" + ("-testing" if t else "") + ".v2"]))
        out.append(mk_case("stray-v20", t, [], stray=["peewee-sqlite" + ("-testing" if t else "") + ".v20.db"]))
        out.append(mk_case("dotless-dir", t, mine, stray=["peewee-sqlite" + ("-testing" if t else "") + "/"]))
        out.append(mk_case("dotless-other-profile", t, mine, stray=["peewee-sqlite" + ("" if t else "-testing") + "/"]))
        # legacy file written before bucketmodel had its datastr column: PeeweeStorage.__init__ (auto_migrate)
        # upgrades the schema in place, so the bytes change while the rows do not (recorded, see oracle)
        # cut titles: the event with the lone surrogate sits in the SECOND of three buckets, between ordinary events (a copy that
        # fails on it leaves that bucket short and the third bucket missing), bucket data holds such text too
        cut = [[BASE + i * SEC, SEC, x, 0] for i, x in enumerate([{"app": "chat", "title": "Team chat"}, EDGE_EDATA[0], {"app": "chat", "title": "after"}])]
        out.append(mk_case("cut-title-second-bucket", t, [{"testing": t, "ops": [
            create("aw-watcher-afk_host", "afkstatus", "aw-watcher-afk", "host"), create("aw-watcher-window_host", "currentwindow", "aw-watcher-window", "host"),
            create("aw-watcher-web_host", "web.tab.current", "aw-watcher-web", "host", da=EDGE_BDATA[2]),
            ["insert_many", "aw-watcher-afk_host", events(rng, 3)], ["insert_many", "aw-watcher-window_host", cut],
            ["insert_many", "aw-watcher-web_host", events(rng, 2)]]}]))
        out.append(mk_case("edge-text-everywhere", t, [{"testing": t, "ops": [create(f"e{i}", da=d) for i, d in enumerate(EDGE_BDATA)]
                                                        + [["insert_many", "e0", [[BASE + i * SEC, i, x, 0] for i, x in enumerate(EDGE_EDATA)]],
                                                           ["insert", "e1", [BASE, SEC, EDGE_EDATA[1], 120]], ["insert", "e2", [BASE, 0, EDGE_EDATA[7], 0]],
                                                           ["replace", "e0", 0, [BASE + SEC, 5, EDGE_EDATA[2], 0]],
                                                           ["update", "e1", None, None, None, "renamed", EDGE_BDATA[0]]]}]))
        out.append(mk_case("edge-text-rewritten", t, [{"testing": t, "raw": [["rebuild"], ["event_json", "utf8", 1, 0], ["bucket_json", "spaced"]],
                                                       "ops": [create("b", da=EDGE_BDATA[1]), ["insert_many", "b", cut + events(rng, 3)]]}]))
        out.append(mk_case("old-schema-legacy", t, [{"testing": t, "old_schema": True,
                                                      "ops": [create("old", na="nm"), create("old2"),
                                                              ["insert_many", "old", events(rng, 5)]]}]))
    return out


def random_cases(rng, n):
    out = []
    for i in range(n):
        t = rng.random() < 0.5
        r = rng.random()
        big = rng.random() < 0.12
        if r < 0.70:
            stores = [{"testing": t, "ops": gen_store(rng, big)}]
            kind = "random"
        elif r < 0.80:
            stores = [{"testing": t, "ops": gen_store(rng, big)}, {"testing": not t, "ops": gen_store(rng)}]
            kind = "random-both"
        elif r < 0.88:
            stores = [{"testing": not t, "ops": gen_store(rng)}]
            kind = "random-other-only"
        elif r < 0.92:
            stores = []
            kind = "random-no-legacy"
        elif r < 0.96:
            out.append(mk_case("random-pre-sqlite", t, [{"testing": t, "ops": gen_store(rng)}], pre_sqlite=True))
            continue
        else:
            out.append(mk_case("random-custom", t, [{"testing": t, "ops": gen_store(rng)}], custom="elsewhere.db"))
            continue
        for st in stores:
            st["raw"] = random_raw(rng, p=0.45)
        stray = []
        if rng.random() < 0.15:
            stray = rng.sample(["readme.txt", "peewee-sqlite.v1.db", "sqlite.v0.db", "peewee.v2.db", "x.v2.db",
                                "sqlite-testing.v2.db", "backup.tar.gz"], 2)
        out.append(mk_case(kind, t, stores, stray=stray))
    return out


# ---------------------------------------------------------------------------
# running cases on the implementation


def run_cases(cases, tmp, procs=12):
    """-> per case {"xdg", "built", "before", "listing_before", "mig", "after", "listing_after"} (+ "steps" for a
    session case).  Small cases go phase by phase (several legacy stores per interpreter); a case with a large
    bucket has a thread of its own that takes it through all phases beside them."""
    runs = []
    for i, c in enumerate(cases):
        xdg = tempfile.mkdtemp(prefix=f"case{i}-", dir=tmp)
        runs.append({"xdg": xdg})

    def pre(i):
        # phase 0: cases that want the sqlite file to exist before the legacy one appears
        if cases[i]["pre_sqlite"]:
            child("migrate", {"xdg": runs[i]["xdg"], "testing": cases[i]["new_testing"], "custom": None}, tmp)

    def build(idx):
        # phase 1: legacy stores, written by the real PeeweeStorage
        res = child("build", [{"xdg": runs[i]["xdg"], "stores": cases[i]["stores"]} for i in idx], tmp)
        for i, r in zip(idx, res):
            runs[i]["built"] = r["stores"]

    def built(i):
        d = data_dir(runs[i]["xdg"])
        os.makedirs(d, exist_ok=True)
        for s in cases[i]["stray"]:
            p = os.path.join(d, s.rstrip("/"))
            if s.endswith("/"):
                os.makedirs(p, exist_ok=True)
            else:
                open(p, "w").close()
        runs[i]["before"] = legacy_prints(runs[i]["xdg"])
        runs[i]["listing_before"] = listing(runs[i]["xdg"])
        # a copy of every (small) legacy file, so that a change can be reported row by row
        keep = os.path.join(runs[i]["xdg"], "legacy-before")
        os.makedirs(keep, exist_ok=True)
        for f, fp in runs[i]["before"].items():
            if fp["size"] <= 2_000_000:
                shutil.copy2(os.path.join(d, f), os.path.join(keep, f))

    def mig(i):
        # phase 2: the call under test, one fresh interpreter per case
        if cases[i].get("session") is not None:         # several constructions in that interpreter
            r = child("session", {"xdg": runs[i]["xdg"], "steps": cases[i]["session"]}, tmp)
            runs[i]["steps"] = r
            last = [x for x in r if x["op"] == "sqlite"][-1:]
            r = last[0] if last else {"exc": None, "buckets": [], "events": [], "raw_buckets": [], "raw_events": [],
                                      "committed_buckets": 0, "committed_events": 0, "check_listings": []}
        else:
            r = child("migrate", {"xdg": runs[i]["xdg"], "testing": cases[i]["new_testing"],
                                  "custom": cases[i]["custom"]}, tmp)
        runs[i]["mig"] = r
        runs[i]["after"] = legacy_prints(runs[i]["xdg"])
        runs[i]["listing_after"] = listing(runs[i]["xdg"])
        if r.get("exc") is not None and cases[i].get("session") is None:
            # the construction RAISED: what does the next start of the program (a fresh interpreter, same directory) get?
            runs[i]["reopen"] = child("migrate", {"xdg": runs[i]["xdg"], "testing": cases[i]["new_testing"],
                                                  "custom": cases[i]["custom"]}, tmp)
            runs[i]["listing_reopen"] = listing(runs[i]["xdg"])
        if any(older_schema(s) and s["testing"] == cases[i]["new_testing"] for s in cases[i]["stores"]):
            runs[i]["legacy_after_dump"] = child("dump", {"xdg": runs[i]["xdg"], "testing": cases[i]["new_testing"]}, tmp)

    def whole(i):
        pre(i)
        build([i])
        built(i)
        mig(i)

    large = [i for i in range(len(cases)) if case_events(cases[i]) > 1500]
    rest = [i for i in range(len(cases)) if i not in set(large)]
    with ThreadPoolExecutor(max(1, len(large))) as own, ThreadPoolExecutor(procs) as pool:
        big = [own.submit(whole, i) for i in large]
        list(pool.map(pre, rest))
        step = max(1, min(8, (len(rest) + procs - 1) // procs))
        list(pool.map(build, [rest[i:i + step] for i in range(0, len(rest), step)]))
        for i in rest:
            built(i)
        list(pool.map(mig, rest))
        for f in big:
            f.result()
    return runs


# ---------------------------------------------------------------------------
# labels and the model side


class CaseLabels:
    def __init__(self):
        self.strs = common.Labels()
        self.strs.reps.append("")
        self.datas = common.Labels()
        self.datas.reps.append({})
        self._dcache = {}

    def s(self, v):
        return None if v is None else self.strs.label(v)

    def d(self, v):
        v = v if v else {}
        # shortcut for large buckets: equal JSON text (types included) => equal value => same label
        key = json.dumps(v, sort_keys=True)
        hit = self._dcache.get(key)
        if hit is None:
            hit = self._dcache[key] = self.datas.label(v)
        return hit


def created_us(s):
    d = datetime.fromisoformat(s)
    if d.tzinfo is None:
        d = d.replace(tzinfo=timezone.utc)
    return (d - datetime(1970, 1, 1, tzinfo=timezone.utc)) // timedelta(microseconds=1)


def opt(v):
    return [] if v is None else [v]


def ev_wire(spec, lab, eid=None):
    t, d, x = spec[0], spec[1], spec[2]
    return [opt(eid), t, d, lab.d(x)]


def wire_op(op, lab):
    name = op[0]
    if name == "create":
        _, b, ty, cl, ho, cr, na, da = op
        return [0, lab.s(b), [lab.s(ty), lab.s(cl), lab.s(ho), created_us(cr), opt(lab.s(na)), lab.d(da)]]
    if name == "update":
        _, b, ty, cl, ho, na, da = op
        return [1, lab.s(b), opt(lab.s(ty)), opt(lab.s(cl)), opt(lab.s(ho)), opt(lab.s(na)),
                [] if da is None else [lab.d(da)]]
    if name == "delete_bucket":
        return [2, lab.s(op[1])]
    if name == "insert_many":
        return [6, lab.s(op[1]), [ev_wire(s, lab) for s in op[2]]]
    if name == "insert":
        return [5, lab.s(op[1]), ev_wire(op[2], lab)]
    if name == "delete":
        return [9, lab.s(op[1]), op[2]]
    if name == "replace":
        return [7, lab.s(op[1]), op[2], ev_wire(op[3], lab)]
    raise ValueError(name)


def meta_wire(m, lab):
    return [lab.s(m["type"]), lab.s(m["client"]), lab.s(m["hostname"]), created_us(m["created"]),
            opt(lab.s(m["name"])), lab.d(m["data"])]


def codes(s):
    return [ord(c) for c in s]


def model_case(case, run, lab):
    """wire text of driver case 4 and the universe (labels of every bucket id of the case)"""
    t = case["new_testing"]
    mine = [s for s in run["built"] if s["testing"] == t]
    ops = [wire_op(o, lab) for o in mine[0]["ops"]] if mine else []
    for s in run["built"]:
        for o in s["ops"]:
            lab.s(o[1])
    univ = list(range(len(lab.strs.reps)))
    path = 0 if case["custom"] is None else 1
    return sx([4, t, path, [codes(n) for n in run["listing_before"]], univ, ops, []]), univ


def impl_outcome(case, run, lab, univ):
    """the implementation's observations in the shape of the model's outcome"""
    m = run["mig"]
    t = case["new_testing"]
    res = [0, []] if m["exc"] is None else [1, ERR.get(m["exc"], 10)]
    mine = [s for s in run["built"] if s["testing"] == t]
    legacy_views = []
    dump = mine[0]["dump"] if mine else {"buckets": [], "events": []}
    lb = {lab.s(k): v for k, v in dump["buckets"]}
    le = {lab.s(k): v for k, v in dump["events"]}
    for b in univ:
        if b in lb:
            evs = sorted([[opt(e[0]), e[1], e[2], lab.d(e[3])] for e in le[b]], key=lambda w: w[0])
            legacy_views.append([[meta_wire(lb[b], lab), evs]])
        else:
            legacy_views.append([])
    if m["exc"] is not None:
        return [res, None, None, None, None, legacy_views]
    rb = [[r[0], lab.s(r[1]), [lab.s(r[3]), lab.s(r[4]), lab.s(r[5]), created_us(r[6]), opt(lab.s(r[2])),
                               lab.d(json.loads(r[7]))]] for r in m["raw_buckets"]]
    re_ = [[r[0], r[1], r[2], r[3], lab.d(json.loads(r[4]))] for r in m["raw_events"]]
    nb = {lab.s(k): v for k, v in m["buckets"]}
    ne = {lab.s(k): v for k, v in m["events"]}
    new_views = []
    for b in univ:
        if b in nb:
            evs = sorted([[opt(e[0]), e[1], e[2], lab.d(e[3])] for e in ne[b]], key=lambda w: w[0])
            new_views.append([[meta_wire(nb[b], lab), evs]])
        else:
            new_views.append([])
    return [res, None, rb, re_, new_views, legacy_views]


def canon_model(mo):
    res, unchanged, rb, re_, nv, lv = mo
    def sort_views(vs):
        return [[] if v == [] else [[v[0][0], sorted(v[0][1], key=lambda w: w[0])]] for v in vs]
    return [res, unchanged, rb, re_, sort_views(nv), sort_views(lv)]


# ---------------------------------------------------------------------------
# the property statement on the implementation's own outputs


def canon_ev(e):
    return (e[1], e[2], json.dumps(e[3], sort_keys=True, ensure_ascii=False))


def in_precondition(case, run):
    """default path, the sqlite file is new, the legacy file of the same profile exists, and no entry of the
    data dir is exactly the dot-less legacy name (detect_db_files would index past a one-element split)."""
    t = case["new_testing"]
    own = run["mig"].get("dbfile") or sq_file(t)       # the file the store actually opened
    if case["custom"] is not None or own in run["listing_before"]:
        return False
    if "peewee-sqlite" + ("-testing" if t else "") in run["listing_before"]:
        return False
    return pw_file(t) in run["listing_before"]


def expand(case, run):
    """-> [(case, run) ..]: one entry per SqliteStorage construction.  A session case (several constructions in
    one interpreter) yields one sub-case per sqlite step, with the directory listing / legacy fingerprints taken
    right before and after that step: the property speaks about each first creation by itself, so every step is
    judged (model and oracle) exactly like a construction in a fresh interpreter."""
    if case.get("session") is None:
        return [(case, run)]
    out = []
    for k, (step, res) in enumerate(zip(case["session"], run["steps"])):
        if step["op"] != "sqlite":
            continue
        t = step["testing"]
        sc = mk_case(case["kind"], t, case["stores"], custom=step.get("custom"),
                     pre_sqlite=sq_file(t) in res["listing_before"], stray=case["stray"])
        sc["step"] = k
        sr = {"xdg": run["xdg"], "built": run["built"], "mig": res, "before": res["before"], "after": res["after"],
              "listing_before": res["listing_before"], "listing_after": res["listing_after"]}
        if res.get("final") is not None and any(x["op"] == "sqlite" for x in case["session"][k + 1:]):
            sr["final"] = res["final"]
            sr["expected_final"] = res.get("expected_final")
            sr["later"] = describe_steps({"session": case["session"][k + 1:]}, len(case["session"]), "(later in the same process) ")
        out.append((sc, sr))
    return out


def oracle_case(case, run):
    return [(sig, (f"[step {sc['step']}: SqliteStorage(testing={sc['new_testing']})"
                   f"{'' if sc['custom'] is None else ', custom path'} after {describe_steps(case, sc['step'])}] " if "step" in sc else "") + text)
            for sc, sr in expand(case, run) for sig, text in oracle(sc, sr)]


def describe_steps(case, k, lead="(earlier in the same process) "):
    out = []
    for s in case["session"][:k]:
        if s["op"] == "sqlite":
            out.append(f"SqliteStorage(testing={s['testing']}{', filepath=..' if s.get('custom') else ''})"
                       + (" through Datastore" if s.get("via") else ""))
        elif s["op"] == "use":
            kinds = sorted({c[0] for c in s["calls"]})
            what = (f"the store opened as {s['target']}" if s.get("target") is not None else
                    f"{ {'sqlite': 'SqliteStorage', 'memory': 'MemoryStorage', 'peewee': 'PeeweeStorage'}[s['kind']] }"
                    f"({'' if s['kind'] == 'memory' else 'filepath=' + str(s.get('file'))})")
            out.append(f"use of {what}{' through Datastore' if s.get('via') else ''}: {len(s['calls'])} calls ({', '.join(kinds)})"
                       + (" then closed" if s.get("close") else ""))
        else:
            out.append(f"PeeweeStorage({'testing=' + str(s['testing']) if not s.get('file') else 'filepath=' + s['file']})"
                       + ("" if s.get("touch") else " unread") + (" closed" if s.get("close") else " left open"))
    return (lead + ", ".join(out)) if out else "nothing else in the process"


def oracle(case, run):
    """-> list of (signature, text) violations of the property statement"""
    bad = []
    m = run["mig"]
    t = case["new_testing"]
    # the legacy file itself is left untouched (every legacy file in the directory)
    old_schema = {pw_file(s["testing"]) for s in case["stores"] if older_schema(s)}
    shape = {pw_file(s["testing"]): s["raw"] for s in case["stores"] if s.get("raw")}
    for f, fp in run["before"].items():
        af = run["after"].get(f)
        how = f" (the legacy file had been rewritten with plain sqlite3, same content: {json.dumps(shape[f])})" if f in shape else ""
        if af is not None and af["sha256"] == fp["sha256"] and af["size"] == fp["size"] and af["mtime_ns"] != fp["mtime_ns"] \
                and f not in old_schema and f.endswith(".db"):         # (-wal / -shm beside a WAL-mode file are touched by every reader)
            bad.append(("C14:legacy-touched", f"legacy file {f} was written to (same bytes, modification time "
                                              f"{fp['mtime_ns']} -> {af['mtime_ns']}){how}"))
        if af is None or af["sha256"] != fp["sha256"] or af["size"] != fp["size"]:
            if f in old_schema and af is not None and run.get("legacy_after_dump") is not None:
                # pre-datastr schema: the property's "untouched" is read as "same rows" (PeeweeStorage itself
                # adds the column whenever it opens such a file); the dump after must equal the dump before
                before = [s["dump"] for s in run["built"] if pw_file(s["testing"]) == f][0]
                if run["legacy_after_dump"] != before:
                    bad.append(("C14:legacy-content", f"legacy file {f}: rows changed by the migration"))
                continue
            what = ""
            kept = os.path.join(run["xdg"], "legacy-before", f)
            now = os.path.join(data_dir(run["xdg"]), f)
            if af is not None and f.endswith(".db") and os.path.exists(kept) and os.path.exists(now):
                what = " -- " + c14_gen.file_diff(kept, now)
            bad.append(("C14:legacy-bytes", f"legacy file {f} changed{what}: {fp} -> {af}{how}"))
    mine = [s for s in run["built"] if s["testing"] == t]
    pre = in_precondition(case, run)
    if m["exc"] is not None:
        if pre:
            bad.append(("C14:exception", f"SqliteStorage(testing={t}) raised {m['exc']}: {m.get('exc_text')}"))
            bad += partial_store(case, run, mine)
        return bad
    new_b = dict((k, v) for k, v in m["buckets"])
    new_e = dict((k, v) for k, v in m["events"])
    if run.get("final") is not None and run["final"] != (run.get("expected_final") or {"buckets": m["buckets"], "events": m["events"]}):
        # nothing was written through this store object after its construction (or after the last use step that
        # addressed it): what it holds must still be exactly what the constructor (that use) left -- the later
        # constructions belong to other files
        fb = run["final"].get("buckets")
        if fb is None:
            bad.append(("C14:store-changed-later", f"the store could not be read again at the end of the process "
                                                   f"({run['final'].get('exc')}) {run.get('later', '')}"))
        else:
            bad.append(("C14:store-changed-later", f"the store read again at the end of the process differs from what it held when "
                                               f"its constructor returned: buckets {[k for k, _ in m['buckets']]} -> "
                                               f"{[k for k, _ in fb]}, events "
                                               f"{sum(len(v) for _, v in m['events'])} -> "
                                               f"{sum(len(v) for _, v in run['final']['events'])} "
                                               f"{run.get('later', '')}"))
    if pre:
        # (a legacy file of this profile that no build step wrote was created empty by an earlier PeeweeStorage)
        dump = mine[0]["dump"] if mine else {"buckets": [], "events": []}
        old_e = dict((k, v) for k, v in dump["events"])
        for k, meta in dump["buckets"]:
            if k not in new_b:
                bad.append(("C14:bucket-missing", f"legacy bucket {k!r} is not in the new store"))
                continue
            if new_b[k] != meta:
                diff = {f: (meta.get(f), new_b[k].get(f)) for f in meta if meta.get(f) != new_b[k].get(f)}
                bad.append(("C14:metadata", f"bucket {k!r}: metadata differs (legacy, new): {diff}"))
            a = sorted(canon_ev(e) for e in old_e[k])
            b = sorted(canon_ev(e) for e in new_e[k])
            if a != b:
                if len(b) < len(a):
                    bad.append(("C14:events-dropped", f"bucket {k!r}: {len(b)} of {len(a)} events in the new store"))
                elif len(b) > len(a):
                    bad.append(("C14:events-duplicated", f"bucket {k!r}: {len(b)} events in the new store for {len(a)} legacy events"))
                else:
                    d = [(x, y) for x, y in zip(a, b) if x != y][:2]
                    bad.append(("C14:events-changed", f"bucket {k!r}: events differ (legacy, new), first: {d}"))
            ids = [e[0] for e in new_e[k]]
            if len(set(ids)) != len(ids) or any(i is None for i in ids):
                bad.append(("C14:events-duplicated", f"bucket {k!r}: new event ids not distinct"))
        extra = [k for k in new_b if k not in dict((k, v) for k, v in dump["buckets"])]
        if extra:
            bad.append(("C14:extra-bucket", f"new store has buckets the legacy store has not: {extra}"))
        # none dropped, durably: once the constructor has returned the migration is never re-run (the v1 file
        # exists), so a second connection (= a process started after a crash right now) must see every row
        nb_, ne_ = len(m["raw_buckets"]), len(m["raw_events"])
        if m["committed_buckets"] != nb_ or m["committed_events"] != ne_:
            bad.append(("C14:uncommitted-tail", f"after SqliteStorage(testing={t}) returned, a second connection sees "
                                                f"{m['committed_buckets']} of {nb_} migrated buckets and {m['committed_events']} of "
                                                f"{ne_} migrated events (the rest is in an open transaction; a crash now loses it "
                                                f"for good)"))
    elif not case["pre_sqlite"]:
        # no legacy file of this profile (or custom path): nothing may appear in the new store, in particular
        # not the other profile's buckets.  (With a stray name that passes the name test the migration runs
        # on a just-created empty legacy store: still nothing to copy.)
        if new_b:
            bad.append(("C14:cross-profile", f"new store of profile testing={t} holds {list(new_b)} although no legacy "
                                             f"file of that profile existed (listing {run['listing_before']})"))
    return bad


def store_gaps(dump, new):
    """what of the legacy dump the store `new` (buckets / events as dumped by the child) does not hold"""
    new_b = dict((k, v) for k, v in new["buckets"])
    new_e = dict((k, v) for k, v in new["events"])
    old_e = dict((k, v) for k, v in dump["events"])
    out = []
    for k, meta in dump["buckets"]:
        if k not in new_b:
            out.append(f"bucket {k!r} ({len(old_e[k])} events) is missing")
        elif sorted(canon_ev(e) for e in old_e[k]) != sorted(canon_ev(e) for e in new_e[k]):
            out.append(f"bucket {k!r} holds {len(new_e[k])} of {len(old_e[k])} events")
        elif new_b[k] != meta:
            out.append(f"bucket {k!r}: metadata differs")
    return out


def partial_store(case, run, mine):
    """The first creation of the default store RAISED in the middle of the migration (inside the precondition, where the
    unchanged tree never raises).  The statement is about the store that exists afterwards: the program is started
    again - a fresh interpreter constructs SqliteStorage(testing) on the same directory (run["reopen"]) - and that
    construction must not hand out a store that lacks legacy content as if it were complete.  What the unchanged tree does
    when a construction raises for a reason OUTSIDE the precondition (a dot-less `peewee-sqlite[-testing]` entry in the
    data directory: IndexError out of check_for_migration; a `created` text the legacy reader cannot parse): the v1 file
    has been created by then, the next start finds it, skips the migration and returns normally with whatever the first
    attempt had copied - it never re-migrates.  So after a failed first creation nothing repairs the store: a partial
    store presented as complete is the permanent outcome, and inside the precondition it is a violation of its own."""
    ro = run.get("reopen")
    if ro is None or not mine:
        return []
    t = case["new_testing"]
    if ro["exc"] is not None:
        return []                # the next start fails too: nothing is presented as complete (C14:exception stands)
    gaps = store_gaps(mine[0]["dump"], ro)
    if not gaps:
        return []                # the second start migrated (again) and the store is complete
    ran = any("Migrating database" in x for x in ro.get("migration_log", []))
    return [("C14:partial-store-never-re-migrated",
             f"after the first SqliteStorage(testing={t}) raised {run['mig']['exc']} in the middle of the migration, the next start "
             f"(fresh interpreter, same directory: {run.get('listing_reopen')}) constructs the store without an error"
             f"{' and' if ran else ', does NOT run the migration again (the v1 file exists) and'} presents a partial store as "
             f"complete: " + "; ".join(gaps[:4]))]


# ---------------------------------------------------------------------------
# second stream: the name tests, in process

FRAGS = ["peewee-sqlite", "peewee-sqlite-testing", "sqlite", "sqlite-testing", "peewee", "peewee-sqlite-testing2",
         "Peewee-sqlite", "x", "pééwee", "peewee-sqlite ", "中"]
TAILS = ["", ".v2.db", ".v2", ".v1.db", ".v2.db-wal", ".v2.db.bak", ".V2.db", ".v20.db", ".v02.db", ".2.db", "..v2.db",
         ".v2.", ".db.v2", ".v-2.db", ".v0.db", ".v.db", ".v10.db", ".v2db"]


def name_cases(rng, n):
    out = []
    # deterministic: every fragment x tail alone, for both profiles' peewee names and version 2
    for f in FRAGS:
        for tl in TAILS:
            out.append(([f + tl], "peewee-sqlite", 2))
            out.append(([f + tl], "peewee-sqlite-testing", 2))
    out.append(([], None, None))
    out.append((["a.b", "c"], None, None))
    out.append((["a.b", "c"], "", 0))
    out.append((["a.b", "c"], None, 1))
    out.append((["a.v1", "a"], "a", 1))
    out.append((["a", "a.v1"], "a", None))
    out.append((["a.v-3.x", "a.v3"], "a", -3))
    for _ in range(n):
        k = rng.randrange(0, 6)
        names = list({rng.choice(FRAGS) + rng.choice(TAILS) for _ in range(k)})
        ds = rng.choice([None, "", "peewee-sqlite", "peewee-sqlite-testing", "sqlite", rng.choice(FRAGS)])
        v = rng.choice([None, 0, 1, 2, 2, 2, 10, 20, -2])
        out.append((names, ds, v))
    return out


def run_name_stream(ck, tmp, have_driver):
    import aw_datastore.migration as mig
    cases = name_cases(ck.rng, 1500 if ck.tier == "quick" else 40000)
    wire, impl = [], []
    root = tempfile.mkdtemp(prefix="names-", dir=tmp)
    os.environ["XDG_DATA_HOME"] = os.path.join(root, "xdg_data_home")
    d = os.path.join(root, "xdg_data_home", "activitywatch", "aw-server")
    os.makedirs(d)
    called = []
    orig = mig.peewee_v2_to_sqlite_v1
    mig.peewee_v2_to_sqlite_v1 = lambda ds: called.append(ds)     # test double: record the decision only

    class Stub:
        def __init__(self, sid, testing):
            self.sid, self.testing = sid, testing
    try:
        for names, ds, v in cases:
            for f in os.listdir(d):
                os.unlink(os.path.join(d, f))
            for nme in names:
                open(os.path.join(d, nme), "w").close()
            try:
                r = [0, sorted(codes(x) for x in mig.detect_db_files(d, ds, v))]
            except Exception as ex:  # noqa: BLE001
                r = [1, ERR.get(type(ex).__name__, 10)]
            wire.append(sx([0, [codes(x) for x in sorted(names)], [] if ds is None else [codes(ds)], opt(v)]))
            impl.append(r)
            ck.count("names:detect")
            ck.note_case(["detect", sorted(names), ds, v], nontrivial=(r[0] == 1 or len(r[1]) not in (0, len(names))))
            for sid in ("sqlite", "peewee"):
                for t in (True, False):
                    del called[:]
                    try:
                        mig.check_for_migration(Stub(sid, t))
                        r2 = [0, 1 if called else 0]
                    except Exception as ex:  # noqa: BLE001
                        r2 = [1, ERR.get(type(ex).__name__, 10)]
                    wire.append(sx([1, codes(sid), t, [codes(x) for x in sorted(names)]]))
                    impl.append(r2)
                    ck.count("names:check")
                    ck.evaluations += 1
                    # oracle on the decision: same-profile default legacy name present => must migrate;
                    # nothing whose first component is the profile's legacy name => must not
                    if sid == "sqlite" and r2[0] == 0:
                        want_yes = pw_file(t) in names
                        may = any(x.split(".")[0] == "peewee-sqlite" + ("-testing" if t else "") for x in names)
                        if want_yes and r2[1] != 1:
                            ck.failing_input("C14:trigger-missed", f"legacy file {pw_file(t)} present, migration not started",
                                             {"listing": names, "testing": t})
                        if not may and r2[1] == 1:
                            ck.failing_input("C14:trigger-cross", f"migration started for testing={t} with listing {names}",
                                             {"listing": names, "testing": t})
    finally:
        mig.peewee_v2_to_sqlite_v1 = orig
    if have_driver:
        model = common.run_driver("C14", wire)
        for w, mo, io in zip(wire, model, impl):
            if mo[0] == 0 and isinstance(mo[1], list):
                mo = [0, sorted(mo[1])]
            if mo != io:
                ck.disagreement("names", f"case {w[:200]}: model {mo} impl {io}", {"case": w, "model": mo, "impl": io})


# ---------------------------------------------------------------------------


def model_limit(ck):
    """the extracted store models are quadratic in the bucket size (insertion sort, append): the row-by-row
    comparison with the model is made for cases up to this many events, larger ones are judged by the oracle"""
    return 2500 if ck.tier == "quick" else 6500


def evaluate(ck, top_cases, top_runs, have_driver, record=True):
    """compare with the model, run the oracle; returns per (top-level) case the list of oracle violations"""
    cases, runs, parents = [], [], []
    for k, (c, r) in enumerate(zip(top_cases, top_runs)):
        for sc, sr in expand(c, r):
            cases.append(sc)
            runs.append(sr)
            parents.append(k)
        if record and c.get("session") is not None:
            ck.count("sessions (several constructions in one interpreter)")
            ck.count("session-steps", len(c["session"]))
            uses = [(x, y) for x, y in zip(c["session"], r.get("steps") or []) if x["op"] == "use"]
            if uses:
                ck.count("sessions in which a store was used before a construction")
            for x, y in uses:
                ck.count("use-steps")
                ck.count("use-steps:" + ("store left open by an earlier construction" if x.get("target") is not None else x["kind"])
                         + (" via Datastore" if x.get("via") else ""))
                ck.count("use-calls", len(x["calls"]))
                if y.get("exc"):
                    ck.count("use-steps that raised (context only)")
                    ck.coverage.setdefault("use_step_exception_example", y["exc"])
                if y.get("skipped"):
                    ck.count("use-steps skipped (target not open)")
    labs = [CaseLabels() for _ in cases]
    wires, univs = [], []
    tied = []
    for c, r, lab in zip(cases, runs, labs):
        if case_events(c) > model_limit(ck) or not c14_gen.raw_order_keeping(store_raw(c, c["new_testing"])):
            wires.append(None)
            univs.append(None)
            continue
        w, u = model_case(c, r, lab)
        wires.append(w)
        univs.append(u)
        tied.append(len(wires) - 1)
    verdicts = []
    top_verdicts = [[] for _ in top_cases]
    models = [None] * len(cases)
    if have_driver:
        for j, mo in zip(tied, common.run_driver("C14", [wires[j] for j in tied])):
            models[j] = mo
    created = {}
    if have_driver:
        for t, names in zip((True, False), common.run_driver("C14", [sx([5, True]), sx([5, False])])):
            created[t] = ["".join(chr(x) for x in n) for n in names]
    for c, r, lab, u, w, mo, pk in zip(cases, runs, labs, univs, wires, models, parents):
        bad = oracle(c, r)
        verdicts.append(bad)
        top_verdicts[pk] += bad
        if not record:
            continue
        top = top_cases[pk]
        where = ""
        if "step" in c:
            where = (f"step {c['step']}: SqliteStorage(testing={c['new_testing']}"
                     f"{'' if c['custom'] is None else ', filepath=..'}) after {describe_steps(top, c['step'])}; ")
        m = r["mig"]
        migrated = any("Migrating database" in x for x in m.get("migration_log", []))
        n_events = len(m.get("raw_events") or [])
        ck.count("kind:" + c["kind"])
        ck.count("profile:" + ("testing" if c["new_testing"] else "normal"))
        ck.count("migration-ran" if migrated else "migration-not-run")
        ck.count("events-migrated", n_events)
        for lim in (1000, 5000, 10000, 20000, 50000):
            if m["exc"] is None and migrated and any(len(v) > lim for _, v in m["events"]):
                ck.count(f"migrated-bucket-larger-than-{lim}")
        if w is None and case_events(c) > model_limit(ck):
            ck.count("oracle-only (bucket too large for the extracted model's quadratic sort)")
        elif w is None:
            ck.count("oracle-only (timestamp texts / ids of the rewritten legacy file sort differently from the model's rows)")
        for f_raw in {pw_file(s["testing"]) for s in c["stores"] if s.get("raw")} & set(r["before"]):
            ck.count("legacy files rewritten into another representation of the same content (present at a construction)")
        for st in store_raw(c, c["new_testing"]):
            ck.count("raw:" + st[0] + (":" + str(st[1]) if st[0] in ("bucket_empty_data", "journal", "bucket_json", "drop_index") else ""))
        ck.count("buckets-migrated", len(m.get("raw_buckets") or []))
        if m["exc"]:
            ck.count("constructor-raised:" + m["exc"])
            ro = r.get("reopen")
            if ro is not None:
                # (outside the precondition - dot-less entry in the data dir - the unchanged tree raises IndexError and the next
                # start skips the migration: recorded, not judged)
                mine_ = [s_ for s_ in r["built"] if s_["testing"] == c["new_testing"]]
                gaps = store_gaps(mine_[0]["dump"], ro) if mine_ and ro["exc"] is None else []
                ck.count("next start after a construction that raised: " + ("raises again" if ro["exc"] is not None else
                         "returns a store that lacks legacy content (never re-migrated)" if gaps else "returns a complete store")
                         + ("" if in_precondition(c, r) else " [outside the precondition]"))
        if m["exc"] is None and m["committed_events"] != n_events:
            ck.count("uncommitted-tail-after-constructor")
            ck.coverage.setdefault("uncommitted_tail_example",
                                   {"kind": c["kind"], "events_in_connection": n_events, "events_committed": m["committed_events"]})
        if any(v["mtime_ns"] != r["after"].get(f, {}).get("mtime_ns") for f, v in r["before"].items()):
            ck.count("legacy-mtime-changed")
        if any(v["sha256"] != r["after"].get(f, {}).get("sha256") for f, v in r["before"].items()):
            ck.count("legacy-bytes-changed (old-schema file upgraded by PeeweeStorage.auto_migrate)" if c["kind"] == "old-schema-legacy"
                     else "legacy-bytes-changed (old-schema file: missing index added by PeeweeStorage's create_table(safe=True))"
                     if c["kind"] == "old-schema-no-index" else "legacy-bytes-changed")
        ck.note_case([c["new_testing"], c["custom"], r["listing_before"],
                      [[s["testing"], s["ops"]] for s in r["built"]]], nontrivial=(migrated and n_events > 0))
        if len(ck.samples) < 4 and migrated and 0 < n_events <= 8:
            ck.sample({"kind": c["kind"], "testing": c["new_testing"], "listing_before": r["listing_before"],
                       "legacy": [s["dump"] for s in r["built"] if s["testing"] == c["new_testing"]],
                       "new_buckets": m["buckets"], "new_events": m["events"], "legacy_sha_unchanged": r["before"] == r["after"] or
                       all(r["after"].get(f, {}).get("sha256") == v["sha256"] for f, v in r["before"].items())})
        for sig, text in bad:
            ck.failing_input(sig, f"[{c['kind']}, {where}testing={c['new_testing']}] {text}",
                             {"case": top, "step": c.get("step"), "listing_before": r["listing_before"], "observed": text,
                              "legacy_dump": [s["dump"] for s in r["built"]][:1] if n_events < 30 else "(large)",
                              "new_buckets": m.get("buckets"), "rerun": REPLAY_HINT})
        if mo is not None:
            io = impl_outcome(c, r, lab, u)
            if mo == [-999]:
                ck.disagreement("migrate", "driver could not decode the case", {"case": w[:500]})
                continue
            mc = canon_model(mo)
            mism = None
            if mc[0] != io[0]:
                mism = f"result: model {mc[0]} impl {io[0]}"
            elif mc[5] != io[5]:
                mism = "legacy store: model of the legacy tables differs from the real legacy dump"
            elif io[0][0] == 0:
                for j, what in ((2, "buckets table"), (3, "events table"), (4, "views through the API")):
                    if mc[j] != io[j]:
                        a = [x for x in mc[j] if x not in io[j]][:2]
                        b = [x for x in io[j] if x not in mc[j]][:2]
                        mism = f"{what}: model-only {a} impl-only {b} (sizes {len(mc[j])}/{len(io[j])})"
                        break
            if mism is None and mc[1] != 1:
                mism = "model reports the legacy tables changed"
            if mism is None:
                # the listing detect_db_files was shown = listing before + what the model says the
                # constructor has created by then (sq_created_files); no listing at all when the model
                # says the check is skipped
                t = c["new_testing"]
                skipped = c["custom"] is not None or sq_file(t) in r["listing_before"]
                want = [] if skipped else [sorted(set(r["listing_before"]) | set(created[t]))]
                if m["check_listings"] != want:
                    mism = f"data dir as listed by detect_db_files: impl {m['check_listings']}, model {want}"
            if mism:
                ck.disagreement("migrate", f"[{c['kind']}, {where}testing={c['new_testing']}] {mism}",
                                {"case": top, "step": c.get("step"), "listing_before": r["listing_before"], "mismatch": mism})
    return top_verdicts


def shrink_case(case, tmp):
    """greedy: drop ops of the legacy store while the oracle still reports a violation"""
    import time
    deadline = time.time() + 75          # best effort: what has been reached by then is reported

    def fails(c):
        if time.time() > deadline:
            return False
        runs = run_cases([c], tmp, procs=1)
        for r in runs:
            shutil.rmtree(r["xdg"], ignore_errors=True)
        return bool(oracle_case(c, runs[0]))
    cur = json.loads(json.dumps(case))
    # large generated buckets first: bisect their size (the first n events do not depend on n)
    for si in range(len(cur["stores"])):
        for k, op in enumerate(cur["stores"][si]["ops"]):
            if op[0] != "insert_gen":
                continue
            lo, hi = 0, op[2]["n"]
            for _ in range(8):
                if hi - lo <= 1:
                    break
                mid = (lo + hi) // 2
                c = json.loads(json.dumps(cur))
                c["stores"][si]["ops"][k][2]["n"] = mid
                if fails(c):
                    hi = mid
                else:
                    lo = mid
            op[2]["n"] = hi
    large = case_events(cur) > 1500
    if cur.get("session") is not None:
        def still_steps(steps):
            c = json.loads(json.dumps(cur))
            c["session"] = steps
            return any(s["op"] == "sqlite" for s in steps) and fails(c)
        cur["session"] = common.shrink_list(cur["session"], still_steps, max_steps=10)
        for k, st in enumerate(cur["session"]):          # the calls of a use step
            if st["op"] == "use" and len(st.get("calls") or []) > 1:
                def still_calls(calls, k=k):
                    c = json.loads(json.dumps(cur))
                    c["session"][k]["calls"] = calls
                    return fails(c)
                st["calls"] = common.shrink_list(st["calls"], still_calls, max_steps=10)
    for si in range(len(cur["stores"])):
        if cur["stores"][si].get("raw"):
            def still_raw(raw, si=si):
                c = json.loads(json.dumps(cur))
                c["stores"][si]["raw"] = raw
                return fails(c)
            cur["stores"][si]["raw"] = common.shrink_list(cur["stores"][si]["raw"], still_raw, max_steps=8)
    for si in range(len(cur["stores"])):
        def still(ops, si=si):
            c = json.loads(json.dumps(cur))
            c["stores"][si]["ops"] = ops
            return fails(c)
        cur["stores"][si]["ops"] = common.shrink_list(cur["stores"][si]["ops"], still, max_steps=(3 if case_events(cur) > 5000 else 6) if large else 25)
        for k, op in enumerate(cur["stores"][si]["ops"]):
            if op[0] == "insert_many" and len(op[2]) > 1:
                def still_ev(evs, si=si, k=k):
                    c = json.loads(json.dumps(cur))
                    c["stores"][si]["ops"][k][2] = evs
                    return fails(c)
                op[2] = common.shrink_list(op[2], still_ev, max_steps=12)
    return cur


def replay(path):
    case = json.load(open(path))
    if "property" in case and "replay" in case:          # a replays/C14/<hash>.json written by the check
        case = case["replay"]
    if "case" in case:
        case = case["case"]
    tmp = tempfile.mkdtemp(prefix="awverif-c14-")
    try:
        runs = run_cases([case], tmp, procs=1)
        bad = oracle_case(case, runs[0])
        print(json.dumps({"listing_before": runs[0]["listing_before"], "listing_after": runs[0]["listing_after"],
                          "new_buckets": runs[0]["mig"].get("buckets"), "exc": runs[0]["mig"]["exc"],
                          "next_start": None if runs[0].get("reopen") is None else
                          {"exc": runs[0]["reopen"]["exc"], "buckets": [k for k, _ in runs[0]["reopen"].get("buckets", [])],
                           "events_per_bucket": {k: len(v) for k, v in runs[0]["reopen"].get("events", [])}},
                          "n_events_new": len(runs[0]["mig"].get("raw_events") or []),
                          "violations": bad}, indent=1, ensure_ascii=False, default=str).encode("utf-8", "backslashreplace").decode("utf-8"))
        return 1 if bad else 0
    finally:
        shutil.rmtree(tmp, ignore_errors=True)


def main(argv=None):
    argv = argv if argv is not None else sys.argv[1:]
    if argv and argv[0] == "replay":
        return replay(argv[1])
    ck = Check("C14", argv)
    tmp = common.setup_impl_env()
    n_random = 110 if ck.tier == "quick" else 6000
    # large buckets first (their interpreters run beside the many small cases), then the boundary corpus, the
    # sessions (several constructions in one interpreter) and the random stores
    cases = (big_cases(ck.rng, ck.tier) + corpus(ck.rng) + raw_corpus(ck.rng) + session_corpus(ck.rng)
             + session_cases(ck.rng, 14 if ck.tier == "quick" else 600)
             + use_corpus(ck.rng) + session_cases(ck.rng, 16 if ck.tier == "quick" else 600, use=True)
             + random_cases(ck.rng, n_random))
    work = tempfile.mkdtemp(prefix="c14-", dir=tmp)
    batch = 400
    # the implementation runs of the first batch (child interpreters only) go on while the proofs are checked
    ahead = ThreadPoolExecutor(1)
    first_runs = ahead.submit(run_cases, cases[:batch], work)
    ck.run_witnesses(["w10", "w19"])
    ck.prove(extra_targets=["Bridge/BridgeMigration.v", "Bridge/BridgePeeweeOpen.v"],
             gen_kernels=["migration_loop", "migration_names", "migration_init",
                          "peewee_open_decl", "peewee_open_tables", "peewee_open_init", "peewee_open_auto_migrate"])
    have_driver = ck.driver()
    first_bad, first_size = None, None
    for lo in range(0, len(cases), batch):
        part = cases[lo:lo + batch]
        runs = first_runs.result() if lo == 0 else run_cases(part, work)
        verdicts = evaluate(ck, part, runs, have_driver)
        for c, v in zip(part, verdicts):
            # the case to shrink: the smallest one that fails (fewest events, then fewest constructions)
            if v and not all(any(k.get("signature") == s for k in ck.known) for s, _ in v):
                size = (case_events(c), len(c.get("session") or []))
                if first_bad is None or size < first_size:
                    first_bad, first_size = c, size
        for r in runs:
            shutil.rmtree(r["xdg"], ignore_errors=True)
    if first_bad is not None and ck.violations:
        try:
            small = shrink_case(first_bad, work)
            runs = run_cases([small], work, procs=1)
            bad = oracle_case(small, runs[0])
            if bad:
                sig, text = bad[0]
                ck.violations.insert(0, (sig, f"[shrunk, testing={small['new_testing']}] {text}",
                                         {"case": small, "listing_before": runs[0]["listing_before"], "observed": text,
                                          "legacy_dump": [s["dump"] for s in runs[0]["built"]] if case_events(small) < 200 else "(large)",
                                          "new_buckets": runs[0]["mig"].get("buckets"),
                                          "new_events": runs[0]["mig"].get("events") if case_events(small) < 200 else "(large)",
                                          "rerun": REPLAY_HINT}))
        except Exception as ex:  # noqa: BLE001 -- shrinking is best effort
            ck.log.append(f"shrink failed: {ex}")
    run_name_stream(ck, tmp, have_driver)

    ck.assumptions += [
        "bucket ids / strings / data dicts enter the model as labels (one per Python == class; '' and {} are label 0); "
        "`created` as the instant it denotes (peewee's buckets() re-prints it in UTC)",
        "instants and durations as exact integer microseconds; generated events lie in 2020..2021 (sqlite's unwindowed "
        "get_events hides events that end before 1970: C03's concern, not the copy's)",
        "PeeweeStorage.__init__ (create_table(safe=True), auto_migrate) is I/O outside the model: covered by the SHA-256 "
        "+ mtime oracle on legacy files with the current schema (tables with datastr, peewee's three indexes), written by "
        "the current PeeweeStorage and rewritten by the harness into the other representations of the same content "
        "(coverage: raw:*); files of an older schema (no datastr column, a missing index) are upgraded in place by "
        "PeeweeStorage itself and are judged at content level",
        "legacy content = what the unchanged legacy reader accepts: `created` texts that peewee's DateTimeField turns "
        "into a datetime ('YYYY-MM-DD HH:MM:SS[.ffffff]' without offset, 'YYYY-MM-DD') make BucketModel.json raise "
        "(iso8601.parse_date of a datetime) and are not generated; nor are non-object JSON in bucketmodel.datastr and "
        "non-numeric duration texts (the DECIMAL column's NUMERIC affinity stores every decimal text as INTEGER/REAL)",
        "the row-by-row comparison with the extracted model is made for cases of up to 2500 events (quick) / 6500 "
        "(thorough): the extracted store models sort by insertion and are quadratic; larger buckets are judged by the "
        "property oracle alone (count in coverage: oracle-only ..)",
        "the model has no process state: a session is a sequence of independent sqlite_open evaluations, one per "
        "SqliteStorage construction, each on the listing observed right before it",
        "os.listdir of the data dir is the model's `listing`; the three files sqlite creates before the check "
        "(db, -shm, -wal) are appended by the model (sq_created_files) and compared with the directory afterwards",
    ]
    ck.trusted.append("oracle parts (no Section hypotheses; checked by the correspondence run): relational meaning of the SQL "
                      "statements of sqlite.py/peewee.py as in Model/SqliteStore.v, Model/PeeweeStore.v; peewee's ORDER BY "
                      "timestamp DESC tie order; file-system listing")
    ck.trusted.append("tie B: translate/py2v.py + translate/k_migration.py (fail-closed reading of migration.py, "
                      "SqliteStorage.__init__/create_bucket, PeeweeStorage.__init__, auto_migrate, the peewee model declarations); "
                      "Bridge/BridgeMigration.v, Bridge/BridgePeeweeOpen.v by reflexivity")
    ck.coverage["ties"] = {
        "peewee_v2_to_sqlite_v1 loop (argument binding, limit, id stripping, insert_many)": "A+B",
        "detect_db_files / check_for_migration": "A+B",
        "SqliteStorage.__init__ guard, default file names, commit after migration": "A+B",
        "pw_step / sq_step (the stores themselves)": "A (here and in C02)",
        "PeeweeStorage.__init__ (create_table, auto_migrate)": "B (statement sequence, handle declaration, auto_migrate body, table "
                                                              "declarations: Bridge/BridgePeeweeOpen.v) + oracle (SHA-256 + mtime / "
                                                              "content dump of the legacy file, on files in released and rewritten "
                                                              "shapes); peewee's / SQLite's own behaviour per statement is hand-modelled"}
    return ck.finish(RULE)


if __name__ == "__main__":
    sys.exit(main())
