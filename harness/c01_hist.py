"""C01, history scenarios: the id-uniqueness / read-back clauses on buckets that are not append-only.

The scenarios of harness/c01.py only ever insert, so the bucket always holds ids 0..n-1 (memory) or
one ascending run (SQL back ends): number of events, highest id + 1, last id + 1 and "ids handed out so
far" all coincide, and an id assignment derived from any of them is indistinguishable from a correct
one.  Here the same oracle runs on histories that also delete (oldest / middle / newest / every
event), replace, replace_last, bulk-upsert (events carrying the id of a stored event mixed with new
ones), write to the second bucket in between (the SQL back ends share one id space) and delete +
re-create the bucket, before inserting again.  After EVERY step the bucket is listed and every listed
id is looked up: ids unique, an inserted event's id names no event the bucket held, events not
addressed by the step are listed unchanged, replaced / upserted events read back with the new payload
under the old id, deleted events are gone from listing and lookup.

Step kinds added to ("one", spec) / ("many", [spec..]) of harness/c01.py (k = index into the ids the
bucket holds, ascending, modulo their number; a step that needs a stored event is skipped on an
empty bucket):
  ("del", k)  ("rep", (k, spec))  ("rlast", spec)  ("ups", [(k | None, spec), ...])
  ("other", spec) = insert into the second bucket   ("reset", None) = delete_bucket + create_bucket
  ("alias", ([spec..], [index..])) = bulk insert of a list in which the SAME Event object occurs at every
  position that carries the same index (n * [event], [e, other, e]): each occurrence is one inserted event
  ("unread", {"acks": [spec..], "fault": kind, "after": [spec..]})  (round 5) single inserts whose ids are handed
  back (ACKNOWLEDGED) and that are NOT read back - a read commits on sqlite, so with a listing after every step
  nothing is ever pending -, then a bulk insert that FAILS inside the engine and that the caller survives (kind
  "stale": through the Bucket object of a bucket that was deleted meanwhile; "missing": through a Bucket built
  for an id that never existed; "big-id": a list holding one event that carries the id 2**63, which no SQLite
  INTEGER holds; "missing-single": a SINGLE insert through a Bucket built for an id that never existed), then
  further single inserts, still unread; only then the listing and the lookups.  On the
  unchanged tree each fault leaves every back end as it was (memory / peewee KeyError, sqlite IntegrityError;
  2**63: memory returns, sqlite / peewee OverflowError).  Oracle: every acknowledged id still names its event
  (listing and lookup) and no id was handed out twice.  The failing call is the fault, not an operation of the
  property: it is not sent to the store models.
"""
import copy
import shutil
import tempfile

from . import c01 as base
from . import store_hist as sh

HIST_KINDS = ("del", "rep", "rlast", "ups", "other", "reset", "alias", "unread")
FAULTS = ("stale", "missing", "big-id", "missing-single")


def is_history(steps):
    return any(k in HIST_KINDS for k, _ in steps)


def specs_of(kind, arg):
    """The event specs a step writes into the bucket under test."""
    if kind == "one" or kind == "rlast":
        return [arg]
    if kind == "many":
        return list(arg)
    if kind == "rep":
        return [arg[1]]
    if kind == "ups":
        return [s for _, s in arg]
    if kind == "alias":
        return [arg[0][i] for i in arg[1]]
    if kind == "unread":
        return list(arg["acks"]) + list(arg["after"])
    return []


def shape(steps):
    """One word per step: the kind and the positions it names (payloads are in the scenario file)."""
    out = []
    for k, a in steps:
        if k == "del":
            out.append(f"del[{a}]")
        elif k == "rep":
            out.append(f"rep[{a[0]}]")
        elif k == "ups":
            out.append("ups[" + ",".join("new" if i is None else str(i) for i, _ in a) + "]")
        elif k == "many":
            out.append(f"many({len(a)})")
        elif k == "alias":
            out.append("alias" + str(list(a[1])))
        elif k == "unread":
            out.append(f"unread[{len(a['acks'])} x one, failing bulk insert ({a['fault']}), {len(a['after'])} x one]")
        else:
            out.append(k)
    return out


# ---------------------------------------------------------------------------
# replay-file form of a step


def step_json(kind, arg):
    sj = base.spec_json
    if kind in ("one", "rlast", "other"):
        return [kind, sj(arg)]
    if kind == "many":
        return [kind, [sj(s) for s in arg]]
    if kind == "rep":
        return [kind, [arg[0], sj(arg[1])]]
    if kind == "ups":
        return [kind, [[k, sj(s)] for k, s in arg]]
    if kind == "alias":
        return [kind, [[sj(s) for s in arg[0]], list(arg[1])]]
    if kind == "unread":
        return [kind, {"acks": [sj(s) for s in arg["acks"]], "fault": arg["fault"], "after": [sj(s) for s in arg["after"]]}]
    return [kind, arg]


def step_unjson(kind, j, spec):
    if kind in ("one", "rlast", "other"):
        return (kind, spec(j))
    if kind == "many":
        return (kind, [spec(s) for s in j])
    if kind == "rep":
        return (kind, (j[0], spec(j[1])))
    if kind == "ups":
        return (kind, [(k, spec(s)) for k, s in j])
    if kind == "alias":
        return (kind, ([spec(s) for s in j[0]], list(j[1])))
    if kind == "unread":
        return (kind, {"acks": [spec(s) for s in j["acks"]], "fault": j["fault"], "after": [spec(s) for s in j["after"]]})
    return (kind, j)


# ---------------------------------------------------------------------------
# generators

T0 = 1_650_000_000_000_000


def pool_specs():
    """24 fixed specs: instants NOT ascending (listing order differs from id order), two pairs of equal
    instants, sub-ms parts, a few offsets / long durations / nested data."""
    order = [7, 2, 11, 2, 19, 0, 23, 5, 13, 13, 1, 17, 3, 29, 8, 31, 4, 37, 6, 41, 9, 43, 10, 47]
    out = []
    for i, o in enumerate(order):
        out.append({"t": T0 + o * 1_000_000 + (0, 123_000, 999_999, 500)[i % 4],
                    "off": base.OFFSETS[i % len(base.OFFSETS)],
                    "d": (0, 1, 1_000_000, 1_500_001, base.DAY + 1, 999)[i % 6],
                    "x": copy.deepcopy(base.DATA_CORPUS[i % len(base.DATA_CORPUS)]) if i % 5 == 4 else {"name": i}})
        if i % 8 == 3:       # a datetime in a PEP 495 zone beside its offset change (fold=1 / fold=0 / gap): harness/c01.py zoned
            out[-1] = base.zoned(out[-1], ("fold-second-pass", "gap-after", "fold-end")[i // 8])
    return out


def history_corpus():
    P = pool_specs()
    it = iter(range(10 ** 6))

    def s():
        return copy.deepcopy(P[next(it) % len(P)])

    def one(n=1):
        return [("one", s()) for _ in range(n)]
    out = []
    # delete the event at every position of a bucket of 1..4 events, insert, and once more
    for n in (1, 2, 3, 4):
        for k in range(n):
            out.append((f"hist-del-{k}-of-{n}", one(n) + [("del", k)] + one() + [("del", k)] + one(2)))
    out.append(("hist-del-all", one(4) + [("del", 0)] * 4 + one(2) + [("del", 1), ("del", 0)] + one()))
    out.append(("hist-del-newest", one(3) + [("del", -1)] + one() + [("del", -1), ("del", -1)] + one(2)))
    out.append(("hist-replace", one(3) + [("rep", (1, s()))] + one() + [("rlast", s())] + one() + [("del", 1)] + one()
                + [("rep", (0, s())), ("rep", (-1, s()))] + one()))
    out.append(("hist-upsert", one(2) + [("ups", [(0, s()), (None, s()), (None, s())])] + one() + [("del", 2)]
                + [("ups", [(None, s()), (1, s())])] + one() + [("ups", [(0, s()), (0, s()), (-1, s())])] + one()))
    out.append(("hist-bulk", [("many", [s() for _ in range(5)]), ("del", 1), ("del", 2), ("many", [s() for _ in range(3)])]
                + one() + [("del", -1)] + one() + [("many", [])] + one()))
    out.append(("hist-two-buckets", one() + [("other", s())] + one() + [("other", s()), ("del", 0)] + one()
                + [("other", s()), ("del", -1)] + one() + [("other", s())] + [("many", [s(), s()])] + [("del", 1)] + one()))
    out.append(("hist-recreate", one(3) + [("reset", None)] + one(2) + [("del", 0)] + one() + [("reset", None), ("reset", None)]
                + one() + [("many", [s(), s()]), ("del", 1)] + one()))
    out.append(("hist-alias", one() + [("alias", ([s()], [0, 0]))] + one() + [("alias", ([s(), s()], [0, 1, 0])), ("del", 1)]
                + [("alias", ([s()], [0, 0, 0]))] + one() + [("alias", ([s(), s(), s()], [2, 0, 1, 0, 2]))] + one()))
    out.append(("hist-empty-first", [("del", 0), ("rlast", s()), ("ups", [(0, s())])] + one() + [("del", 0)] + one(2)))
    # acknowledged single inserts that are not read back, a bulk insert that fails inside the engine, more inserts
    for f in FAULTS:
        for na, nb in ((1, 0), (2, 1), (3, 2)):
            out.append((f"hist-unread-{f}-{na}-{nb}",
                        one(2) + [("unread", {"acks": [s() for _ in range(na)], "fault": f, "after": [s() for _ in range(nb)]})]
                        + one() + [("del", 0), ("unread", {"acks": [s()], "fault": f, "after": []})] + one()))
    out.append(("hist-unread-first", [("unread", {"acks": [s(), s()], "fault": "stale", "after": [s()]}),
                                      ("unread", {"acks": [s()], "fault": "big-id", "after": [s()]})] + one()))
    return out


def random_history(rng, n):
    P = pool_specs()

    def s():
        return copy.deepcopy(rng.choice(P)) if rng.random() < 0.85 else base.rand_spec(rng)
    steps = []
    for _ in range(rng.randrange(6, 26)):
        r = rng.random()
        k = rng.randrange(-3, 8)
        if r < 0.35:
            steps.append(("one", s()))
        elif r < 0.44:
            steps.append(("many", [s() for _ in range(rng.choice([0, 1, 2, 3, 4]))]))
        elif r < 0.66:
            steps.append(("del", k))
        elif r < 0.74:
            steps.append(("rep", (k, s())))
        elif r < 0.79:
            steps.append(("rlast", s()))
        elif r < 0.89:
            steps.append(("ups", [(rng.choice([None, None, rng.randrange(-2, 6)]), s()) for _ in range(rng.choice([1, 2, 3, 4]))]))
        elif r < 0.95:
            steps.append(("other", s()))
        elif r < 0.975:
            specs = [s() for _ in range(rng.choice([1, 1, 2, 3]))]
            steps.append(("alias", (specs, [rng.randrange(len(specs)) for _ in range(rng.choice([2, 3, 4]))])))
        elif r < 0.99:
            steps.append(("unread", {"acks": [s() for _ in range(rng.choice([1, 1, 2, 4]))], "fault": rng.choice(FAULTS),
                                     "after": [s() for _ in range(rng.choice([0, 1, 2]))]}))
        else:
            steps.append(("reset", None))
    steps.append(("one", s()))
    return ("hist-random-%d" % n, steps)


# ---------------------------------------------------------------------------
# one history step on the real back end (called from c01.run_scenario)


def run_step(env, si, kind, arg, before):
    """Runs the step, lists the bucket, looks every listed id up; appends to env.fails; returns the new
    id -> (instant, duration, canonical data) map (`before` of the next step)."""
    fails, record, bucket, ds = env.fails, env.record, env.bucket, env.ds
    ev_w, spec_w = env.ev_w, env.spec_w
    live = sorted(before)
    exp = dict(before)                  # what the listing must show for the ids known before the step
    new_payloads, gone = [], []
    data_eq = {}                        # id -> data the event must be == to
    last_cands = None

    def out_w(code, r):
        """what replace / replace_last / delete returned, in the store models' `out` form"""
        if code == 9:
            return [4, 1 if r else 0]
        if r is None:
            return [0]
        if isinstance(r, bool):
            return [4, 1 if r else 0]
        return [1, [ev_w(base.observed(r))]]

    def wire(spec, i=None):
        w = spec_w(spec)
        return [[i] if i is not None else []] + w[1:]

    if kind == "del":
        if not live:
            return before
        i = live[arg % len(live)]
        r, ex = record([9, 1, i], lambda: bucket.delete(i), lambda r: out_w(9, r))
        if ex is not None:
            fails.append(("delete-raised", f"delete({i}) raised {type(ex).__name__}: {ex}", si))
            return before
        if not r:
            fails.append(("delete-refused", f"delete({i}) of a listed event returned {r!r}", si))
        del exp[i]
        gone = [i]
    elif kind == "rep":
        if not live:
            return before
        i = live[arg[0] % len(live)]
        e = base.mk_event(arg[1])
        r, ex = record([7, 1, i, wire(arg[1])], lambda: bucket.replace(i, e), lambda r: out_w(7, r))
        if ex is not None:
            fails.append(("replace-raised", f"replace({i}) raised {type(ex).__name__}: {ex}", si))
            return before
        exp[i] = base.expected(arg[1])
        data_eq[i] = arg[1]["x"]
    elif kind == "rlast":
        if not live:
            return before
        e = base.mk_event(arg)
        r, ex = record([8, 1, wire(arg)], lambda: bucket.replace_last(e), lambda r: out_w(8, r))
        if ex is not None:
            fails.append(("replace-raised", f"replace_last raised {type(ex).__name__}: {ex}", si))
            return before
        tmax = max(v[0] for v in before.values())
        last_cands = [i for i in live if before[i][0] == tmax]
    elif kind == "ups":
        events, ws = [], []
        for k, spec in arg:
            e = base.mk_event(spec)
            if k is not None and live:
                i = live[k % len(live)]
                e.id = i
                exp[i] = base.expected(spec)
                data_eq[i] = spec["x"]
                ws.append(wire(spec, i))
            else:
                new_payloads.append(base.expected(spec))
                ws.append(wire(spec))
            events.append(e)
        r, ex = record([6, 1, ws], lambda: bucket.insert(events), lambda r: [0])
        if ex is not None:
            fails.append(("insert-raised", f"bulk insert with ids raised {type(ex).__name__}: {ex}", si))
            return before
    elif kind == "alias":
        objs = [base.mk_event(x) for x in arg[0]]
        events = [objs[j] for j in arg[1]]
        new_payloads = [base.expected(arg[0][j]) for j in arg[1]]
        r, ex = record([6, 1, [wire(arg[0][j]) for j in arg[1]]], lambda: bucket.insert(events), lambda r: [0])
        if ex is not None:
            fails.append(("insert-raised", f"bulk insert raised {type(ex).__name__}: {ex}", si))
            return before
    elif kind == "unread":
        acked = unread_step(env, si, arg, fails)
        if acked is None:
            return before
        new_payloads = [base.expected(x) for x in arg["acks"] + arg["after"]]
    elif kind == "other":
        r, ex = record([5, 2, spec_w(arg)], lambda: ds["b2"].insert(base.mk_event(arg)),
                       lambda r: [1, [ev_w(base.observed(r))]])
        if ex is not None:
            fails.append(("insert-raised", f"insert into the second bucket raised {type(ex).__name__}: {ex}", si))
            return before
    elif kind == "reset":
        record([2, 1], lambda: ds.delete_bucket("b1"), lambda r: [0])
        record([0, 1, base.META_W], lambda: ds.create_bucket("b1", "s1", "s1", "s1", created=base.CREATED) and None,
               lambda r: [5, 1, base.META_W] if env.backend == "sqlite" else [0])
        exp = {}
    else:
        raise ValueError(kind)

    lst, ex = record([11, 1, -1, [], []], lambda: bucket.get(-1), lambda r: [2, [ev_w(base.observed(e)) for e in r]])
    if ex is not None:
        fails.append(("listing-raised", f"get raised {type(ex).__name__}: {ex}", si))
        return before
    obs = [base.observed(e) for e in lst]
    ids = [o[0] for o in obs]
    if len(set(ids)) != len(ids):
        dup = sorted({i for i in ids if ids.count(i) > 1})
        fails.append(("ids-not-unique", f"ids {dup[:5]} name more than one listed event of the bucket", si))
    after = {o[0]: o[1:] for o in obs}
    data_by_id = {e.id: e.data for e in lst}
    if last_cands is not None:
        want = base.expected(arg)
        changed = [i for i in live if after.get(i) != before[i]]
        hit = changed[0] if changed else next((i for i in last_cands if before[i] == want), None)
        if len(changed) > 1 or hit is None or hit not in last_cands:
            fails.append(("replace-last", f"replace_last: events {changed[:4]} changed, the latest instant is held by {last_cands[:4]}", si))
        else:
            exp[hit] = want
            data_eq[hit] = arg["x"]
    for i in sorted(exp):
        if after.get(i) != exp[i]:
            if exp[i] == before.get(i):
                fails.append(("earlier-event-changed", f"event {i} listed as {before[i][:2]} before the step ({kind}) is now "
                              f"{after.get(i, 'missing')}", si))
            else:
                d = (base.payload_diff(exp[i], after[i], None, None) if i in after else None) or ("missing", "not listed")
                fails.append(("replaced-" + d[0], f"event {i} after {kind}: " + d[1], si))
            break
        if i in data_eq and data_by_id[i] != data_eq[i]:
            fails.append(("replaced-data", f"event {i} after {kind}: data is not == to the data written", si))
            break
    if kind == "unread":
        # the ids were handed back: each must still name its event, in the listing and (below) by lookup
        for i, spec in acked:
            if i not in after:
                fails.append(("acknowledged-lost", f"insert returned id {i} (not read back), a later bulk insert failed "
                              f"({arg['fault']}) and the caller went on: the event is no longer listed", si))
                break
            d = base.payload_diff(base.expected(spec), after[i], spec["x"], data_by_id[i])
            if d:
                fails.append(("acknowledged-" + d[0], f"event {i} (acknowledged, not read back, then a failing bulk insert): " + d[1], si))
                break
    fresh = sorted(i for i in after if i not in exp)
    still = [i for i in gone if i in after]
    if still:
        fails.append(("deleted-still-listed", f"event {still[0]} was deleted and is still listed", si))
    elif len(fresh) != len(new_payloads):
        fails.append(("listing-extra" if len(fresh) > len(new_payloads) else "bulk-count",
                      f"{kind}: {len(new_payloads)} event(s) without an id written, ids {fresh[:6]} are new in the listing", si))
    elif sorted(after[i] for i in fresh) != sorted(new_payloads):
        fails.append(("bulk-payload", f"{kind}: the new events {fresh[:6]} do not carry the inserted payloads", si))
    # lookup by id: every listed event, and the deleted one
    for i in sorted(after):
        g, ex = record([10, 1, i], lambda: bucket.get_by_id(i),
                       lambda r: [1, [ev_w(base.observed(r))] if r is not None else []])
        if ex is not None:
            fails.append(("lookup-raised", f"get_by_id({i}) raised {type(ex).__name__}: {ex}", si))
            break
        if g is None:
            fails.append(("lookup-missing", f"get_by_id({i}) returned None for a listed event", si))
            break
        og = base.observed(g)
        if og[0] != i:
            fails.append(("lookup-wrong-id", f"get_by_id({i}) returned an event with id {og[0]}", si))
            break
        if og[1:] != after[i]:
            d = base.payload_diff(after[i], og[1:], None, None) or ("data", "data differs")
            fails.append(("lookup-" + d[0], f"get_by_id({i}) differs from the listing: " + d[1], si))
            break
    for i in gone:
        g, ex = record([10, 1, i], lambda: bucket.get_by_id(i),
                       lambda r: [1, [ev_w(base.observed(r))] if r is not None else []])
        if ex is None and g is not None and i not in after:
            fails.append(("deleted-still-found", f"get_by_id({i}) still returns the deleted event", si))
    return after


def unread_step(env, si, arg, fails):
    """single inserts without a read, a failing bulk insert the caller survives, more single inserts; -> [(id, spec)]
    of the acknowledged inserts, or None when an insert itself failed"""
    from aw_core.models import Event
    from aw_datastore.datastore import Bucket
    record, bucket, ds, ev_w, spec_w = env.record, env.bucket, env.ds, env.ev_w, env.spec_w
    handle = None
    if arg["fault"] == "stale":
        # the watcher's Bucket object outlives its bucket (created and deleted BEFORE the unread inserts: both commit)
        handle, _ = record([0, 3, base.META_W], lambda: ds.create_bucket("gone", "s1", "s1", "s1", created=base.CREATED),
                           lambda r: [5, 3, base.META_W] if env.backend == "sqlite" else [0])
        record([2, 3], lambda: ds.delete_bucket("gone"), lambda r: [0])
    elif arg["fault"] in ("missing", "missing-single"):
        handle = Bucket(ds, "never-existed")
    acked = []

    def one(spec):
        r, ex = record([5, 1, spec_w(spec)], lambda: bucket.insert(base.mk_event(spec)),
                       lambda r: [1, [ev_w(base.observed(r))] if r is not None else []])
        if ex is not None or r is None or r.id is None:
            fails.append(("insert-raised", f"insert raised / returned no id: {ex!r} {r!r}", si))
            return False
        if any(r.id == i for i, _ in acked):
            fails.append(("id-reissued", f"insert returned id {r.id}, which an earlier insert of this run of unread inserts had "
                          f"already been handed (a bulk insert failed in between: {arg['fault']})", si))
        acked.append((r.id, spec))
        return True
    for spec in arg["acks"]:
        if not one(spec):
            return None
    filler = base.mk_event(arg["acks"][0] if arg["acks"] else {"t": T0, "off": 0, "d": 0, "x": {}})
    try:                                    # the fault: not an operation of the property, not sent to the models
        if arg["fault"] == "big-id":
            big = Event(id=2 ** 63, timestamp=filler.timestamp, duration=filler.duration, data={"big": "id"})
            bucket.insert([big])
        elif arg["fault"] == "missing-single":
            handle.insert(filler)           # a SINGLE insert that fails inside the engine
        elif handle is not None:
            handle.insert([filler, base.mk_event({"t": T0 + 1000, "off": 0, "d": 1, "x": {"never": "stored"}})])
    except Exception:  # noqa: BLE001 -- the caller survives the failing batch and goes on
        pass
    for spec in arg["after"]:
        if not one(spec):
            return None
    return acked


# ---------------------------------------------------------------------------


def minimise(backend, steps, si, clause, budget=40):
    """Greedy: drop steps (last first) while a fresh storage still fails the same clause."""
    def run(cand):
        tmp = tempfile.mkdtemp(prefix="awc01-min-")
        try:
            r = base.run_scenario(backend, cand, tmp, 0, collect=False)
        except Exception:  # noqa: BLE001
            return None
        finally:
            shutil.rmtree(tmp, ignore_errors=True)
        hit = [s for c, _, s in r["fails"] if c == clause]
        return hit[0] if hit else None
    cur = list(steps[:si + 1])
    at = run(cur)
    if at is None:
        return steps[:si + 1], si
    cur = cur[:at + 1]
    i = len(cur) - 2
    while i >= 0 and budget > 0:
        cand = cur[:i] + cur[i + 1:]
        budget -= 1
        a = run(cand)
        if a is not None:
            cur, at = cand[:a + 1], a
            i = min(i, len(cur) - 1)
        i -= 1
    return cur, at
