"""C08 (round 3): heartbeat_merge / heartbeat_reduce under HISTORY, through the PACKAGE layer, on LARGE inputs.

heartbeat_* have no registered query function; the layer above the anchored module is the package namespace
(`aw_transform.heartbeat_merge`, `aw_transform.heartbeat_reduce`, what aw-server imports).  Both functions work on
the caller's objects by design (merge returns its first argument with a new duration, reduce pops the head of the
list it is given), so every call of a sequence is judged on the arguments as they are at that call.

Streams added to harness/c08.py (hook: `c08_hist.run(...)` in main)

  package   the boundary grid and seeded random cases through the package-level names.
  session   call sequences in one process on live objects (harness/txhist.py Session): the same objects again
            (as the previous call left them), new ==-equal objects (other ids, look-alike data True / 1 / 1.0), fields
            and data edited in between, elements popped / appended / swapped, the earlier result list emptied, other
            pulsetimes; module and package names mixed.  Every call: the statement (c08.oracle, ids kept) + "an output
            event carries the very data (typed) and id of the input event that starts at its start" + the model.
  big       heartbeat_reduce on >= 10 001 heartbeats: long mergeable runs with a break (other data / a gap beyond the
            pulsetime / a negative duration / a step back in time) every few hundred events, so that any chunked
            walk has mergeable neighbours at every chunk boundary.
usage: python -m harness.c08_hist judge <session.json>
"""
import copy
import importlib
import sys
import time

from . import common
from . import txhist as TX
from .evutil import BASE, ev_unwire, ev_wire, pulse_us

POOL = [{"app": "a", "n": 1}, {"app": "a", "n": 0}, {"app": "b", "n": 1}, {"n": True}, {"app": "a"}, {"m": [1, 0]}, {}]


class Hb:
    """stands in for the module aw_transform.heartbeats in c08.run_impl"""

    def __init__(self, route):
        self.route = route
        self.mod = importlib.import_module("aw_transform.heartbeats" if route == "direct" else "aw_transform")
        self.last = None

    def heartbeat_merge(self, a, b, p):
        self.last = None
        self.last = r = self.mod.heartbeat_merge(a, b, p)
        return r

    def heartbeat_reduce(self, evs, p):
        self.last = None
        self.last = r = self.mod.heartbeat_reduce(evs, p)
        return r


class Runner:
    def __init__(self, ck, c08, Event, hb, labels, have_driver):
        self.ck, self.c08, self.Event, self.hb, self.labels, self.have_driver = ck, c08, Event, hb, labels, have_driver
        self.routes = {"direct": Hb("direct"), "package": Hb("package")}
        self.pending = []
        self.minimised = False

    def verdict(self, kind, p, objs, route):
        """-> (case, output views, first failed clause or None); the case is read off the live objects before the call"""
        c08 = self.c08
        specs = [TX.spec_of(o) for o in objs]
        case = (kind, p, specs)
        try:
            out = c08.run_impl(case, self.Event, self.routes[route], self.labels, objs=objs)
        except Exception as ex:  # noqa: BLE001    the model never raises
            return case, None, f"raises: heartbeat_{kind} raised {type(ex).__name__}: {str(ex)[:100]}"
        bad = c08.oracle(case, out, self.Event, self.hb, self.labels, **({"mk_event": self.mk_event} if getattr(self, "mk_event", None) else {}))
        if not bad and out:
            res = self.routes[route].last
            res = [res] if kind == "merge" else res
            for e in res:
                src = [s for s in specs if s[0] == TX.us_of_dt(e.timestamp) and s[3] == e.id and TX.strict_eq(s[2], e.data)]
                if not src:
                    bad = (f"output data: output event (id={e.id}, data {TX.typed_repr(e.data)}) is not an input event's start, id "
                           f"and very data; inputs {[(s[3], s[0] - BASE, TX.typed_repr(s[2])) for s in specs[:6]]}")
                    break
        return case, out, bad

    def call(self, stream, kind, p, objs, route, replay=None, shrink=None):
        ck, c08 = self.ck, self.c08
        ck.count("stream:" + stream)
        ck.count("route:" + route)
        case, out, bad = self.verdict(kind, p, objs, route)
        evs = case[2]
        rep = replay or (lambda: {"call": kind, "route": route, "pulsetime_s": p,
                                  "events(ts_us,dur_us,data,id)": [(t, d, x, i) for t, d, x, i in evs] if len(evs) < 300 else
                                  {"n": len(evs), "first": evs[:5]}, "impl_output": out if out is None or len(out) < 60 else out[:60]})
        merged_some = out is not None and ((kind == "merge") or len(out) < len(evs))
        ck.note_case([stream, route, kind, pulse_us(p), [(t - BASE, d, TX.typed_repr(x), i) for t, d, x, i in evs[:40]], len(evs)],
                     nontrivial=merged_some)
        if bad:
            d = rep()
            if stream != "session" and (self.verdict(kind, p, TX.build(self.Event, evs), route)[2] or "").split(":")[0] != bad.split(":")[0]:
                bad += TX.HISTORY_NOTE
            elif shrink and (not ck.violations or (stream == "session" and not self.minimised)):
                self.minimised = self.minimised or stream == "session"
                bad, d = shrink(bad, d)
            ck.failing_input("C08:" + bad.split(":")[0], f"[{stream}/{route}] " + bad, d)
            if bad.startswith("raises"):
                return bad
        views = [ev_wire((i, t, d, self.labels.label(x))) for t, d, x, i in evs]
        w = common.sx([0, pulse_us(p), views[0], views[1]]) if kind == "merge" else common.sx([1, pulse_us(p), views])
        self.pending.append((kind, w, out, rep))
        return bad

    def compare_with_model(self):
        if not (self.have_driver and self.pending):
            return
        model = common.run_driver("C08", [w for (_, w, _, _) in self.pending])
        for (kind, w, io, rep), mo in zip(self.pending, model):
            mo_c = None if (kind == "merge" and mo == []) else [ev_unwire(e) for e in mo]
            io_c = None if io is None else [tuple(e) for e in io]
            if mo_c != io_c:
                self.ck.disagreement("heartbeat", f"{kind}: model {str(mo_c)[:300]} impl {str(io_c)[:300]}", rep())


def gen_big(rng, n, p):
    """>= n heartbeats for heartbeat_reduce: runs of several hundred mergeable heartbeats, then a break"""
    P = pulse_us(p)
    step = max(1000, P // 2 // 1000 * 1000)
    labs = [{"app": "a"}, {"app": "b"}, {"app": "a", "n": 1}]
    evs, t, lab = [], BASE, 0
    next_break = rng.randrange(150, 700)
    while len(evs) < n:
        d = rng.choice([0, 1000, step, 2 * step])
        evs.append((t, d, labs[lab], None if len(evs) % 5 else len(evs)))
        if len(evs) == next_break:
            kind = rng.choice(["data", "gap", "negative", "back"])
            if kind == "data":
                lab = (lab + 1) % 3
            elif kind == "gap":
                t += d + P + 1000
            elif kind == "negative":       # a first event of negative duration: the rule refuses to merge into it
                lab = (lab + 1) % 3
                t += 1000
                evs.append((t, -1000, labs[lab], None))
            else:
                t -= 5 * step
            next_break += rng.randrange(150, 900)
        t += rng.choice([0, 1000, step, d + P])       # always inside the window of the running event
    return evs


def run(ck, c08, Event, hb, labels, have_driver, cases):
    t0 = time.time()
    rng = ck.rng
    quick = ck.tier == "quick"
    R = Runner(ck, c08, Event, hb, labels, have_driver)
    TX.make_room(ck)

    # -- the package-level names on the ordinary cases
    share = 4 if quick else 2
    for j, (kind, p, evs) in enumerate(cases):
        if (j * 7919) % share:
            continue
        R.call("package", kind, p, TX.build(Event, [(t, d, x, None) for t, d, x in evs]), "package")

    # -- sessions
    n_sessions = 200 if quick else 8000
    keep_len = ("again", "fresh_equal", "twin_ids", "twin_data", "twin_one", "edit_dur", "edit_data_rebind", "edit_data_inplace",
                "edit_last_later", "swap", "relist", "vandal")
    for _ in range(n_sessions):
        kind = rng.choice(["merge", "reduce", "reduce"])
        p = rng.choice([0, 1, 2, 2.5, 0.001, 5])
        unit = rng.choice([1000, 1_000_000])
        pool = rng.sample(POOL, rng.choice([1, 1, 2, 3]))
        t, specs = 0, []
        for j in range(2 if kind == "merge" else rng.choice([1, 2, 3, 4, 6])):
            t += rng.choice([0, 0, 1, 1, 2, 3, -1])
            specs.append((BASE + t * unit, rng.choice([0, 0, 1, 2, 4, -1]) * unit, copy.deepcopy(rng.choice(pool)), rng.choice([None, None, j])))
        S = TX.Session(Event, {"events": specs}, pool=pool)
        ps = [p]
        for name in S.plan(rng, rng.choice([6, 8, 10]), keep_len if kind == "merge" else None):
            what = S.step(name, rng)
            if what is None:
                continue
            objs = S.lists["events"]
            if kind == "merge" and len(objs) != 2:
                break
            if name == "again" and rng.random() < 0.5:
                ps.append(rng.choice([0, 1, 2, 2.0, 5, 60]))
                what += f"; pulsetime {ps[-1]!r}"
            route = rng.choice(["direct", "package"])
            S.record(name, what, {"route": "direct", "module": "aw_transform.heartbeats" if route == "direct" else "aw_transform",
                                  "name": "heartbeat_" + kind, "unpack": kind == "merge", "via": route}, {"pulsetime": ps[-1]})
            k = len(S.log)

            def shrink(bad, d, S=S, k=k):
                steps, ok = TX.minimise_session(S.log[:k], "harness.c08_hist", bad.split(":")[0])
                return bad, TX.session_replay(steps, ok)
            bad = R.call("session", kind, ps[-1], objs, route, replay=lambda S=S, k=k: S.replay(k), shrink=shrink)
            S.results.append(R.routes[route].last)
            ck.count("session-step:" + name)
            if bad:
                break

    # -- big
    for route, p in ([("direct", 2), ("package", 0.5)] if quick else [("direct", 2), ("package", 0.5), ("direct", 0), ("package", 60)]):
        n = TX.BIG_N + rng.randrange(0, 500) if quick else rng.choice([TX.BIG_N, 30_011])
        specs = [(t, d, x, i) for (t, d, x, i) in gen_big(rng, n, p)]
        ck.count("len>=%d" % TX.BIG_N)

        def shrink(bad, d, specs=specs, p=p, route=route):
            sig = bad.split(":")[0]

            def fails(cand):
                b = R.verdict("reduce", p, TX.build(Event, cand), route)[2]
                return b is not None and b.split(":")[0] == sig
            small = common.shrink_list(specs, fails, max_steps=80)
            case, out, b2 = R.verdict("reduce", p, TX.build(Event, small), route)
            if not (b2 and b2.split(":")[0] == sig):
                return bad, d
            return b2, {"call": "reduce", "route": route, "pulsetime_s": p, "events(ts_us,dur_us,data,id)": small, "impl_output": out}
        R.call("big", "reduce", p, TX.build(Event, specs), route, shrink=shrink)
    from . import c08_edge          # round 5: containers, data dict types, numeric extremes, faults
    try:
        c08_edge.run(R, cases)
    except Exception as ex:  # noqa: BLE001    a tree on which the edge streams cannot even run: the tie is not established
        import traceback
        ck.disagreement("edge streams", f"harness/c08_edge.py could not complete against this tree: {type(ex).__name__}: {str(ex)[:200]}",
                        {"traceback": traceback.format_exc()[-1500:]})
    R.compare_with_model()
    TX.prefer_session_failure(ck)
    ck.coverage["round3"] = {
        "package": "a share of the grid / random cases through aw_transform.heartbeat_merge / heartbeat_reduce (package names)",
        "session": f"{n_sessions} call sequences on live objects (module and package names mixed)",
        "big": f"heartbeat_reduce on >= {TX.BIG_N} heartbeats (mergeable runs with a break every few hundred), both names",
        "wall_s": round(time.time() - t0, 1)}


def session_judge(Event):
    from . import c08
    import aw_transform.heartbeats as hb
    R = Runner(common.Check("C08", ["quick"]), c08, Event, hb, common.Labels(), False)

    def judge(st, args):
        c = st["call"]
        return R.verdict(c["name"][len("heartbeat_"):], st["scalars"]["pulsetime"], args[0], c.get("via", "direct"))[2]
    return judge


if __name__ == "__main__":
    if len(sys.argv) >= 3 and sys.argv[1] == "judge":
        sys.exit(TX.judge_main(sys.argv[2], session_judge))
    if len(sys.argv) >= 3 and sys.argv[1] == "replay":
        sys.exit(TX.replay_main(sys.argv[2]))
    print(__doc__)
