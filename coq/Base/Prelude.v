(* Shared vocabulary of every model: instants and durations are Z microseconds,
   event data is an opaque Z label (one label per Python-== class, assigned by the
   harness), partiality is explicit.  No proofs about models live here; only
   generic helpers. *)
From Coq Require Export ZArith List Bool Lia.
Export ListNotations.
Open Scope Z_scope.

Record event := mkEvent { eid : option Z; ts : Z; dur : Z; data : Z }.

Definition eend (e : event) : Z := ts e + dur e.
Definition set_dur (e : event) (d : Z) : event :=
  {| eid := eid e; ts := ts e; dur := d; data := data e |}.
Definition set_ts (e : event) (t : Z) : event :=
  {| eid := eid e; ts := t; dur := dur e; data := data e |}.
Definition set_data (e : event) (d : Z) : event :=
  {| eid := eid e; ts := ts e; dur := dur e; data := d |}.
Definition set_eid (e : event) (i : option Z) : event :=
  {| eid := i; ts := ts e; dur := dur e; data := data e |}.

(* Python exception classes that a modelled operation may raise. *)
Inductive errclass :=
  | ParseError | InterpretError | FunctionError
  | KeyError | ValueError | IndexError | AttributeError | TypeError
  | IntegrityError | OtherError.

Inductive res (A : Type) :=
  | Ok (a : A)
  | Err (c : errclass)
  | OutOfFuel.
Arguments Ok {A} a.
Arguments Err {A} c.
Arguments OutOfFuel {A}.

Definition bind {A B} (r : res A) (f : A -> res B) : res B :=
  match r with Ok a => f a | Err c => Err c | OutOfFuel => OutOfFuel end.

Definition errclass_code (c : errclass) : Z :=
  match c with
  | ParseError => 1 | InterpretError => 2 | FunctionError => 3
  | KeyError => 4 | ValueError => 5 | IndexError => 6 | AttributeError => 7
  | TypeError => 8 | IntegrityError => 9 | OtherError => 10
  end.

(* Stable insertion sort by a Z key, ascending: Python's sorted(key=...) is a
   stable sort, and all stable sorts agree extensionally. *)
Section Sort.
  Context {A : Type} (key : A -> Z).
  Fixpoint insert_sorted (x : A) (l : list A) : list A :=
    match l with
    | [] => [x]
    | y :: t => if key y <? key x then y :: insert_sorted x t else x :: y :: t
    end.
  (* fold_right inserts the rightmost element first and every later insertion
     goes in front of equal keys, so equal keys stay in input order (stable) *)
  Definition sort_by (l : list A) : list A := fold_right insert_sorted [] l.
End Sort.

Definition sumZ (l : list Z) : Z := fold_right Z.add 0 l.

Definition option_eqb {A} (eqb : A -> A -> bool) (a b : option A) : bool :=
  match a, b with
  | Some x, Some y => eqb x y
  | None, None => true
  | _, _ => false
  end.

Definition event_eqb (a b : event) : bool :=
  option_eqb Z.eqb (eid a) (eid b) && (ts a =? ts b) && (dur a =? dur b) && (data a =? data b).
