(* The wire format between the harness and the extracted models: s-expressions of
   integers.  One case per line in, one result per line out.  Decoders return
   option; the driver prints (-999) for an undecodable case so that a harness bug
   cannot be mistaken for agreement. *)
From AwVerif Require Import Base.Prelude.

Inductive sexp := A (z : Z) | L (l : list sexp).

Definition sZ (s : sexp) : option Z := match s with A z => Some z | L _ => None end.
Definition sL (s : sexp) : option (list sexp) := match s with L l => Some l | A _ => None end.

Fixpoint opt_all {X} (l : list (option X)) : option (list X) :=
  match l with
  | [] => Some []
  | None :: _ => None
  | Some x :: t => match opt_all t with Some r => Some (x :: r) | None => None end
  end.

Definition sList {X} (f : sexp -> option X) (s : sexp) : option (list X) :=
  match s with L l => opt_all (map f l) | A _ => None end.

Definition sZs : sexp -> option (list Z) := sList sZ.

(* option Z on the wire: () = None, (z) = Some z *)
Definition sOptZ (s : sexp) : option (option Z) :=
  match s with
  | L [] => Some None
  | L [A z] => Some (Some z)
  | _ => None
  end.
Definition optZ_s (o : option Z) : sexp :=
  match o with None => L [] | Some z => L [A z] end.

(* event on the wire: (id? ts dur data) with id? as above *)
Definition sEvent (s : sexp) : option event :=
  match s with
  | L [i; A t; A d; A x] =>
      match sOptZ i with Some oi => Some (mkEvent oi t d x) | None => None end
  | _ => None
  end.
Definition event_s (e : event) : sexp :=
  L [optZ_s (eid e); A (ts e); A (dur e); A (data e)].
Definition sEvents : sexp -> option (list event) := sList sEvent.
Definition events_s (l : list event) : sexp := L (map event_s l).

Definition bool_s (b : bool) : sexp := A (if b then 1 else 0).
Definition sBool (s : sexp) : option bool :=
  match s with A 0 => Some false | A 1 => Some true | _ => None end.

Definition bad_case : sexp := L [A (-999)].

Definition res_s {X} (f : X -> sexp) (r : res X) : sexp :=
  match r with
  | Ok x => L [A 0; f x]
  | Err c => L [A 1; A (errclass_code c)]
  | OutOfFuel => L [A 2]
  end.
