(* Driver entry for C10: cases
     (0 p (events))           -> flood            : ((events) (branch ids of the walk))
     (1 p ws wu e1 e2)        -> flood_step       : (e1' e2' ws' wu')
   Compiled from build/C10 so that model.ml lands there. *)
From AwVerif Require Import Base.Prelude Base.Sexp Model.Flood.
Require Extraction.
Require Import ExtrOcamlBasic.

Definition driver_entry (s : sexp) : sexp :=
  match s with
  | L [A 0; A p; evs] =>
      match sEvents evs with
      | Some evs => L [events_s (flood evs p); L (map A (flood_branches evs p))]
      | None => bad_case
      end
  | L [A 1; A p; ws; wu; e1; e2] =>
      match sBool ws, sBool wu, sEvent e1, sEvent e2 with
      | Some ws, Some wu, Some e1, Some e2 =>
          let '((a, b), (ws', wu')) := flood_step p ws wu e1 e2 in
          L [event_s a; event_s b; bool_s ws'; bool_s wu']
      | _, _, _, _ => bad_case
      end
  | _ => bad_case
  end.

Extraction "model.ml" driver_entry.
