(* Driver entry for C16.  Events on the wire: (id? ts dur ((k v) ...)).  Cases
     (0 (keys) (events))            -> merge_events_by_keys : (events)
     (1 key pulse (events))         -> chunk_events_by_key  : ((cts cdur cval (events)) ...)
     (2 (events))                   -> sort_by_timestamp    : (events)
     (3 (events))                   -> sort_by_duration     : (events)
     (4 count (events))             -> limit_events         : (events)
     (5 (events))                   -> sum_durations        : z
     (6 (events) (events))          -> concat               : (events)
     (7 key (vals) excl (events))   -> filter_keyvals       : (events)
   Compiled from build/C16 so that model.ml lands there. *)
From AwVerif Require Import Base.Prelude Base.Sexp Model.Group.
Require Extraction.
Require Import ExtrOcamlBasic.

Definition sPair (s : sexp) : option (Z * Z) :=
  match s with L [A k; A v] => Some (k, v) | _ => None end.
Definition pair_s (p : Z * Z) : sexp := L [A (fst p); A (snd p)].

Definition sGev (s : sexp) : option gev :=
  match s with
  | L [i; A t; A d; x] =>
      match sOptZ i, sList sPair x with
      | Some oi, Some dd => Some (mkG oi t d dd)
      | _, _ => None
      end
  | _ => None
  end.
Definition gev_s (e : gev) : sexp :=
  L [optZ_s (gid e); A (gts e); A (gdur e); L (map pair_s (gdata e))].
Definition sGevs : sexp -> option (list gev) := sList sGev.
Definition gevs_s (l : list gev) : sexp := L (map gev_s l).

Definition chunk_s (c : chunk) : sexp :=
  L [A (cts c); A (cdur c); A (cval c); gevs_s (csub c)].

Definition driver_entry (s : sexp) : sexp :=
  match s with
  | L [A 0; keys; evs] =>
      match sZs keys, sGevs evs with
      | Some keys, Some evs => gevs_s (merge_events_by_keys evs keys)
      | _, _ => bad_case
      end
  | L [A 1; A key; A pulse; evs] =>
      match sGevs evs with
      | Some evs => L (map chunk_s (chunk_events_by_key evs key pulse))
      | None => bad_case
      end
  | L [A 2; evs] =>
      match sGevs evs with Some evs => gevs_s (sort_by_timestamp evs) | None => bad_case end
  | L [A 3; evs] =>
      match sGevs evs with Some evs => gevs_s (sort_by_duration evs) | None => bad_case end
  | L [A 4; A count; evs] =>
      match sGevs evs with Some evs => gevs_s (limit_events evs count) | None => bad_case end
  | L [A 5; evs] =>
      match sGevs evs with Some evs => A (sum_durations evs) | None => bad_case end
  | L [A 6; e1; e2] =>
      match sGevs e1, sGevs e2 with
      | Some e1, Some e2 => gevs_s (concat_events e1 e2)
      | _, _ => bad_case
      end
  | L [A 7; A key; vals; excl; evs] =>
      match sZs vals, sBool excl, sGevs evs with
      | Some vals, Some excl, Some evs => gevs_s (filter_keyvals evs key vals excl)
      | _, _, _ => bad_case
      end
  | _ => bad_case
  end.

Extraction "model.ml" driver_entry.
