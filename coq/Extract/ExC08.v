(* Driver entry for C08: cases
     (0 p l h)        -> heartbeat_merge      : () | (event)
     (1 p (events))   -> heartbeat_reduce     : (events)
   Compiled from build/C08 so that model.ml lands there. *)
From AwVerif Require Import Base.Prelude Base.Sexp Model.Heartbeat.
Require Extraction.
Require Import ExtrOcamlBasic.

Definition driver_entry (s : sexp) : sexp :=
  match s with
  | L [A 0; A p; l; h] =>
      match sEvent l, sEvent h with
      | Some l, Some h =>
          match heartbeat_merge l h p with Some m => L [event_s m] | None => L [] end
      | _, _ => bad_case
      end
  | L [A 1; A p; evs] =>
      match sEvents evs with
      | Some evs => events_s (heartbeat_reduce evs p)
      | None => bad_case
      end
  | _ => bad_case
  end.

Extraction "model.ml" driver_entry.
