(* Driver entry for C09: cases
     (0 (events) (filterevents))        -> filter_period_intersect : res (events)
     (1 empty (events1) (events2))      -> period_union            : res (events)
     (2 (events) (filterevents))        -> branch trace of the sweep : (codes)
     (3 s1 e1 s2 e2)                    -> Timeslot.intersection   : () | ((s e))
     (4 s1 e1 s2 e2)                    -> Timeslot.gap            : () | ((s e))
     (5 s1 e1 s2 e2)                    -> Timeslot.union          : res (s e)
     (6 s1 e1 s2 e2)                    -> (contains overlaps adjacent duration-of-first)
   Compiled from build/C09 so that model.ml lands there. *)
From AwVerif Require Import Base.Prelude Base.Sexp Model.Timeslot Model.Intersect.
Require Extraction.
Require Import ExtrOcamlBasic.

Definition slot_s (p : timeslot) : sexp := L [A (tstart p); A (tend p)].
Definition optslot_s (o : option timeslot) : sexp :=
  match o with None => L [] | Some p => L [slot_s p] end.

Definition driver_entry (s : sexp) : sexp :=
  match s with
  | L [A 0; a; b] =>
      match sEvents a, sEvents b with
      | Some a, Some b => res_s events_s (filter_period_intersect a b)
      | _, _ => bad_case
      end
  | L [A 1; A empty; a; b] =>
      match sEvents a, sEvents b with
      | Some a, Some b => res_s events_s (period_union empty a b)
      | _, _ => bad_case
      end
  | L [A 2; a; b] =>
      match sEvents a, sEvents b with
      | Some a, Some b => L (map A (intersect_branches a b))
      | _, _ => bad_case
      end
  | L [A 3; A s1; A e1; A s2; A e2] => optslot_s (slot_intersection (mkSlot s1 e1) (mkSlot s2 e2))
  | L [A 4; A s1; A e1; A s2; A e2] => optslot_s (slot_gap (mkSlot s1 e1) (mkSlot s2 e2))
  | L [A 5; A s1; A e1; A s2; A e2] => res_s slot_s (slot_union (mkSlot s1 e1) (mkSlot s2 e2))
  | L [A 6; A s1; A e1; A s2; A e2] =>
      let p := mkSlot s1 e1 in
      let q := mkSlot s2 e2 in
      L [bool_s (slot_contains p q); bool_s (slot_overlaps p q); bool_s (slot_adjacent p q);
         A (slot_duration p)]
  | _ => bad_case
  end.

Extraction "model.ml" driver_entry.
