(* Driver entry for the heap-level transforms (Model/TransformHeap.v), shared by C10, C15
   and C09 (harness/theap.py).  One case = a heap and a call:
     (0 heap L pt)      flood(L, pt)
     (1 heap L1 L2)     union_no_overlap(L1, L2)
     (2 heap L1 L2)     filter_period_intersect(L1, L2)
     (3 heap L1 L2)     period_union(L1, L2)
   heap = (cell ...), location = index;  cell = (0 id? ts dur (kid ...)) an Event
                                              | (1 payload (kid ...))   a dict / list
   Result: (0 (heap' L')) | (1 errcode) | (2)     L' = location of the returned list.

   C16 (Model/GroupHeap.v; task B8).  Data dicts with structure travel as skeletons
     cell = (2 (entry ...) (kid ...))   entry = (key 1 scalar-label) | (key 0)  [0: next kid]
   and are turned into / printed back from the payload code of Model/DictHeap.v here (a
   payload below -10 is such a code).  Calls:
     (10 heap L)                       sort_by_timestamp
     (11 heap L)                       sort_by_duration
     (12 heap L count)                 limit_events
     (13 heap L1 L2)                   concat
     (14 heap L key (val ...) excl)    filter_keyvals (excl = 0/1)
     (15 heap L (key ...))             merge_events_by_keys
     (16 heap L key pulse sub_key)     chunk_events_by_key (pulse in us)
     (17 heap L)                       sum_durations          -> (0 sum) | (1 errcode) *)
From AwVerif Require Import Base.Prelude Base.Sexp Model.MemHeap Model.Timeslot Model.TransformHeap
  Model.DictHeap Model.GroupHeap.
From Coq Require Import Arith.
Require Extraction.
Require Import ExtrOcamlBasic.

Definition nat_of (z : Z) : nat := Z.to_nat z.
Definition loc_s (l : loc) : sexp := A (Z.of_nat l).

Definition sLocs (x : sexp) : option (list loc) :=
  match sZs x with Some zs => Some (map nat_of zs) | None => None end.

Definition sEntry (x : sexp) : option hentry :=
  match x with
  | L [A k; A 1; A v] => Some (k, Some v)
  | L [A k; A 0] => Some (k, None)
  | _ => None
  end.

Definition entry_s (e : hentry) : sexp :=
  match e with
  | (k, Some v) => L [A k; A 1; A v]
  | (k, None) => L [A k; A 0]
  end.

Definition sCell (x : sexp) : option cell :=
  match x with
  | L [A 0; i; A t; A d; ks] =>
      match sOptZ i, sLocs ks with
      | Some oi, Some ks => Some (Cell (TEv oi t d) ks)
      | _, _ => None
      end
  | L [A 1; A p; ks] =>
      match sLocs ks with Some ks => Some (Cell (TNode p) ks) | None => None end
  | L [A 2; sk; ks] =>
      match sList sEntry sk, sLocs ks with
      | Some d, Some ks => Some (Cell (TNode (denc d)) ks)
      | _, _ => None
      end
  | _ => None
  end.

Definition cell_s (c : cell) : sexp :=
  match c with
  | Cell (TEv i t d) ks => L [A 0; optZ_s i; A t; A d; L (map loc_s ks)]
  | Cell (TNode p) ks =>
      if p <? -10 then L [A 2; L (map entry_s (ddec p)); L (map loc_s ks)]
      else L [A 1; A p; L (map loc_s ks)]
  end.

Definition sHeap : sexp -> option heap := sList sCell.
Definition heap_s (h : heap) : sexp := L (map cell_s h).

Definition out_s (r : res (heap * loc)) : sexp :=
  res_s (fun hl => L [heap_s (fst hl); loc_s (snd hl)]) r.

Definition driver_entry (s : sexp) : sexp :=
  match s with
  | L [A 0; hp; A l; A pt] =>
      match sHeap hp with
      | Some h => out_s (flood_h h (nat_of l) pt)
      | None => bad_case
      end
  | L [A 1; hp; A l1; A l2] =>
      match sHeap hp with
      | Some h => out_s (union_no_overlap_h h (nat_of l1) (nat_of l2))
      | None => bad_case
      end
  | L [A 2; hp; A l1; A l2] =>
      match sHeap hp with
      | Some h => out_s (filter_period_intersect_h h (nat_of l1) (nat_of l2))
      | None => bad_case
      end
  | L [A 3; hp; A l1; A l2] =>
      match sHeap hp with
      | Some h => out_s (period_union_h h (nat_of l1) (nat_of l2))
      | None => bad_case
      end
  | L [A 10; hp; A l] =>
      match sHeap hp with
      | Some h => out_s (sort_by_timestamp_h h (nat_of l))
      | None => bad_case
      end
  | L [A 11; hp; A l] =>
      match sHeap hp with
      | Some h => out_s (sort_by_duration_h h (nat_of l))
      | None => bad_case
      end
  | L [A 12; hp; A l; A c] =>
      match sHeap hp with
      | Some h => out_s (limit_events_h h (nat_of l) c)
      | None => bad_case
      end
  | L [A 13; hp; A l1; A l2] =>
      match sHeap hp with
      | Some h => out_s (concat_h h (nat_of l1) (nat_of l2))
      | None => bad_case
      end
  | L [A 14; hp; A l; A key; vals; A excl] =>
      match sHeap hp, sZs vals with
      | Some h, Some vs => out_s (filter_keyvals_h h (nat_of l) key vs (negb (excl =? 0)))
      | _, _ => bad_case
      end
  | L [A 15; hp; A l; keys] =>
      match sHeap hp, sZs keys with
      | Some h, Some ks => out_s (merge_events_by_keys_h h (nat_of l) ks)
      | _, _ => bad_case
      end
  | L [A 16; hp; A l; A key; A pulse; A sub] =>
      match sHeap hp with
      | Some h => out_s (chunk_events_by_key_h sub h (nat_of l) key pulse)
      | None => bad_case
      end
  | L [A 17; hp; A l] =>
      match sHeap hp with
      | Some h => res_s (fun z => A z) (sum_durations_h h (nat_of l))
      | None => bad_case
      end
  | _ => bad_case
  end.

Extraction "model.ml" driver_entry.
