(* Driver entry for the heap-level transforms (Model/TransformHeap.v), shared by C10, C15
   and C09 (harness/theap.py).  One case = a heap and a call:
     (0 heap L pt)      flood(L, pt)
     (1 heap L1 L2)     union_no_overlap(L1, L2)
     (2 heap L1 L2)     filter_period_intersect(L1, L2)
     (3 heap L1 L2)     period_union(L1, L2)
   heap = (cell ...), location = index;  cell = (0 id? ts dur (kid ...)) an Event
                                              | (1 payload (kid ...))   a dict / list
   Result: (0 (heap' L')) | (1 errcode) | (2)     L' = location of the returned list.

   C16 (Model/GroupHeap.v; task B8).  Data dicts with structure travel as skeletons
     cell = (2 (entry ...) (kid ...))   entry = (key 1 scalar-label) | (key 0)  [0: next kid]
   and are turned into / printed back from the payload code of Model/DictHeap.v here (a
   payload below -10 is such a code).  Calls:
     (10 heap L)                       sort_by_timestamp
     (11 heap L)                       sort_by_duration
     (12 heap L count)                 limit_events
     (13 heap L1 L2)                   concat
     (14 heap L key (val ...) excl)    filter_keyvals (excl = 0/1)
     (15 heap L (key ...))             merge_events_by_keys
     (16 heap L key pulse sub_key)     chunk_events_by_key (pulse in us)
     (17 heap L)                       sum_durations          -> (0 sum) | (1 errcode)
     (18 heap L key compiled fatab)    filter_keyvals_regex (Model/FilterRegexHeap.v; run by C12's check);
                                       compiled = 0/1: re.compile(regex) returned; fatab = ((label 0 b) |
                                       (label 1 errcode) ...): bool(r.findall(v)) per value label, b = 0/1;
                                       a label that is not listed is not a str: TypeError

   C19 (Model/ClassifyHeap.v).  Scalar labels in data dicts: 2*s = the string s, 2*l+1 = any
   other immutable value l; a list of strings is the cell (2 ((s 1 0) ...) ()).  Engine
   tables and rulespec as in Extract/ExC19.v (values there: (0 s) | (1 l) | (2 (s ...))).
     (20 heap L retab ((catloc rulespec) ...))   categorize; catloc = location of the category list
     (21 heap L retab ((tag rulespec) ...))      tag; tag = string label
     (22 heap L urltab wwwtab)                   split_url_events
     (23 heap L subtab key)                      simplify_string
   20..22 mutate in place: (0 (heap' L')) | (1 errcode heap') [the heap reached when it raised] | (2) *)
From AwVerif Require Import Base.Prelude Base.Sexp Model.MemHeap Model.Timeslot Model.TransformHeap
  Model.DictHeap Model.GroupHeap Model.ClassifyBase Model.Classify Model.ClassifyHeap Model.FilterRegexHeap.
From Coq Require Import Arith.
Require Extraction.
Require Import ExtrOcamlBasic.

Definition nat_of (z : Z) : nat := Z.to_nat z.
Definition loc_s (l : loc) : sexp := A (Z.of_nat l).

Definition sLocs (x : sexp) : option (list loc) :=
  match sZs x with Some zs => Some (map nat_of zs) | None => None end.

Definition sEntry (x : sexp) : option hentry :=
  match x with
  | L [A k; A 1; A v] => Some (k, Some v)
  | L [A k; A 0] => Some (k, None)
  | _ => None
  end.

Definition entry_s (e : hentry) : sexp :=
  match e with
  | (k, Some v) => L [A k; A 1; A v]
  | (k, None) => L [A k; A 0]
  end.

Definition sCell (x : sexp) : option cell :=
  match x with
  | L [A 0; i; A t; A d; ks] =>
      match sOptZ i, sLocs ks with
      | Some oi, Some ks => Some (Cell (TEv oi t d) ks)
      | _, _ => None
      end
  | L [A 1; A p; ks] =>
      match sLocs ks with Some ks => Some (Cell (TNode p) ks) | None => None end
  | L [A 2; sk; ks] =>
      match sList sEntry sk, sLocs ks with
      | Some d, Some ks => Some (Cell (TNode (denc d)) ks)
      | _, _ => None
      end
  | _ => None
  end.

Definition cell_s (c : cell) : sexp :=
  match c with
  | Cell (TEv i t d) ks => L [A 0; optZ_s i; A t; A d; L (map loc_s ks)]
  | Cell (TNode p) ks =>
      if p <? -10 then L [A 2; L (map entry_s (ddec p)); L (map loc_s ks)]
      else L [A 1; A p; L (map loc_s ks)]
  end.

Definition sHeap : sexp -> option heap := sList sCell.
Definition heap_s (h : heap) : sexp := L (map cell_s h).

Definition out_s (r : res (heap * loc)) : sexp :=
  res_s (fun hl => L [heap_s (fst hl); loc_s (snd hl)]) r.


(* ---- C19: wire decoders of the engine tables, as in Extract/ExC19.v ---- *)
Definition sValue (s : sexp) : option value :=
  match s with
  | L [A 0; A x] => Some (VStr x)
  | L [A 1; A x] => Some (VOther x)
  | L [A 2; l] => match sZs l with Some l => Some (VList l) | None => None end
  | _ => None
  end.
Definition value_s (v : value) : sexp :=
  match v with
  | VStr x => L [A 0; A x]
  | VOther x => L [A 1; A x]
  | VList l => L [A 2; L (map A l)]
  end.

Definition sSpec (s : sexp) : option rulespec :=
  match s with
  | L [rx; sel; ic] =>
      match sOptZ rx, sBool ic with
      | Some rx, Some ic =>
          match sel with
          | L [] => Some (mkSpec rx None ic)
          | L [ks] => match sZs ks with Some ks => Some (mkSpec rx (Some ks) ic) | None => None end
          | _ => None
          end
      | _, _ => None
      end
  | _ => None
  end.

(* ---- tables ---- *)
Definition value_eqb (a b : value) : bool :=
  match a, b with
  | VStr x, VStr y => x =? y
  | VOther x, VOther y => x =? y
  | VList x, VList y => (Z.of_nat (length x) =? Z.of_nat (length y)) && forallb (fun p => fst p =? snd p) (combine x y)
  | _, _ => false
  end.

Definition rerow := (Z * bool * Z * bool)%type.
Definition sReRow (s : sexp) : option rerow :=
  match s with
  | L [A p; ic; A x; b] =>
      match sBool ic, sBool b with Some ic, Some b => Some (p, ic, x, b) | _, _ => None end
  | _ => None
  end.
Fixpoint re_lookup (t : list rerow) (p : Z) (ic : bool) (x : Z) : option bool :=
  match t with
  | [] => None
  | (p', ic', x', b) :: r =>
      if (p' =? p) && Bool.eqb ic' ic && (x' =? x) then Some b else re_lookup r p ic x
  end.
Definition re_of (t : list rerow) (p : Z) (ic : bool) (x : Z) : bool :=
  match re_lookup t p ic x with Some b => b | None => false end.

Definition sParts (s : sexp) : option urlparts :=
  match s with
  | L [a; b; c; d; e; f] =>
      match sValue a, sValue b, sValue c, sValue d, sValue e, sValue f with
      | Some a, Some b, Some c, Some d, Some e, Some f => Some (mkUrl a b c d e f)
      | _, _, _, _, _, _ => None
      end
  | _ => None
  end.
Definition err_of_code (c : Z) : errclass :=
  match c with
  | 4 => KeyError | 5 => ValueError | 6 => IndexError | 7 => AttributeError | 8 => TypeError
  | _ => OtherError
  end.
Definition sUrlRow (s : sexp) : option (value * res urlparts) :=
  match s with
  | L [v; L [A 0; p]] =>
      match sValue v, sParts p with Some v, Some p => Some (v, Ok p) | _, _ => None end
  | L [v; L [A 1; A c]] =>
      match sValue v with Some v => Some (v, Err (err_of_code c)) | None => None end
  | _ => None
  end.
Fixpoint url_lookup (t : list (value * res urlparts)) (v : value) : option (res urlparts) :=
  match t with
  | [] => None
  | (v', r) :: rest => if value_eqb v' v then Some r else url_lookup rest v
  end.
Definition url_of (t : list (value * res urlparts)) (v : value) : res urlparts :=
  match url_lookup t v with Some r => r | None => Err OtherError end.

Definition sWwwRow (s : sexp) : option (value * bool * value) :=
  match s with
  | L [v; b; w] =>
      match sValue v, sBool b, sValue w with
      | Some v, Some b, Some w => Some (v, b, w)
      | _, _, _ => None
      end
  | _ => None
  end.
Fixpoint www_lookup (t : list (value * bool * value)) (v : value) : option (bool * value) :=
  match t with
  | [] => None
  | (v', b, w) :: rest => if value_eqb v' v then Some (b, w) else www_lookup rest v
  end.
Definition www_of t v : bool := match www_lookup t v with Some (b, _) => b | None => false end.
Definition drop4_of t v : value := match www_lookup t v with Some (_, w) => w | None => VOther (-1) end.
Definition sSubRow (s : sexp) : option (Z * (Z * Z * Z)) :=
  match s with
  | L [A x; A p; A f; A d] => Some (x, (p, f, d))
  | _ => None
  end.
Fixpoint sub_lookup (t : list (Z * (Z * Z * Z))) (x : Z) : option (Z * Z * Z) :=
  match t with
  | [] => None
  | (x', r) :: rest => if x' =? x then Some r else sub_lookup rest x
  end.
Definition sub1 t x := match sub_lookup t x with Some (p, _, _) => p | None => -1 end.
Definition sub2 t x := match sub_lookup t x with Some (_, f, _) => f | None => -1 end.
Definition sub3 t x := match sub_lookup t x with Some (_, _, d) => d | None => -1 end.

Definition init_classes {C} (l : list (C * rulespec)) : list (C * rule) :=
  map (fun cr => (fst cr, rule_init (snd cr))) l.


Definition sCatLocClass (s : sexp) : option (loc * rulespec) :=
  match s with
  | L [A c; r] => match sSpec r with Some r => Some (nat_of c, r) | None => None end
  | _ => None
  end.
Definition sTagClass (s : sexp) : option (Z * rulespec) :=
  match s with
  | L [A t; r] => match sSpec r with Some r => Some (t, r) | None => None end
  | _ => None
  end.

(* ---- filter_keyvals_regex: the engine table ---- *)
Definition sFaRow (s : sexp) : option (Z * res bool) :=
  match s with
  | L [A q; A 0; A b] => Some (q, Ok (negb (b =? 0)))
  | L [A q; A 1; A c] => Some (q, Err (err_of_code c))
  | _ => None
  end.
Fixpoint fa_lookup (t : list (Z * res bool)) (q : Z) : option (res bool) :=
  match t with
  | [] => None
  | (q', r) :: rest => if q' =? q then Some r else fa_lookup rest q
  end.
Definition fa_of (t : list (Z * res bool)) (q : Z) : res bool :=
  match fa_lookup t q with Some r => r | None => Err TypeError end.

(* in-place transforms: the heap reached travels with the outcome *)
Definition outh_s (r : heap * res loc) : sexp :=
  match snd r with
  | Ok l => L [A 0; L [heap_s (fst r); loc_s l]]
  | Err c => L [A 1; A (errclass_code c); heap_s (fst r)]
  | OutOfFuel => L [A 2]
  end.

Definition driver_entry (s : sexp) : sexp :=
  match s with
  | L [A 0; hp; A l; A pt] =>
      match sHeap hp with
      | Some h => out_s (flood_h h (nat_of l) pt)
      | None => bad_case
      end
  | L [A 1; hp; A l1; A l2] =>
      match sHeap hp with
      | Some h => out_s (union_no_overlap_h h (nat_of l1) (nat_of l2))
      | None => bad_case
      end
  | L [A 2; hp; A l1; A l2] =>
      match sHeap hp with
      | Some h => out_s (filter_period_intersect_h h (nat_of l1) (nat_of l2))
      | None => bad_case
      end
  | L [A 3; hp; A l1; A l2] =>
      match sHeap hp with
      | Some h => out_s (period_union_h h (nat_of l1) (nat_of l2))
      | None => bad_case
      end
  | L [A 10; hp; A l] =>
      match sHeap hp with
      | Some h => out_s (sort_by_timestamp_h h (nat_of l))
      | None => bad_case
      end
  | L [A 11; hp; A l] =>
      match sHeap hp with
      | Some h => out_s (sort_by_duration_h h (nat_of l))
      | None => bad_case
      end
  | L [A 12; hp; A l; A c] =>
      match sHeap hp with
      | Some h => out_s (limit_events_h h (nat_of l) c)
      | None => bad_case
      end
  | L [A 13; hp; A l1; A l2] =>
      match sHeap hp with
      | Some h => out_s (concat_h h (nat_of l1) (nat_of l2))
      | None => bad_case
      end
  | L [A 14; hp; A l; A key; vals; A excl] =>
      match sHeap hp, sZs vals with
      | Some h, Some vs => out_s (filter_keyvals_h h (nat_of l) key vs (negb (excl =? 0)))
      | _, _ => bad_case
      end
  | L [A 15; hp; A l; keys] =>
      match sHeap hp, sZs keys with
      | Some h, Some ks => out_s (merge_events_by_keys_h h (nat_of l) ks)
      | _, _ => bad_case
      end
  | L [A 16; hp; A l; A key; A pulse; A sub] =>
      match sHeap hp with
      | Some h => out_s (chunk_events_by_key_h sub h (nat_of l) key pulse)
      | None => bad_case
      end
  | L [A 17; hp; A l] =>
      match sHeap hp with
      | Some h => res_s (fun z => A z) (sum_durations_h h (nat_of l))
      | None => bad_case
      end
  | L [A 18; hp; A l; A key; A c; ft] =>
      match sHeap hp, sList sFaRow ft with
      | Some h, Some ft => out_s (filter_keyvals_regex_h (negb (c =? 0)) (fa_of ft) h (nat_of l) key)
      | _, _ => bad_case
      end
  | L [A 20; hp; A l; rt; cls] =>
      match sHeap hp, sList sReRow rt, sList sCatLocClass cls with
      | Some h, Some rt, Some cls =>
          outh_s (categorize_h (re_of rt) h (nat_of l) (init_classes cls))
      | _, _, _ => bad_case
      end
  | L [A 21; hp; A l; rt; cls] =>
      match sHeap hp, sList sReRow rt, sList sTagClass cls with
      | Some h, Some rt, Some cls =>
          outh_s (tag_h (re_of rt) h (nat_of l) (init_classes cls))
      | _, _, _ => bad_case
      end
  | L [A 22; hp; A l; ut; wt] =>
      match sHeap hp, sList sUrlRow ut, sList sWwwRow wt with
      | Some h, Some ut, Some wt =>
          outh_s (split_url_events_h (url_of ut) (www_of wt) (drop4_of wt) h (nat_of l))
      | _, _, _ => bad_case
      end
  | L [A 23; hp; A l; st; A key] =>
      match sHeap hp, sList sSubRow st with
      | Some h, Some st => out_s (simplify_string_h (sub1 st) (sub2 st) (sub3 st) h (nat_of l) key)
      | _, _ => bad_case
      end
  | _ => bad_case
  end.

Extraction "model.ml" driver_entry.
