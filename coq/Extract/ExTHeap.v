(* Driver entry for the heap-level transforms (Model/TransformHeap.v), shared by C10, C15
   and C09 (harness/theap.py).  One case = a heap and a call:
     (0 heap L pt)      flood(L, pt)
     (1 heap L1 L2)     union_no_overlap(L1, L2)
     (2 heap L1 L2)     filter_period_intersect(L1, L2)
     (3 heap L1 L2)     period_union(L1, L2)
   heap = (cell ...), location = index;  cell = (0 id? ts dur (kid ...)) an Event
                                              | (1 payload (kid ...))   a dict / list
   Result: (0 (heap' L')) | (1 errcode) | (2)     L' = location of the returned list. *)
From AwVerif Require Import Base.Prelude Base.Sexp Model.MemHeap Model.Timeslot Model.TransformHeap.
From Coq Require Import Arith.
Require Extraction.
Require Import ExtrOcamlBasic.

Definition nat_of (z : Z) : nat := Z.to_nat z.
Definition loc_s (l : loc) : sexp := A (Z.of_nat l).

Definition sLocs (x : sexp) : option (list loc) :=
  match sZs x with Some zs => Some (map nat_of zs) | None => None end.

Definition sCell (x : sexp) : option cell :=
  match x with
  | L [A 0; i; A t; A d; ks] =>
      match sOptZ i, sLocs ks with
      | Some oi, Some ks => Some (Cell (TEv oi t d) ks)
      | _, _ => None
      end
  | L [A 1; A p; ks] =>
      match sLocs ks with Some ks => Some (Cell (TNode p) ks) | None => None end
  | _ => None
  end.

Definition cell_s (c : cell) : sexp :=
  match c with
  | Cell (TEv i t d) ks => L [A 0; optZ_s i; A t; A d; L (map loc_s ks)]
  | Cell (TNode p) ks => L [A 1; A p; L (map loc_s ks)]
  end.

Definition sHeap : sexp -> option heap := sList sCell.
Definition heap_s (h : heap) : sexp := L (map cell_s h).

Definition out_s (r : res (heap * loc)) : sexp :=
  res_s (fun hl => L [heap_s (fst hl); loc_s (snd hl)]) r.

Definition driver_entry (s : sexp) : sexp :=
  match s with
  | L [A 0; hp; A l; A pt] =>
      match sHeap hp with
      | Some h => out_s (flood_h h (nat_of l) pt)
      | None => bad_case
      end
  | L [A 1; hp; A l1; A l2] =>
      match sHeap hp with
      | Some h => out_s (union_no_overlap_h h (nat_of l1) (nat_of l2))
      | None => bad_case
      end
  | L [A 2; hp; A l1; A l2] =>
      match sHeap hp with
      | Some h => out_s (filter_period_intersect_h h (nat_of l1) (nat_of l2))
      | None => bad_case
      end
  | L [A 3; hp; A l1; A l2] =>
      match sHeap hp with
      | Some h => out_s (period_union_h h (nat_of l1) (nat_of l2))
      | None => bad_case
      end
  | _ => bad_case
  end.

Extraction "model.ml" driver_entry.
