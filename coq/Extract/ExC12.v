(* Driver entry for C12 and the C01 ownership check: one case = one history
     ((op ...) (op ...) ...)  ->  ((obs) (obs) ...)       one observation per op.

   A reference to a caller object is (handle i1 i2 ...): the handle-th root the caller
   holds, then child indices.  Ops:
     (0 b p ref?)            create_bucket      ref? = () or (ref)
     (1 b p? ref?)           update_bucket
     (2 b)                   delete_bucket
     (3 b)                   get_metadata       -> new handle
     (4)                     buckets            -> new handle
     (5 b ref)               insert_one         -> new handle
     (6 b (ref ...))         insert_many
     (7 b id ref)            replace
     (8 b ref)               replace_last
     (9 b id)                get_event          -> new handle unless None
     (10 b limit st? en?)    get_events         -> new handle
     (11 b st? en?)          get_eventcount
     (12 b id)               delete
     (13 tag (ref ...))      caller allocates a cell   -> new handle
     (14 ref tag (ref ...))  caller overwrites a cell
     (19)                    the caller forgets every root it holds (harness plumbing: dropping
                             references is not an action of the model; Sep is monotone in `held`)
     (16 b (utc off)? (utc off)?)   Bucket.get (window rounding)       -> new handle
     (17 b (utc off) (utc off))     query_bucket under the query namespace -> new handle
     (18 b (utc off) (utc off))     query_bucket_eventcount
   tag = (0 id? ts dur) | (1 payload).
   Observation: (status ret sharing store handles)
     status  = 0 | (1 errcode) | 2 (out of fuel)
     ret     = (0) None | (1) a new object | (2 z) an int
     sharing = for every handle i: (shares-with-store? (j < i sharing a cell with i ...))
     store   = ((b meta-tree (event-tree ...)) ...)
     handles = (tree ...)  content of every handle
   tree = (tag (tree ...)). *)
From AwVerif Require Import Base.Prelude Base.Sexp Model.MemHeap Model.MemHeapQuery.
From Coq Require Import Arith.
Require Extraction.
Require Import ExtrOcamlBasic.

Definition nat_of (z : Z) : nat := Z.to_nat z.

Fixpoint follow (h : heap) (l : loc) (path : list Z) : option loc :=
  match path with
  | [] => Some l
  | i :: t =>
      match lookup h l with
      | Some c => match nth_error (children c) (nat_of i) with Some k => follow h k t | None => None end
      | None => None
      end
  end.

Definition sRef (s : state) (x : sexp) : option loc :=
  match sZs x with
  | Some (hd :: path) =>
      match nth_error (held s) (nat_of hd) with
      | Some r => follow (heap_of s) r path
      | None => None
      end
  | _ => None
  end.

Definition sOptRef (s : state) (x : sexp) : option (option loc) :=
  match x with
  | L [] => Some None
  | L [r] => match sRef s r with Some l => Some (Some l) | None => None end
  | _ => None
  end.

Definition sRefs (s : state) (x : sexp) : option (list loc) := sList (sRef s) x.

Definition sTag (x : sexp) : option tag :=
  match x with
  | L [A 0; i; A t; A d] => match sOptZ i with Some oi => Some (TEv oi t d) | None => None end
  | L [A 1; A p] => Some (TNode p)
  | _ => None
  end.

Definition sAdt (x : sexp) : option adt :=
  match x with L [A u; A o] => Some (u, o) | _ => None end.
Definition sOptAdt (x : sexp) : option (option adt) :=
  match x with
  | L [] => Some None
  | L [d] => match sAdt d with Some v => Some (Some v) | None => None end
  | _ => None
  end.

Definition tag_s (t : tag) : sexp :=
  match t with
  | TEv i ts d => L [A 0; optZ_s i; A ts; A d]
  | TNode p => L [A 1; A p]
  end.

Fixpoint tree_s (t : tree) : sexp :=
  match t with T tg kids => L [tag_s tg; L (map tree_s kids)] end.

Definition rtree_s (r : res tree) : sexp :=
  match r with Ok t => tree_s t | Err _ => L [A (-997)] | OutOfFuel => L [A (-996)] end.

(* every location reachable from l, by unfolding (complete on acyclic heaps) *)
Fixpoint reach_set (fuel : nat) (h : heap) (l : loc) : list loc :=
  match fuel with
  | O => []
  | S f => l :: match lookup h l with
                | Some c => flat_map (reach_set f h) (children c)
                | None => []
                end
  end.

Definition meets (a b : list loc) : bool := existsb (fun x => existsb (Nat.eqb x) b) a.

Fixpoint sharing_rows (sr : list loc) (earlier : list (list loc)) (todo : list (list loc)) (i : nat)
  : list sexp :=
  match todo with
  | [] => []
  | r :: t =>
      L [bool_s (meets r sr);
         L (map (fun j => A (Z.of_nat j))
              (filter (fun j => match nth_error earlier j with Some e => meets r e | None => false end)
                      (seq 0 i)))]
      :: sharing_rows sr (earlier ++ [r]) t (S i)
  end.

Definition observe (s : state) : list sexp :=
  let h := heap_of s in
  let f := fuel_of h in
  let store_set := flat_map (reach_set f h) (store_roots s) in
  let sets := map (reach_set f h) (held s) in
  [ L (sharing_rows store_set [] sets 0);
    L (map (fun b => L [A (b_id b); rtree_s (content_of h (b_meta b));
                        L (map (fun r => rtree_s (content_of h r)) (b_events b))]) (store s));
    L (map (fun r => rtree_s (content_of h r)) (held s)) ].

Definition ret_s (r : ret) : sexp :=
  match r with RNone => L [A 0] | RRoot _ => L [A 1] | RInt z => L [A 2; A z] end.

Definition id_parse (d : adt) : option adt := Some d.
Definition id_iso (d : adt) : adt := d.

(* decode one op against the current state *)
Definition decode (s : state) (x : sexp) : option (res (state * ret)) :=
  match x with
  | L [A 0; A b; A p; d] =>
      match sOptRef s d with Some od => Some (create_bucket s b p od) | None => None end
  | L [A 1; A b; p; d] =>
      match sOptZ p, sOptRef s d with
      | Some op, Some od => Some (update_bucket s b op od)
      | _, _ => None
      end
  | L [A 2; A b] => Some (delete_bucket s b)
  | L [A 3; A b] => Some (get_metadata s b)
  | L [A 4] => Some (buckets s)
  | L [A 5; A b; r] => match sRef s r with Some e => Some (insert_one s b e) | None => None end
  | L [A 6; A b; rs] => match sRefs s rs with Some es => Some (insert_many s b es) | None => None end
  | L [A 7; A b; A i; r] => match sRef s r with Some e => Some (replace s b (Some i) e) | None => None end
  | L [A 8; A b; r] => match sRef s r with Some e => Some (replace_last s b e) | None => None end
  | L [A 9; A b; A i] => Some (get_event s b i)
  | L [A 10; A b; A l; st; en] =>
      match sOptZ st, sOptZ en with
      | Some ost, Some oen => Some (get_events s b l ost oen)
      | _, _ => None
      end
  | L [A 11; A b; st; en] =>
      match sOptZ st, sOptZ en with
      | Some ost, Some oen => Some (get_eventcount s b ost oen)
      | _, _ => None
      end
  | L [A 12; A b; A i] => Some (delete s b i)
  | L [A 13; t; rs] =>
      match sTag t, sRefs s rs with
      | Some tg, Some ks => Some (step s (CallerAlloc (Cell tg ks)))
      | _, _ => None
      end
  | L [A 14; r; t; rs] =>
      match sRef s r, sTag t, sRefs s rs with
      | Some l, Some tg, Some ks => Some (step s (CallerWrite l (Cell tg ks)))
      | _, _, _ => None
      end
  | L [A 19] => Some (Ok (mkState (heap_of s) (store s) [], RNone))
  | L [A 16; A b; st; en] =>
      match sOptAdt st, sOptAdt en with
      | Some ost, Some oen => Some (bucket_get s b (-1) ost oen)
      | _, _ => None
      end
  | L [A 17; A b; st; en] =>
      match sAdt st, sAdt en with
      | Some dst, Some den =>
          Some (q2_query_bucket adt id_parse s (query_namespace adt id_iso dst den) b)
      | _, _ => None
      end
  | L [A 18; A b; st; en] =>
      match sAdt st, sAdt en with
      | Some dst, Some den =>
          Some (q2_query_bucket_eventcount adt id_parse s (query_namespace adt id_iso dst den) b)
      | _, _ => None
      end
  | _ => None
  end.

Fixpoint run_ops (s : state) (ops : list sexp) : list sexp :=
  match ops with
  | [] => []
  | x :: t =>
      match decode s x with
      | None => [bad_case]
      | Some (Ok sr) => L (A 0 :: ret_s (snd sr) :: observe (fst sr)) :: run_ops (fst sr) t
      | Some (Err c) => L (L [A 1; A (errclass_code c)] :: L [A 0] :: observe s) :: run_ops s t
      | Some OutOfFuel => [L [A 2]]
      end
  end.

Definition driver_entry (s : sexp) : sexp :=
  match s with
  | L ops => L (run_ops init ops)
  | _ => bad_case
  end.

Extraction "model.ml" driver_entry.
