(* Driver entry for C02 / C04, two layers.  Same wire format as ExC02.v; a case with a leading
   tag 30 runs the history THROUGH the Datastore / Bucket layer (Model/Datastore.v): every
   storage op `o` of the history is issued as the public-API call `api_call o`
   (Model/DatastoreApi.v), the views are those of the storage underneath.
     case   : (backend (b1 b2 ...) (op op ...))         on the storage model (as ExC02.v)
            | (30 backend (b1 b2 ...) (op op ...))      through Datastore / Bucket
     backend 0 = memory, 1 = sqlite, 2 = peewee
     op     : (0 b meta) create | (1 b ty? cl? ho? na? da?) update | (2 b) delete_bucket
              (3) buckets | (4 b) get_metadata | (5 b ev) insert_one | (6 b (ev..)) insert_many
              (7 b id ev) replace | (8 b ev) replace_last | (9 b id) delete | (10 b id) get_event
              (11 b limit st? en?) get_events | (12 b st? en?) get_eventcount
     meta   : (type client hostname created name? data)
     result : ((res view1 view2 ...) ...)  one entry per op;  view = () | ((meta (ev ...)))
     res    : (0 out) | (1 errcode) | (2)
     out    : (0) | (1 ev?) | (2 (ev..)) | (3 n) | (4 0/1) | (5 b meta) | (6 ((b meta)..))
              | (7 b)  a Bucket object for bucket b (what Datastore.create_bucket returns) *)
From AwVerif Require Import Base.Prelude Base.Sexp Model.StoreBase Model.MemStore
  Model.SqliteStore Model.PeeweeStore Model.Datastore Model.DatastoreApi.
Require Extraction.
Require Import ExtrOcamlBasic.

Definition sMeta (s : sexp) : option meta :=
  match s with
  | L [A ty; A cl; A ho; A cr; na; A da] =>
      match sOptZ na with Some na => Some (mkMeta ty cl ho cr na da) | None => None end
  | _ => None
  end.
Definition meta_s (m : meta) : sexp :=
  L [A (m_type m); A (m_client m); A (m_hostname m); A (m_created m); optZ_s (m_name m); A (m_data m)].

Definition sOp (s : sexp) : option op :=
  match s with
  | L [A 0; A b; m] => match sMeta m with Some m => Some (CreateBucket b m) | None => None end
  | L [A 1; A b; ty; cl; ho; na; da] =>
      match sOptZ ty, sOptZ cl, sOptZ ho, sOptZ na, sOptZ da with
      | Some ty, Some cl, Some ho, Some na, Some da => Some (UpdateBucket b ty cl ho na da)
      | _, _, _, _, _ => None
      end
  | L [A 2; A b] => Some (DeleteBucket b)
  | L [A 3] => Some Buckets
  | L [A 4; A b] => Some (GetMetadata b)
  | L [A 5; A b; e] => match sEvent e with Some e => Some (InsertOne b e) | None => None end
  | L [A 6; A b; es] => match sEvents es with Some es => Some (InsertMany b es) | None => None end
  | L [A 7; A b; A i; e] => match sEvent e with Some e => Some (Replace b i e) | None => None end
  | L [A 8; A b; e] => match sEvent e with Some e => Some (ReplaceLast b e) | None => None end
  | L [A 9; A b; A i] => Some (Delete b i)
  | L [A 10; A b; A i] => Some (GetEvent b i)
  | L [A 11; A b; A limit; st; en] =>
      match sOptZ st, sOptZ en with
      | Some st, Some en => Some (GetEvents b limit st en)
      | _, _ => None
      end
  | L [A 12; A b; st; en] =>
      match sOptZ st, sOptZ en with
      | Some st, Some en => Some (GetEventCount b st en)
      | _, _ => None
      end
  | _ => None
  end.

Definition out_s (o : out) : sexp :=
  match o with
  | ONone => L [A 0]
  | OEvent None => L [A 1; L []]
  | OEvent (Some e) => L [A 1; L [event_s e]]
  | OEvents l => L [A 2; events_s l]
  | OCount n => L [A 3; A n]
  | OBool b => L [A 4; bool_s b]
  | OMeta b m => L [A 5; A b; meta_s m]
  | OBuckets l => L [A 6; L (map (fun bm => L [A (fst bm); meta_s (snd bm)]) l)]
  end.

Definition view_s (v : option (meta * list event)) : sexp :=
  match v with
  | None => L []
  | Some (m, es) => L [L [meta_s m; events_s es]]
  end.

Section Run.
  Context {S : Type} (step : S -> op -> S * res out) (view : S -> Z -> option (meta * list event)).
  Fixpoint run_hist (c : S) (univ : list Z) (ops : list op) : list sexp :=
    match ops with
    | [] => []
    | o :: t =>
        let '(c', r) := step c o in
        L (res_s out_s r :: map (fun b => view_s (view c' b)) univ) :: run_hist c' univ t
    end.
End Run.

Definition dsout_s (o : dsout) : sexp :=
  match o with
  | DOut o => out_s o
  | DHandle h => L [A 7; A (h_bucket h)]
  end.

Section RunApi.
  Context {S : Type} (step : S -> op -> S * res out) (view : S -> Z -> option (meta * list event)).
  Fixpoint run_api (d : dstate S) (univ : list Z) (ops : list op) : list sexp :=
    match ops with
    | [] => []
    | o :: t =>
        let '(d', r) := api_step step d o in
        L (res_s dsout_s r :: map (fun b => view_s (view (ds_store d') b)) univ) :: run_api d' univ t
    end.
End RunApi.

Definition driver_entry (s : sexp) : sexp :=
  match s with
  | L [A backend; univ; L ops] =>
      match sZs univ, opt_all (map sOp ops) with
      | Some univ, Some ops =>
          if backend =? 0 then L (run_hist mem_step mem_view mem_init univ ops)
          else if backend =? 1 then L (run_hist sq_step sq_view sq_init univ ops)
          else if backend =? 2 then L (run_hist pw_step pw_view pw_init univ ops)
          else bad_case
      | _, _ => bad_case
      end
  | L [A 30; A backend; univ; L ops] =>
      match sZs univ, opt_all (map sOp ops) with
      | Some univ, Some ops =>
          if backend =? 0 then L (run_api mem_step mem_view (ds_init mem_init) univ ops)
          else if backend =? 1 then L (run_api sq_step sq_view (ds_init sq_init) univ ops)
          else if backend =? 2 then L (run_api pw_step pw_view (ds_init pw_init) univ ops)
          else bad_case
      | _, _ => bad_case
      end
  | _ => bad_case
  end.

Extraction "model.ml" driver_entry.
