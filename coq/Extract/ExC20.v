(* Driver entry for C20.  Wire format (s-expressions of integers):
     toml : (0 label) | (1 (k v) ...) | (2 v ...)            Leaf | Tab | Aot
     line : (0) | (1) | (2 k ...) | (3 k ...) | (4 (k ...) v) | (5 kept)
            Blank | Comment | Header | ArrayHeader | KeyVal | Other
   cases
     (0 a b)            -> _merge on two tables             : table as (1 (k v) ...)
     (1 doc)            -> ((kept flags) res(parse_lines doc) res(parse_lines (comment_out doc)))
     (2 default file?)  -> load_config on the line model    : (res(value) file? trace)
                           file? = () | (doc) ; trace = ((0 present) | (1) | (2 doc)) ...
   Compiled from build/C20 so that model.ml lands there. *)
From AwVerif Require Import Base.Prelude Base.Sexp Model.Config.
Require Extraction.
Require Import ExtrOcamlBasic.

Definition sPair {X} (f : sexp -> option X) (s : sexp) : option (Z * X) :=
  match s with
  | L [A k; v] => match f v with Some x => Some (k, x) | None => None end
  | _ => None
  end.

Fixpoint sToml (s : sexp) : option toml :=
  match s with
  | L [A 0; A l] => Some (Leaf l)
  | L (A 1 :: es) =>
      match opt_all (map (fun e => match e with
                                   | L [A k; v] => match sToml v with Some x => Some (k, x) | None => None end
                                   | _ => None
                                   end) es) with
      | Some es' => Some (Tab es')
      | None => None
      end
  | L (A 2 :: xs) =>
      match opt_all (map sToml xs) with Some xs' => Some (Aot xs') | None => None end
  | _ => None
  end.

Fixpoint toml_s (t : toml) : sexp :=
  match t with
  | Leaf l => L [A 0; A l]
  | Tab es => L (A 1 :: map (fun kv => L [A (fst kv); toml_s (snd kv)]) es)
  | Aot xs => L (A 2 :: map toml_s xs)
  end.

Definition sTable (s : sexp) : option table :=
  match sToml s with Some (Tab es) => Some es | _ => None end.
Definition table_s (t : table) : sexp := toml_s (Tab t).

Definition sLine (s : sexp) : option line :=
  match s with
  | L [A 0] => Some Blank
  | L [A 1] => Some Comment
  | L (A 2 :: p) => match sZs (L p) with Some p' => Some (Header p') | None => None end
  | L (A 3 :: p) => match sZs (L p) with Some p' => Some (ArrayHeader p') | None => None end
  | L [A 4; kp; v] =>
      match sZs kp, sToml v with
      | Some kp', Some v' => Some (KeyVal kp' v')
      | _, _ => None
      end
  | L [A 5; b] => match sBool b with Some b' => Some (Other b') | None => None end
  | _ => None
  end.

Definition line_s (l : line) : sexp :=
  match l with
  | Blank => L [A 0]
  | Comment => L [A 1]
  | Header p => L (A 2 :: map A p)
  | ArrayHeader p => L (A 3 :: map A p)
  | KeyVal kp v => L [A 4; L (map A kp); toml_s v]
  | Other b => L [A 5; bool_s b]
  end.

Definition sDoc : sexp -> option (list line) := sList sLine.
Definition doc_s (d : list line) : sexp := L (map line_s d).

Definition ev_s (e : io_event (list line)) : sexp :=
  match e with
  | EvIsFile b => L [A 0; bool_s b]
  | EvRead => L [A 1]
  | EvWrite w => L [A 2; doc_s w]
  end.

Definition driver_entry (s : sexp) : sexp :=
  match s with
  | L [A 0; a; b] =>
      match sTable a, sTable b with
      | Some a, Some b => table_s (merge a b)
      | _, _ => bad_case
      end
  | L [A 1; d] =>
      match sDoc d with
      | Some d =>
          L [L (map (fun l => bool_s (line_kept l)) d);
             res_s table_s (parse_lines d);
             res_s table_s (parse_lines (comment_out d))]
      | None => bad_case
      end
  | L [A 2; d; f] =>
      match sDoc d, f with
      | Some d, L [] =>
          let r := load_lines d None in
          L [res_s table_s (lr_value r);
             match lr_file r with None => L [] | Some w => L [doc_s w] end;
             L (map ev_s (lr_trace r))]
      | Some d, L [u] =>
          match sDoc u with
          | Some u =>
              let r := load_lines d (Some u) in
              L [res_s table_s (lr_value r);
                 match lr_file r with None => L [] | Some w => L [doc_s w] end;
                 L (map ev_s (lr_trace r))]
          | None => bad_case
          end
      | _, _ => bad_case
      end
  | _ => bad_case
  end.

Extraction "model.ml" driver_entry.
