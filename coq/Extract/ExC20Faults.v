(* Third driver of C20 (round 5): the I/O script with a read that may fail, on the line model.
   Wire format of documents as in ExC20.v.
     case   (default file? outcome)     file? = () | (doc) ; outcome = 0 (the read succeeds) |
                                        5 (raises ValueError: a decoding error) | n (raises OtherError: OSError)
     answer (res(value) file? trace)    trace = ((0 present) | (1) | (3 errclass-code) | (2 doc)) ...
   Compiled from build/C20Faults so that model.ml lands there. *)
From AwVerif Require Import Base.Prelude Base.Sexp Model.Config Model.ConfigFaults.
Require Extraction.
Require Import ExtrOcamlBasic.

Fixpoint sToml (s : sexp) : option toml :=
  match s with
  | L [A 0; A l] => Some (Leaf l)
  | L (A 1 :: es) =>
      match opt_all (map (fun e => match e with
                                   | L [A k; v] => match sToml v with Some x => Some (k, x) | None => None end
                                   | _ => None
                                   end) es) with
      | Some es' => Some (Tab es')
      | None => None
      end
  | L (A 2 :: xs) =>
      match opt_all (map sToml xs) with Some xs' => Some (Aot xs') | None => None end
  | _ => None
  end.

Fixpoint toml_s (t : toml) : sexp :=
  match t with
  | Leaf l => L [A 0; A l]
  | Tab es => L (A 1 :: map (fun kv => L [A (fst kv); toml_s (snd kv)]) es)
  | Aot xs => L (A 2 :: map toml_s xs)
  end.

Definition table_s (t : table) : sexp := toml_s (Tab t).

Definition sLine (s : sexp) : option line :=
  match s with
  | L [A 0] => Some Blank
  | L [A 1] => Some Comment
  | L (A 2 :: p) => match sZs (L p) with Some p' => Some (Header p') | None => None end
  | L (A 3 :: p) => match sZs (L p) with Some p' => Some (ArrayHeader p') | None => None end
  | L [A 4; kp; v] =>
      match sZs kp, sToml v with
      | Some kp', Some v' => Some (KeyVal kp' v')
      | _, _ => None
      end
  | L [A 5; b] => match sBool b with Some b' => Some (Other b') | None => None end
  | _ => None
  end.

Definition line_s (l : line) : sexp :=
  match l with
  | Blank => L [A 0]
  | Comment => L [A 1]
  | Header p => L (A 2 :: map A p)
  | ArrayHeader p => L (A 3 :: map A p)
  | KeyVal kp v => L [A 4; L (map A kp); toml_s v]
  | Other b => L [A 5; bool_s b]
  end.

Definition sDoc : sexp -> option (list line) := sList sLine.
Definition doc_s (d : list line) : sexp := L (map line_s d).

Definition ev_f_s (e : io_event_f (list line)) : sexp :=
  match e with
  | FIsFile b => L [A 0; bool_s b]
  | FRead => L [A 1]
  | FReadFailed c => L [A 3; A (errclass_code c)]
  | FWrite w => L [A 2; doc_s w]
  end.

Definition outcome_of (n : Z) : read_outcome :=
  if n =? 0 then ReadOk else if n =? 5 then ReadFails ValueError else ReadFails OtherError.

Definition answer (r : load_result_f (list line)) : sexp :=
  L [res_s table_s (lf_value r);
     match lf_file r with None => L [] | Some w => L [doc_s w] end;
     L (map ev_f_s (lf_trace r))].

Definition driver_entry (s : sexp) : sexp :=
  match s with
  | L [d; f; A n] =>
      match sDoc d, f with
      | Some d, L [] => answer (load_lines_f d None (outcome_of n))
      | Some d, L [u] =>
          match sDoc u with
          | Some u => answer (load_lines_f d (Some u) (outcome_of n))
          | None => bad_case
          end
      | _, _ => bad_case
      end
  | _ => bad_case
  end.

Extraction "model.ml" driver_entry.
