(* Driver entry for C05: runs a history of Datastore / Bucket calls on the Datastore layer
   (Model/Datastore.v) over a chosen back end model and reports, after every call, its result,
   the `bucket_instances` cache and the view of every bucket of a given universe.
     case   : (backend (b1 b2 ...) (dsop dsop ...))   backend 0 = memory, 1 = sqlite, 2 = peewee
     dsop   : (20 b meta) ds.create_bucket | (21 b ty? cl? ho? na? da?) ds.update_bucket
              (22 b) ds.delete_bucket | (23) ds.buckets | (24 b) ds[b]
              (25 (serial b) hop) method of a Bucket object | (26 op) call on ds.storage_strategy
     hop    : (0) metadata | (1 limit st? en?) get | (2 id) get_by_id | (3 st? en?) get_eventcount
              (4 ev) insert(Event) | (5 (ev..)) insert(list) | (6 id) delete | (7 ev) replace_last
              (8 id ev) replace
     op, meta, out, view : as in ExC02.v
     result : ((res cache listing nrows view1 view2 ...) ...)   cache = ((b serial) ...)
              nrows = number of event rows the state holds (for the SQL back ends: rows of the events table,
              whether or not a listed bucket owns them)
              listing = the res of storage.buckets() on the state after the call
     res    : (0 dsout) | (1 errcode) | (2)       dsout = (0 out) | (1 serial b) *)
From AwVerif Require Import Base.Prelude Base.Sexp Model.StoreBase Model.MemStore
  Model.SqliteStore Model.PeeweeStore Model.Datastore.
Require Extraction.
Require Import ExtrOcamlBasic.

Definition sMeta (s : sexp) : option meta :=
  match s with
  | L [A ty; A cl; A ho; A cr; na; A da] =>
      match sOptZ na with Some na => Some (mkMeta ty cl ho cr na da) | None => None end
  | _ => None
  end.
Definition meta_s (m : meta) : sexp :=
  L [A (m_type m); A (m_client m); A (m_hostname m); A (m_created m); optZ_s (m_name m); A (m_data m)].

Definition sOp (s : sexp) : option op :=
  match s with
  | L [A 0; A b; m] => match sMeta m with Some m => Some (CreateBucket b m) | None => None end
  | L [A 1; A b; ty; cl; ho; na; da] =>
      match sOptZ ty, sOptZ cl, sOptZ ho, sOptZ na, sOptZ da with
      | Some ty, Some cl, Some ho, Some na, Some da => Some (UpdateBucket b ty cl ho na da)
      | _, _, _, _, _ => None
      end
  | L [A 2; A b] => Some (DeleteBucket b)
  | L [A 3] => Some Buckets
  | L [A 4; A b] => Some (GetMetadata b)
  | L [A 5; A b; e] => match sEvent e with Some e => Some (InsertOne b e) | None => None end
  | L [A 6; A b; es] => match sEvents es with Some es => Some (InsertMany b es) | None => None end
  | L [A 7; A b; A i; e] => match sEvent e with Some e => Some (Replace b i e) | None => None end
  | L [A 8; A b; e] => match sEvent e with Some e => Some (ReplaceLast b e) | None => None end
  | L [A 9; A b; A i] => Some (Delete b i)
  | L [A 10; A b; A i] => Some (GetEvent b i)
  | L [A 11; A b; A limit; st; en] =>
      match sOptZ st, sOptZ en with
      | Some st, Some en => Some (GetEvents b limit st en)
      | _, _ => None
      end
  | L [A 12; A b; st; en] =>
      match sOptZ st, sOptZ en with
      | Some st, Some en => Some (GetEventCount b st en)
      | _, _ => None
      end
  | _ => None
  end.

Definition sHop (s : sexp) : option hop :=
  match s with
  | L [A 0] => Some HMetadata
  | L [A 1; A limit; st; en] =>
      match sOptZ st, sOptZ en with
      | Some st, Some en => Some (HGet limit st en)
      | _, _ => None
      end
  | L [A 2; A i] => Some (HGetById i)
  | L [A 3; st; en] =>
      match sOptZ st, sOptZ en with
      | Some st, Some en => Some (HCount st en)
      | _, _ => None
      end
  | L [A 4; e] => match sEvent e with Some e => Some (HInsert e) | None => None end
  | L [A 5; es] => match sEvents es with Some es => Some (HInsertMany es) | None => None end
  | L [A 6; A i] => Some (HDelete i)
  | L [A 7; e] => match sEvent e with Some e => Some (HReplaceLast e) | None => None end
  | L [A 8; A i; e] => match sEvent e with Some e => Some (HReplace i e) | None => None end
  | _ => None
  end.

Definition sDsop (s : sexp) : option dsop :=
  match s with
  | L [A 20; A b; m] => match sMeta m with Some m => Some (DsCreate b m) | None => None end
  | L [A 21; A b; ty; cl; ho; na; da] =>
      match sOptZ ty, sOptZ cl, sOptZ ho, sOptZ na, sOptZ da with
      | Some ty, Some cl, Some ho, Some na, Some da => Some (DsUpdate b ty cl ho na da)
      | _, _, _, _, _ => None
      end
  | L [A 22; A b] => Some (DsDelete b)
  | L [A 23] => Some DsBuckets
  | L [A 24; A b] => Some (DsGetItem b)
  | L [A 25; L [A n; A b]; h] => match sHop h with Some h => Some (DsVia (mkHandle n b) h) | None => None end
  | L [A 26; o] => match sOp o with Some o => Some (DsRaw o) | None => None end
  | _ => None
  end.

Definition out_s (o : out) : sexp :=
  match o with
  | ONone => L [A 0]
  | OEvent None => L [A 1; L []]
  | OEvent (Some e) => L [A 1; L [event_s e]]
  | OEvents l => L [A 2; events_s l]
  | OCount n => L [A 3; A n]
  | OBool b => L [A 4; bool_s b]
  | OMeta b m => L [A 5; A b; meta_s m]
  | OBuckets l => L [A 6; L (map (fun bm => L [A (fst bm); meta_s (snd bm)]) l)]
  end.

Definition dsout_s (o : dsout) : sexp :=
  match o with
  | DOut o => L [A 0; out_s o]
  | DHandle h => L [A 1; A (h_serial h); A (h_bucket h)]
  end.

Definition view_s (v : option (meta * list event)) : sexp :=
  match v with
  | None => L []
  | Some (m, es) => L [L [meta_s m; events_s es]]
  end.

Definition cache_s (l : list (Z * Z)) : sexp := L (map (fun kv => L [A (fst kv); A (snd kv)]) l).

Section Run.
  Context {S : Type} (step : S -> op -> S * res out) (view : S -> Z -> option (meta * list event))
          (nrows : S -> Z).
  Fixpoint run_hist (d : dstate S) (univ : list Z) (ops : list dsop) : list sexp :=
    match ops with
    | [] => []
    | o :: t =>
        let '(d', r) := ds_step step d o in
        L (res_s dsout_s r :: cache_s (ds_cache d')
             :: res_s out_s (snd (step (ds_store d') Buckets))      (* what ds.buckets() would list now *)
             :: A (nrows (ds_store d'))                             (* event rows held, listed bucket or not *)
             :: map (fun b => view_s (view (ds_store d') b)) univ)
          :: run_hist d' univ t
    end.
End Run.

Definition mem_nrows (c : mstate) : Z := Z.of_nat (length (concat (map (fun kv => snd (snd kv)) c))).
Definition sq_nrows (c : sqstate) : Z := Z.of_nat (length (sq_events c)).
Definition pw_nrows (c : pwstate) : Z := Z.of_nat (length (pw_events c)).

Definition driver_entry (s : sexp) : sexp :=
  match s with
  | L [A backend; univ; L ops] =>
      match sZs univ, opt_all (map sDsop ops) with
      | Some univ, Some ops =>
          if backend =? 0 then L (run_hist mem_step mem_view mem_nrows (ds_init mem_init) univ ops)
          else if backend =? 1 then L (run_hist sq_step sq_view sq_nrows (ds_init sq_init) univ ops)
          else if backend =? 2 then L (run_hist pw_step pw_view pw_nrows (ds_init pw_init) univ ops)
          else bad_case
      | _, _ => bad_case
      end
  | _ => bad_case
  end.

Extraction "model.ml" driver_entry.
