(* Driver entry for C07: a setup history, then the heartbeat-ingestion loop, on a chosen
   back end model.
     case   : (backend (b1 b2 ...) (setup-op ...) b p (hb ...))    backend 0 = memory, 1 = sqlite, 2 = peewee
     op     : as in ExC02.v  ((0 b meta) create ... (12 b st? en?) get_eventcount)
     result : ((step ...) final reduce)
       step   = (res view1 view2 ...)   after every heartbeat, up to and including the first raising one
                (computed with ingest_step)
       final  = (res view1 view2 ...)   of ingest_stream on the whole stream (its views must equal the last step's)
       reduce = heartbeat_reduce (hb ...) p    (the right-hand side of the theorem, for the harness to
                cross-check the statement on the model's own output)
     res / out / view / meta / event : as in ExC02.v
   Compiled from build/C07 so that model.ml lands there. *)
From AwVerif Require Import Base.Prelude Base.Sexp Model.Heartbeat Model.StoreBase Model.MemStore
  Model.SqliteStore Model.PeeweeStore Model.Ingest.
Require Extraction.
Require Import ExtrOcamlBasic.

Definition sMeta (s : sexp) : option meta :=
  match s with
  | L [A ty; A cl; A ho; A cr; na; A da] =>
      match sOptZ na with Some na => Some (mkMeta ty cl ho cr na da) | None => None end
  | _ => None
  end.
Definition meta_s (m : meta) : sexp :=
  L [A (m_type m); A (m_client m); A (m_hostname m); A (m_created m); optZ_s (m_name m); A (m_data m)].

Definition sOp (s : sexp) : option op :=
  match s with
  | L [A 0; A b; m] => match sMeta m with Some m => Some (CreateBucket b m) | None => None end
  | L [A 1; A b; ty; cl; ho; na; da] =>
      match sOptZ ty, sOptZ cl, sOptZ ho, sOptZ na, sOptZ da with
      | Some ty, Some cl, Some ho, Some na, Some da => Some (UpdateBucket b ty cl ho na da)
      | _, _, _, _, _ => None
      end
  | L [A 2; A b] => Some (DeleteBucket b)
  | L [A 3] => Some Buckets
  | L [A 4; A b] => Some (GetMetadata b)
  | L [A 5; A b; e] => match sEvent e with Some e => Some (InsertOne b e) | None => None end
  | L [A 6; A b; es] => match sEvents es with Some es => Some (InsertMany b es) | None => None end
  | L [A 7; A b; A i; e] => match sEvent e with Some e => Some (Replace b i e) | None => None end
  | L [A 8; A b; e] => match sEvent e with Some e => Some (ReplaceLast b e) | None => None end
  | L [A 9; A b; A i] => Some (Delete b i)
  | L [A 10; A b; A i] => Some (GetEvent b i)
  | L [A 11; A b; A limit; st; en] =>
      match sOptZ st, sOptZ en with
      | Some st, Some en => Some (GetEvents b limit st en)
      | _, _ => None
      end
  | L [A 12; A b; st; en] =>
      match sOptZ st, sOptZ en with
      | Some st, Some en => Some (GetEventCount b st en)
      | _, _ => None
      end
  | _ => None
  end.

Definition out_s (o : out) : sexp :=
  match o with
  | ONone => L [A 0]
  | OEvent None => L [A 1; L []]
  | OEvent (Some e) => L [A 1; L [event_s e]]
  | OEvents l => L [A 2; events_s l]
  | OCount n => L [A 3; A n]
  | OBool b => L [A 4; bool_s b]
  | OMeta b m => L [A 5; A b; meta_s m]
  | OBuckets l => L [A 6; L (map (fun bm => L [A (fst bm); meta_s (snd bm)]) l)]
  end.

Definition view_s (v : option (meta * list event)) : sexp :=
  match v with
  | None => L []
  | Some (m, es) => L [L [meta_s m; events_s es]]
  end.

Section Run.
  Context {S : Type} (step : S -> op -> S * res out) (view : S -> Z -> option (meta * list event)).

  Definition obs (c : S) (r : res out) (univ : list Z) : sexp :=
    L (res_s out_s r :: map (fun b => view_s (view c b)) univ).

  Fixpoint run_steps (c : S) (univ : list Z) (b p : Z) (stream : list event) : list sexp :=
    match stream with
    | [] => []
    | hb :: t =>
        let '(c', r) := ingest_step step c b p hb in
        match r with
        | Ok _ => obs c' r univ :: run_steps c' univ b p t
        | _ => [obs c' r univ]
        end
    end.

  Definition run_case (c0 : S) (univ : list Z) (setup : list op) (b p : Z) (stream : list event) : sexp :=
    let c := fold_left (fun c o => fst (step c o)) setup c0 in
    let '(cf, rf) := ingest_stream step c b p stream in
    L [L (run_steps c univ b p stream); obs cf rf univ; events_s (heartbeat_reduce stream p)].
End Run.

Definition driver_entry (s : sexp) : sexp :=
  match s with
  | L [A backend; univ; L setup; A b; A p; stream] =>
      match sZs univ, opt_all (map sOp setup), sEvents stream with
      | Some univ, Some setup, Some stream =>
          if backend =? 0 then run_case mem_step mem_view mem_init univ setup b p stream
          else if backend =? 1 then run_case sq_step sq_view sq_init univ setup b p stream
          else if backend =? 2 then run_case pw_step pw_view pw_init univ setup b p stream
          else bad_case
      | _, _, _ => bad_case
      end
  | _ => bad_case
  end.

Extraction "model.ml" driver_entry.
