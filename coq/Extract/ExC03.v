(* Driver entry for C03: builds a one-bucket store on a chosen back end model by inserting
   the given events one by one (ids are the model's own), then answers window queries
   through Model/Window.v (Bucket.get's rounding + the storage read; Bucket.get_eventcount
   without rounding).
     case    : (backend (ev ...) (query ...) ((ts dur end_ms) ...))
               backend 0 = memory, 1 = sqlite, 2 = peewee
               the last component is the table of SQLite's strftime end instants of the stored
               rows (peewee only; every stored (ts, dur) must be listed), measured by the
               harness on the engine itself
     ev      : (() ts dur data)
     query   : (0 limit ws? we? plo? phi?)   Bucket.get(limit, ws, we)
               (1 ws? we? plo? phi?)         Bucket.get_eventcount(ws, we)
               (2 utc off)                   the rounding alone, for an aware datetime
               plo? / phi? : sqlite only -- ceiling / floor of the float parameter the query
               receives for its start / end edge (computed inside Coq by Model/WindowFloat.v
               for the edge that reaches the storage: rounded for 0, raw for 1); () when the
               edge is absent or the back end is not sqlite
     result  : (r ...) one per query
               0 -> (res ws'? we'?)   res = (0 (2 (ev ..))) | (1 errcode)
               1 -> (res)             res = (0 (3 n)) | (1 errcode)
               2 -> (start' end')  *)
From AwVerif Require Import Base.Prelude Base.Sexp Model.StoreBase Model.MemStore
  Model.SqliteStore Model.PeeweeStore Model.Window.
Require Extraction.
Require Import ExtrOcamlBasic.

Definition out_s (o : out) : sexp :=
  match o with
  | OEvents l => L [A 2; events_s l]
  | OCount n => L [A 3; A n]
  | _ => L [A (-1)]
  end.

Definition the_meta : meta := mkMeta 1 1 1 0 None 0.

Section Build.
  Context {S : Type} (step : S -> op -> S * res out).
  Fixpoint insert_all (c : S) (es : list event) : option S :=
    match es with
    | [] => Some c
    | e :: t => match step c (InsertOne 1 e) with
                | (c', Ok _) => insert_all c' t
                | _ => None
                end
    end.
  Definition build (init : S) (es : list event) : option S :=
    match step init (CreateBucket 1 the_meta) with
    | (c, Ok _) => insert_all c es
    | _ => None
    end.
End Build.

Inductive query :=
  | QRead (limit : Z) (ws we plo phi : option Z)
  | QCount (ws we plo phi : option Z)
  | QRound (utc off : Z).

Definition sQuery (s : sexp) : option query :=
  match s with
  | L [A 0; A limit; ws; we; plo; phi] =>
      match sOptZ ws, sOptZ we, sOptZ plo, sOptZ phi with
      | Some ws, Some we, Some plo, Some phi => Some (QRead limit ws we plo phi)
      | _, _, _, _ => None
      end
  | L [A 1; ws; we; plo; phi] =>
      match sOptZ ws, sOptZ we, sOptZ plo, sOptZ phi with
      | Some ws, Some we, Some plo, Some phi => Some (QCount ws we plo phi)
      | _, _, _, _ => None
      end
  | L [A 2; A utc; A off] => Some (QRound utc off)
  | _ => None
  end.

(* the parameter functions of one sqlite query: the supplied integer for the edge that is
   present; a query that has an edge but no parameter for it is undecodable *)
Definition param_ok (edge p : option Z) : bool :=
  match edge, p with
  | Some _, None => false
  | _, _ => true
  end.
Definition const_param (p : option Z) : Z -> Z :=
  fun t => match p with Some v => v | None => t end.

Definition sTriple (s : sexp) : option (Z * Z * Z) :=
  match s with L [A a; A b; A c] => Some (a, b, c) | _ => None end.

Fixpoint lookup_end (tbl : list (Z * Z * Z)) (t d : Z) : option Z :=
  match tbl with
  | [] => None
  | (a, b, c) :: r => if (a =? t) && (b =? d) then Some c else lookup_end r t d
  end.
Definition covered (tbl : list (Z * Z * Z)) (es : list event) : bool :=
  forallb (fun e => match lookup_end tbl (ts e) (dur e) with Some _ => true | None => false end) es.
(* total only because [covered] is checked first; the fallback is never consulted for a
   stored row *)
Definition table_end (tbl : list (Z * Z * Z)) (t d : Z) : Z :=
  match lookup_end tbl t d with Some v => v | None => sql_end_nearest t d end.

Definition round_s (ws we : option Z) : list sexp :=
  let r := bucket_get_round ws we in [optZ_s (fst r); optZ_s (snd r)].

Definition answer_mem (c : mstate) (q : query) : sexp :=
  match q with
  | QRead limit ws we _ _ => L (res_s out_s (mem_read c 1 limit ws we) :: round_s ws we)
  | QCount ws we _ _ => L [res_s out_s (mem_readcount c 1 ws we)]
  | QRound utc off => L [A (round_start_tz utc off); A (round_end_tz utc off)]
  end.

Definition answer_sq (c : sqstate) (q : query) : sexp :=
  match q with
  | QRead limit ws we plo phi =>
      if param_ok ws plo && param_ok we phi then
        L (res_s out_s (sq_read (const_param plo) (const_param phi) c 1 limit ws we) :: round_s ws we)
      else bad_case
  | QCount ws we plo phi =>
      if param_ok ws plo && param_ok we phi then
        L [res_s out_s (sq_readcount (const_param plo) (const_param phi) c 1 ws we)]
      else bad_case
  | QRound utc off => L [A (round_start_tz utc off); A (round_end_tz utc off)]
  end.

Definition answer_pw (tbl : list (Z * Z * Z)) (c : pwstate) (q : query) : sexp :=
  match q with
  | QRead limit ws we _ _ => L (res_s out_s (pw_read (table_end tbl) c 1 limit ws we) :: round_s ws we)
  | QCount ws we _ _ => L [res_s out_s (pw_readcount (table_end tbl) c 1 ws we)]
  | QRound utc off => L [A (round_start_tz utc off); A (round_end_tz utc off)]
  end.

Definition driver_entry (s : sexp) : sexp :=
  match s with
  | L [A backend; evs; L qs; tbl] =>
      match sEvents evs, opt_all (map sQuery qs), sList sTriple tbl with
      | Some evs, Some qs, Some tbl =>
          if backend =? 0 then
            match build mem_step mem_init evs with
            | Some c => L (map (answer_mem c) qs)
            | None => bad_case
            end
          else if backend =? 1 then
            match build sq_step sq_init evs with
            | Some c => L (map (answer_sq c) qs)
            | None => bad_case
            end
          else if backend =? 2 then
            if covered tbl evs then
              match build pw_step pw_init evs with
              | Some c => L (map (answer_pw tbl c) qs)
              | None => bad_case
              end
            else bad_case
          else bad_case
      | _, _, _ => bad_case
      end
  | _ => bad_case
  end.

Extraction "model.ml" driver_entry.
