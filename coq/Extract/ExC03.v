(* Driver entry for C03: runs a SCRIPT on a chosen back end model -- write operations of the
   storage interface (create / delete bucket, insert, bulk insert / upsert, replace,
   replace_last, delete: the store models' own step functions) interleaved with window
   queries addressed to any bucket -- and answers each query on the state reached at that
   point through Model/Window.v (Bucket.get's rounding + the storage read;
   Bucket.get_eventcount without rounding).  One case is ONE storage instance; a process that
   holds several instances is several cases (the model has no state outside the instance).
     case    : (backend (step ...) ((ts dur end_ms) ...))
               backend 0 = memory, 1 = sqlite, 2 = peewee
               the last component is the table of SQLite's strftime end instants of the stored
               rows (peewee only; every (ts, dur) stored at the time of a query must be
               listed), measured by the harness on the engine itself
     step    : (0 op)        op in the wire form of Extract/ExC02.v:
                             (0 b meta) create | (2 b) delete_bucket | (5 b ev) insert_one
                             (6 b (ev..)) insert_many | (7 b id ev) replace | (8 b ev) replace_last
                             (9 b id) delete | ... (all thirteen are decoded)
               (1 b query)   a query on bucket b
     ev      : (id? ts dur data)
     query   : (0 limit ws? we? plo? phi?)   Bucket.get(limit, ws, we)
               (1 ws? we? plo? phi?)         Bucket.get_eventcount(ws, we)
               (2 utc off)                   the rounding alone, for an aware datetime
               plo? / phi? : sqlite only -- ceiling / floor of the float parameter the query
               receives for its start / end edge (computed inside Coq by Model/WindowFloat.v
               for the edge that reaches the storage: rounded for 0, raw for 1); () when the
               edge is absent or the back end is not sqlite
     result  : (r ...) one per step
               op step -> res = (0 out) | (1 errcode)     (out as in ExC02.v)
               query 0 -> (res ws'? we'?)   res = (0 (2 (ev ..))) | (1 errcode)
               query 1 -> (res)             res = (0 (3 n)) | (1 errcode)
               query 2 -> (start' end')  *)
From AwVerif Require Import Base.Prelude Base.Sexp Model.StoreBase Model.MemStore
  Model.SqliteStore Model.PeeweeStore Model.Window.
Require Extraction.
Require Import ExtrOcamlBasic.

Definition sMeta (s : sexp) : option meta :=
  match s with
  | L [A ty; A cl; A ho; A cr; na; A da] =>
      match sOptZ na with Some na => Some (mkMeta ty cl ho cr na da) | None => None end
  | _ => None
  end.
Definition meta_s (m : meta) : sexp :=
  L [A (m_type m); A (m_client m); A (m_hostname m); A (m_created m); optZ_s (m_name m); A (m_data m)].

Definition sOp (s : sexp) : option op :=
  match s with
  | L [A 0; A b; m] => match sMeta m with Some m => Some (CreateBucket b m) | None => None end
  | L [A 1; A b; ty; cl; ho; na; da] =>
      match sOptZ ty, sOptZ cl, sOptZ ho, sOptZ na, sOptZ da with
      | Some ty, Some cl, Some ho, Some na, Some da => Some (UpdateBucket b ty cl ho na da)
      | _, _, _, _, _ => None
      end
  | L [A 2; A b] => Some (DeleteBucket b)
  | L [A 3] => Some Buckets
  | L [A 4; A b] => Some (GetMetadata b)
  | L [A 5; A b; e] => match sEvent e with Some e => Some (InsertOne b e) | None => None end
  | L [A 6; A b; es] => match sEvents es with Some es => Some (InsertMany b es) | None => None end
  | L [A 7; A b; A i; e] => match sEvent e with Some e => Some (Replace b i e) | None => None end
  | L [A 8; A b; e] => match sEvent e with Some e => Some (ReplaceLast b e) | None => None end
  | L [A 9; A b; A i] => Some (Delete b i)
  | L [A 10; A b; A i] => Some (GetEvent b i)
  | L [A 11; A b; A limit; st; en] =>
      match sOptZ st, sOptZ en with
      | Some st, Some en => Some (GetEvents b limit st en)
      | _, _ => None
      end
  | L [A 12; A b; st; en] =>
      match sOptZ st, sOptZ en with
      | Some st, Some en => Some (GetEventCount b st en)
      | _, _ => None
      end
  | _ => None
  end.

Definition out_s (o : out) : sexp :=
  match o with
  | ONone => L [A 0]
  | OEvent None => L [A 1; L []]
  | OEvent (Some e) => L [A 1; L [event_s e]]
  | OEvents l => L [A 2; events_s l]
  | OCount n => L [A 3; A n]
  | OBool b => L [A 4; bool_s b]
  | OMeta b m => L [A 5; A b; meta_s m]
  | OBuckets l => L [A 6; L (map (fun bm => L [A (fst bm); meta_s (snd bm)]) l)]
  end.

Inductive query :=
  | QRead (limit : Z) (ws we plo phi : option Z)
  | QCount (ws we plo phi : option Z)
  | QRound (utc off : Z).

Definition sQuery (s : sexp) : option query :=
  match s with
  | L [A 0; A limit; ws; we; plo; phi] =>
      match sOptZ ws, sOptZ we, sOptZ plo, sOptZ phi with
      | Some ws, Some we, Some plo, Some phi => Some (QRead limit ws we plo phi)
      | _, _, _, _ => None
      end
  | L [A 1; ws; we; plo; phi] =>
      match sOptZ ws, sOptZ we, sOptZ plo, sOptZ phi with
      | Some ws, Some we, Some plo, Some phi => Some (QCount ws we plo phi)
      | _, _, _, _ => None
      end
  | L [A 2; A utc; A off] => Some (QRound utc off)
  | _ => None
  end.

Inductive step :=
  | SOp (o : op)
  | SQuery (b : Z) (q : query).

Definition sStep (s : sexp) : option step :=
  match s with
  | L [A 0; o] => match sOp o with Some o => Some (SOp o) | None => None end
  | L [A 1; A b; q] => match sQuery q with Some q => Some (SQuery b q) | None => None end
  | _ => None
  end.

(* the script: writes move the state (the store model's own step function), queries are
   answered on the state reached and leave it alone *)
Section Run.
  Context {S : Type} (stepf : S -> op -> S * res out) (answer : S -> Z -> query -> sexp).
  Fixpoint run_script (c : S) (l : list step) : list sexp :=
    match l with
    | [] => []
    | SOp o :: t => let '(c', r) := stepf c o in res_s out_s r :: run_script c' t
    | SQuery b q :: t => answer c b q :: run_script c t
    end.
End Run.

(* the parameter functions of one sqlite query: the supplied integer for the edge that is
   present; a query that has an edge but no parameter for it is undecodable *)
Definition param_ok (edge p : option Z) : bool :=
  match edge, p with
  | Some _, None => false
  | _, _ => true
  end.
Definition const_param (p : option Z) : Z -> Z :=
  fun t => match p with Some v => v | None => t end.

Definition sTriple (s : sexp) : option (Z * Z * Z) :=
  match s with L [A a; A b; A c] => Some (a, b, c) | _ => None end.

Fixpoint lookup_end (tbl : list (Z * Z * Z)) (t d : Z) : option Z :=
  match tbl with
  | [] => None
  | (a, b, c) :: r => if (a =? t) && (b =? d) then Some c else lookup_end r t d
  end.
Definition covered (tbl : list (Z * Z * Z)) (rows : list perow) : bool :=
  forallb (fun r => match lookup_end tbl (pe_ts r) (pe_dur r) with Some _ => true | None => false end) rows.
(* total only because [covered] is checked first; the fallback is never consulted for a
   stored row *)
Definition table_end (tbl : list (Z * Z * Z)) (t d : Z) : Z :=
  match lookup_end tbl t d with Some v => v | None => sql_end_nearest t d end.

Definition round_s (ws we : option Z) : list sexp :=
  let r := bucket_get_round ws we in [optZ_s (fst r); optZ_s (snd r)].

Definition answer_mem (c : mstate) (b : Z) (q : query) : sexp :=
  match q with
  | QRead limit ws we _ _ => L (res_s out_s (mem_read c b limit ws we) :: round_s ws we)
  | QCount ws we _ _ => L [res_s out_s (mem_readcount c b ws we)]
  | QRound utc off => L [A (bucket_round_start_tz utc off); A (bucket_round_end_tz utc off)]
  end.

Definition answer_sq (c : sqstate) (b : Z) (q : query) : sexp :=
  match q with
  | QRead limit ws we plo phi =>
      if param_ok ws plo && param_ok we phi then
        L (res_s out_s (sq_read (const_param plo) (const_param phi) c b limit ws we) :: round_s ws we)
      else bad_case
  | QCount ws we plo phi =>
      if param_ok ws plo && param_ok we phi then
        L [res_s out_s (sq_readcount (const_param plo) (const_param phi) c b ws we)]
      else bad_case
  | QRound utc off => L [A (bucket_round_start_tz utc off); A (bucket_round_end_tz utc off)]
  end.

(* every row of the events table (of any bucket) at the time of the query must be listed *)
Definition answer_pw (tbl : list (Z * Z * Z)) (c : pwstate) (b : Z) (q : query) : sexp :=
  if covered tbl (pw_events c) then
    match q with
    | QRead limit ws we _ _ => L (res_s out_s (pw_read (table_end tbl) c b limit ws we) :: round_s ws we)
    | QCount ws we _ _ => L [res_s out_s (pw_readcount (table_end tbl) c b ws we)]
    | QRound utc off => L [A (bucket_round_start_tz utc off); A (bucket_round_end_tz utc off)]
    end
  else bad_case.

Definition driver_entry (s : sexp) : sexp :=
  match s with
  | L [A backend; L steps; tbl] =>
      match opt_all (map sStep steps), sList sTriple tbl with
      | Some steps, Some tbl =>
          if backend =? 0 then L (run_script mem_step answer_mem mem_init steps)
          else if backend =? 1 then L (run_script sq_step answer_sq sq_init steps)
          else if backend =? 2 then L (run_script pw_step (answer_pw tbl) pw_init steps)
          else bad_case
      | _, _ => bad_case
      end
  | _ => bad_case
  end.

Extraction "model.ml" driver_entry.
