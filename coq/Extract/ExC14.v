(* Driver entry for C14.  Names are lists of code points.
     (0 (name ..) dsname? version?)          -> detect_db_files        : res (name ..)
                                                dsname? = () | ((c ..)),  version? = () | (v)
     (1 (sid) testing (name ..))             -> check_for_migration    : res 0/1
     (2 testing path (name ..))              -> sq_init_migrates       : res 0/1
                                                path = 0 default | 1 custom, new | 2 custom, exists
     (3 (b ..) (op ..))                      -> migrate (pw_run pw_init ops) sq_init
     (4 testing path (name ..) (b ..) (op ..) (op ..))
                                             -> sqlite_open testing path names (pw_run pw_init ops1)
                                                                             (sq_run sq_init ops2)
     (5 testing)                             -> sq_created_files testing : (name ..)
   result of 3 / 4:
     (res legacy_tables_unchanged ((rowid id meta) ..) ((id bucketrow start end data) ..)
          (view_new ..) (view_legacy ..))       views over the universe (b ..), as in ExC02
   op / meta / view encodings are those of ExC02.v. *)
From AwVerif Require Import Base.Prelude Base.Sexp Model.StoreBase Model.SqliteStore
  Model.PeeweeStore Model.Migration.
Require Extraction.
Require Import ExtrOcamlBasic.

Definition sMeta (s : sexp) : option meta :=
  match s with
  | L [A ty; A cl; A ho; A cr; na; A da] =>
      match sOptZ na with Some na => Some (mkMeta ty cl ho cr na da) | None => None end
  | _ => None
  end.
Definition meta_s (m : meta) : sexp :=
  L [A (m_type m); A (m_client m); A (m_hostname m); A (m_created m); optZ_s (m_name m); A (m_data m)].

Definition sOp (s : sexp) : option op :=
  match s with
  | L [A 0; A b; m] => match sMeta m with Some m => Some (CreateBucket b m) | None => None end
  | L [A 1; A b; ty; cl; ho; na; da] =>
      match sOptZ ty, sOptZ cl, sOptZ ho, sOptZ na, sOptZ da with
      | Some ty, Some cl, Some ho, Some na, Some da => Some (UpdateBucket b ty cl ho na da)
      | _, _, _, _, _ => None
      end
  | L [A 2; A b] => Some (DeleteBucket b)
  | L [A 3] => Some Buckets
  | L [A 4; A b] => Some (GetMetadata b)
  | L [A 5; A b; e] => match sEvent e with Some e => Some (InsertOne b e) | None => None end
  | L [A 6; A b; es] => match sEvents es with Some es => Some (InsertMany b es) | None => None end
  | L [A 7; A b; A i; e] => match sEvent e with Some e => Some (Replace b i e) | None => None end
  | L [A 8; A b; e] => match sEvent e with Some e => Some (ReplaceLast b e) | None => None end
  | L [A 9; A b; A i] => Some (Delete b i)
  | L [A 10; A b; A i] => Some (GetEvent b i)
  | L [A 11; A b; A limit; st; en] =>
      match sOptZ st, sOptZ en with
      | Some st, Some en => Some (GetEvents b limit st en)
      | _, _ => None
      end
  | L [A 12; A b; st; en] =>
      match sOptZ st, sOptZ en with
      | Some st, Some en => Some (GetEventCount b st en)
      | _, _ => None
      end
  | _ => None
  end.

Definition view_s (v : option (meta * list event)) : sexp :=
  match v with
  | None => L []
  | Some (m, es) => L [L [meta_s m; events_s es]]
  end.

Definition sNames : sexp -> option (list name) := sList sZs.
Definition name_s (n : name) : sexp := L (map A n).
Definition sOptName (s : sexp) : option (option name) :=
  match s with
  | L [] => Some None
  | L [n] => match sZs n with Some n => Some (Some n) | None => None end
  | _ => None
  end.
Definition sPath (s : sexp) : option sqpath :=
  match s with
  | A 0 => Some DefaultPath
  | A 1 => Some (CustomPath false)
  | A 2 => Some (CustomPath true)
  | _ => None
  end.

Definition optZ_eqb := option_eqb Z.eqb.
Definition meta_eqb (a b : meta) : bool :=
  (m_type a =? m_type b) && (m_client a =? m_client b) && (m_hostname a =? m_hostname b) &&
  (m_created a =? m_created b) && optZ_eqb (m_name a) (m_name b) && (m_data a =? m_data b).
Definition pbrow_eqb (a b : pbrow) : bool :=
  (pb_key a =? pb_key b) && (pb_id a =? pb_id b) && meta_eqb (pb_meta a) (pb_meta b).
Definition perow_eqb (a b : perow) : bool :=
  (pe_id a =? pe_id b) && (pe_bucket a =? pe_bucket b) && (pe_ts a =? pe_ts b) &&
  (pe_dur a =? pe_dur b) && (pe_data a =? pe_data b).
Fixpoint list_eqb {X} (eqb : X -> X -> bool) (a b : list X) : bool :=
  match a, b with
  | [], [] => true
  | x :: a', y :: b' => eqb x y && list_eqb eqb a' b'
  | _, _ => false
  end.
Definition tables_eqb (a b : pwstate) : bool :=
  list_eqb pbrow_eqb (pw_buckets a) (pw_buckets b) && list_eqb perow_eqb (pw_events a) (pw_events b).

Definition unit_s (u : unit) : sexp := L [].

Definition outcome_s (univ : list Z) (pw0 : pwstate) (r : pwstate * sqstate * res unit) : sexp :=
  let '(pw', sq, rr) := r in
  L [res_s unit_s rr;
     bool_s (tables_eqb pw0 pw');
     L (map (fun r => L [A (br_rowid r); A (br_id r); meta_s (br_meta r)]) (sq_buckets sq));
     L (map (fun e => L [A (er_id e); A (er_bucket e); A (er_start e); A (er_end e); A (er_data e)])
            (sq_events sq));
     L (map (fun b => view_s (sq_view sq b)) univ);
     L (map (fun b => view_s (pw_view pw0 b)) univ)].

Definition driver_entry (s : sexp) : sexp :=
  match s with
  | L [A 0; names; ds; v] =>
      match sNames names, sOptName ds, sOptZ v with
      | Some names, Some ds, Some v => res_s (fun l => L (map name_s l)) (detect_db_files names ds v)
      | _, _, _ => bad_case
      end
  | L [A 1; sid; t; names] =>
      match sZs sid, sBool t, sNames names with
      | Some sid, Some t, Some names => res_s bool_s (check_for_migration sid t names)
      | _, _, _ => bad_case
      end
  | L [A 2; t; p; names] =>
      match sBool t, sPath p, sNames names with
      | Some t, Some p, Some names => res_s bool_s (sq_init_migrates t p names)
      | _, _, _ => bad_case
      end
  | L [A 3; univ; L ops] =>
      match sZs univ, opt_all (map sOp ops) with
      | Some univ, Some ops =>
          let pw := pw_run pw_init ops in
          outcome_s univ pw (migrate pw sq_init)
      | _, _ => bad_case
      end
  | L [A 4; t; p; names; univ; L ops1; L ops2] =>
      match sBool t, sPath p, sNames names, sZs univ, opt_all (map sOp ops1), opt_all (map sOp ops2) with
      | Some t, Some p, Some names, Some univ, Some ops1, Some ops2 =>
          let pw := pw_run pw_init ops1 in
          outcome_s univ pw (sqlite_open t p names pw (sq_run sq_init ops2))
      | _, _, _, _, _, _ => bad_case
      end
  | L [A 5; t] =>
      match sBool t with
      | Some t => L (map name_s (sq_created_files t))
      | None => bad_case
      end
  | _ => bad_case
  end.

Extraction "model.ml" driver_entry.
