(* Driver entry for C17 and C11 (one driver serves both): cases
     (0 table maxdigits buckets script name start end query) -> (outcome log exhausted)
   table     = ((name (kind ...) body) ...)   kind: 0 Datastore 1 Namespace 2 list 3 str
               4 int 5 float 6 plain 7 default 8 varargs;  body: 0 nop 1 echo 2 bucket 3 abstract
   buckets   = (str ...)                      names for which `in datastore.buckets()` holds
   script    = outcomes of the abstract built-in bodies in call order, as recorded from the
               implementation: (0 value) | (1 errclass_code)
   value     = (0 z) int | (1 str) | (2 b) bool | (3) None | (4 (value ...)) list
               | (5 ((str value) ...)) dict | (6 z) opaque
   outcome   = (0 value) | (1 errclass_code) | (2) out of fuel
   log       = ((name (arg ...)) ...) the body calls the model made, arg = (0) datastore
               | (1) namespace | (2 value)
   exhausted = 1 when the model asked for more body outcomes than the script holds
     (1 query) -> parse_token of the text: (0 (tcode token) rest) | (1 code), tcode 0 = None
   Compiled from build/C17 so that model.ml lands there. *)
From AwVerif Require Import Base.Prelude Base.Sexp Model.PyStr Model.Query.
Require Extraction.
Require Import ExtrOcamlBasic.

Definition sStr : sexp -> option str := sZs.
Definition str_s (s : str) : sexp := L (map A s).

Fixpoint sValue (s : sexp) : option value :=
  match s with
  | L [A 0; A z] => Some (VInt z)
  | L [A 1; t] => match sStr t with Some x => Some (VStr x) | None => None end
  | L [A 2; A b] => Some (VBool (negb (b =? 0)))
  | L [A 3] => Some VNone
  | L [A 4; L l] =>
      match (fix go (l : list sexp) : option (list value) :=
               match l with
               | [] => Some []
               | x :: t => match sValue x, go t with
                           | Some v, Some r => Some (v :: r)
                           | _, _ => None
                           end
               end) l with
      | Some vs => Some (VList vs)
      | None => None
      end
  | L [A 5; L l] =>
      match (fix go (l : list sexp) : option (list (str * value)) :=
               match l with
               | [] => Some []
               | L [k; x] :: t => match sStr k, sValue x, go t with
                                  | Some k, Some v, Some r => Some ((k, v) :: r)
                                  | _, _, _ => None
                                  end
               | _ => None
               end) l with
      | Some d => Some (VDict d)
      | None => None
      end
  | L [A 6; A z] => Some (VOpaque z)
  | _ => None
  end.

Fixpoint value_s (v : value) : sexp :=
  match v with
  | VInt z => L [A 0; A z]
  | VStr s => L [A 1; str_s s]
  | VBool b => L [A 2; A (if b then 1 else 0)]
  | VNone => L [A 3]
  | VList l => L [A 4; L (map value_s l)]
  | VDict d => L [A 5; L (map (fun kv => L [str_s (fst kv); value_s (snd kv)]) d)]
  | VOpaque z => L [A 6; A z]
  end.

Definition sKind (s : sexp) : option pkind :=
  match s with
  | A 0 => Some PDatastore | A 1 => Some PNamespace
  | A 2 => Some (PTyped PList) | A 3 => Some (PTyped PStr)
  | A 4 => Some (PTyped PInt) | A 5 => Some (PTyped PFloat)
  | A 6 => Some PPlain | A 7 => Some PDefault | A 8 => Some PVarargs
  | _ => None
  end.
Definition sBody (s : sexp) : option bodykind :=
  match s with
  | A 0 => Some BodyNop | A 1 => Some BodyEcho | A 2 => Some BodyBucket | A 3 => Some BodyAbstract
  | _ => None
  end.
Definition sBuiltin (s : sexp) : option builtin :=
  match s with
  | L [n; k; b] =>
      match sStr n, sList sKind k, sBody b with
      | Some n, Some k, Some b => Some (mkBuiltin n k b)
      | _, _, _ => None
      end
  | _ => None
  end.

Definition errclass_of_code (z : Z) : errclass :=
  match z with
  | 1 => ParseError | 2 => InterpretError | 3 => FunctionError | 4 => KeyError
  | 5 => ValueError | 6 => IndexError | 7 => AttributeError | 8 => TypeError
  | 9 => IntegrityError | _ => OtherError
  end.
Definition sOutcome (s : sexp) : option (value + errclass) :=
  match s with
  | L [A 0; v] => match sValue v with Some v => Some (inl v) | None => None end
  | L [A 1; A c] => Some (inr (errclass_of_code c))
  | _ => None
  end.

Definition arg_s (a : arg) : sexp :=
  match a with
  | ADatastore => L [A 0]
  | ANamespace => L [A 1]
  | AVal v => L [A 2; value_s v]
  end.

(* the world of the scripted run: pending body outcomes, calls made, exhaustion flag *)
Record world := mkWorld { w_script : list (value + errclass); w_log : list (str * list arg); w_exh : bool }.

Definition scripted_body (name : str) (args : list arg) (w : world) : (value + errclass) * world :=
  match w_script w with
  | [] => (inr OtherError, mkWorld [] (w_log w ++ [(name, args)]) true)
  | r :: t => (r, mkWorld t (w_log w ++ [(name, args)]) (w_exh w))
  end.

Definition tcode (t : option qtype) : Z :=
  match t with
  | None => 0 | Some TString => 1 | Some TInteger => 2 | Some TFunction => 3
  | Some TDict => 4 | Some TList => 5 | Some TVariable => 6
  end.

Definition driver_entry (s : sexp) : sexp :=
  match s with
  | L [A 0; tab; A maxd; bks; scr; name; st; en; q] =>
      match sList sBuiltin tab, sList sStr bks, sList sOutcome scr,
            sStr name, sStr st, sStr en, sStr q with
      | Some tab, Some bks, Some scr, Some name, Some st, Some en, Some q =>
          let buckets (_ : world) (b : str) := existsb (str_eqb b) bks in
          let '(r, w) := run tab world buckets scripted_body (Z.to_nat maxd) name st en q
                             (mkWorld scr [] false) in
          L [res_s value_s r;
             L (map (fun c => L [str_s (fst c); L (map arg_s (snd c))]) (w_log w));
             bool_s (w_exh w)]
      | _, _, _, _, _, _, _ => bad_case
      end
  | L [A 1; q] =>
      match sStr q with
      | Some q =>
          res_s (fun '((t, tok), rest) => L [L [A (tcode t); str_s tok]; str_s rest]) (parse_token q)
      | None => bad_case
      end
  | _ => bad_case
  end.

Extraction "model.ml" driver_entry.
