(* Driver entry for C15: cases
     (0 (events1) (events2))  -> union_no_overlap : (0 (events)) | (1 errcode) | (2)
     (1 event dt)             -> _split_event     : (first) | (first second)
   Compiled from build/C15 so that model.ml lands there. *)
From AwVerif Require Import Base.Prelude Base.Sexp Model.UnionNoOverlap.
Require Extraction.
Require Import ExtrOcamlBasic.

Definition driver_entry (s : sexp) : sexp :=
  match s with
  | L [A 0; a; b] =>
      match sEvents a, sEvents b with
      | Some a, Some b => res_s events_s (union_no_overlap a b)
      | _, _ => bad_case
      end
  | L [A 1; e; A dt] =>
      match sEvent e with
      | Some e =>
          match split_event e dt with
          | (x, Some y) => L [event_s x; event_s y]
          | (x, None) => L [event_s x]
          end
      | None => bad_case
      end
  | _ => bad_case
  end.

Extraction "model.ml" driver_entry.
