(* Driver entry for the state-level stream of C06: the commit model composed with the store
   model (Model/CrashStore.v) behind the wire format of Model/CrashStoreDriver.v.  Compiled
   from build/C06State so that model.ml lands there. *)
From AwVerif Require Import Base.Prelude Base.Sexp Model.Commit Model.StoreBase Model.SqliteStore
  Model.CrashStore Model.CrashStoreDriver.
Require Extraction.
Require Import ExtrOcamlBasic.

Extraction "model.ml" driver_entry.
