(* Driver entry for C19.  Wire format (s-expressions of integers):
     value     (0 s) | (1 l) | (2 (s ...))          VStr | VOther | VList
     data      ((k value) ...)
     event     (id? ts dur data)                      id? = () | (i)
     rulespec  (regex? select? icase)                 regex? = () | (s); select? = () | ((k ...))
   cases
     (0 retab events ((cat rulespec) ...))            categorize        -> (events)
     (1 retab events ((t rulespec) ...))              tag               -> (events)
     (2 urltab wwwtab events)                         split_url_events  -> res
     (3 subtab key events)                            simplify_string   -> res
     (4 retab rulespec data)                          Rule(spec).match  -> 0 | 1
     (5 (cat ...))                                    _pick_category    -> (s ...)
   tables (the external engines, tabulated by the harness from the real libraries)
     retab   ((p ic s b) ...)        re_search p ic s = b
     urltab  ((value r) ...)         urlparse value = r, r = (0 (v v v v v v)) | (1 errcode)
     wwwtab  ((value b value) ...)   starts_www, drop4
     subtab  ((s p f d) ...)         sub_parens s = p, sub_fps s = f, sub_dot s = d
   A boolean table that lacks a row the model could ask for makes the case bad_case; a
   missing row of a label-valued table yields the label -1, which the harness cannot
   decode.  Compiled from build/C19 so that model.ml lands there. *)
From AwVerif Require Import Base.Prelude Base.Sexp Model.ClassifyBase Model.Classify.
Require Extraction.
Require Import ExtrOcamlBasic.

Definition sValue (s : sexp) : option value :=
  match s with
  | L [A 0; A x] => Some (VStr x)
  | L [A 1; A x] => Some (VOther x)
  | L [A 2; l] => match sZs l with Some l => Some (VList l) | None => None end
  | _ => None
  end.
Definition value_s (v : value) : sexp :=
  match v with
  | VStr x => L [A 0; A x]
  | VOther x => L [A 1; A x]
  | VList l => L [A 2; L (map A l)]
  end.

Definition sKV (s : sexp) : option (Z * value) :=
  match s with
  | L [A k; v] => match sValue v with Some v => Some (k, v) | None => None end
  | _ => None
  end.
Definition sData : sexp -> option dict := sList sKV.
Definition data_s (d : dict) : sexp := L (map (fun kv => L [A (fst kv); value_s (snd kv)]) d).

Definition sCEvent (s : sexp) : option cevent :=
  match s with
  | L [i; A t; A d; x] =>
      match sOptZ i, sData x with
      | Some oi, Some x => Some (mkCE oi t d x)
      | _, _ => None
      end
  | _ => None
  end.
Definition cevent_s (e : cevent) : sexp :=
  L [optZ_s (c_eid e); A (c_ts e); A (c_dur e); data_s (c_data e)].
Definition sCEvents : sexp -> option (list cevent) := sList sCEvent.
Definition cevents_s (l : list cevent) : sexp := L (map cevent_s l).

Definition sSpec (s : sexp) : option rulespec :=
  match s with
  | L [rx; sel; ic] =>
      match sOptZ rx, sBool ic with
      | Some rx, Some ic =>
          match sel with
          | L [] => Some (mkSpec rx None ic)
          | L [ks] => match sZs ks with Some ks => Some (mkSpec rx (Some ks) ic) | None => None end
          | _ => None
          end
      | _, _ => None
      end
  | _ => None
  end.

Definition sCatClass (s : sexp) : option (category * rulespec) :=
  match s with
  | L [c; r] => match sZs c, sSpec r with Some c, Some r => Some (c, r) | _, _ => None end
  | _ => None
  end.
Definition sTagClass (s : sexp) : option (Z * rulespec) :=
  match s with
  | L [A t; r] => match sSpec r with Some r => Some (t, r) | None => None end
  | _ => None
  end.

(* ---- tables ---- *)
Definition value_eqb (a b : value) : bool :=
  match a, b with
  | VStr x, VStr y => x =? y
  | VOther x, VOther y => x =? y
  | VList x, VList y => (Z.of_nat (length x) =? Z.of_nat (length y)) && forallb (fun p => fst p =? snd p) (combine x y)
  | _, _ => false
  end.

Definition rerow := (Z * bool * Z * bool)%type.
Definition sReRow (s : sexp) : option rerow :=
  match s with
  | L [A p; ic; A x; b] =>
      match sBool ic, sBool b with Some ic, Some b => Some (p, ic, x, b) | _, _ => None end
  | _ => None
  end.
Fixpoint re_lookup (t : list rerow) (p : Z) (ic : bool) (x : Z) : option bool :=
  match t with
  | [] => None
  | (p', ic', x', b) :: r =>
      if (p' =? p) && Bool.eqb ic' ic && (x' =? x) then Some b else re_lookup r p ic x
  end.
Definition re_of (t : list rerow) (p : Z) (ic : bool) (x : Z) : bool :=
  match re_lookup t p ic x with Some b => b | None => false end.

Definition data_strs (d : dict) : list Z :=
  flat_map (fun kv => match snd kv with VStr x => [x] | _ => [] end) d.
(* every question Rule.match could ask about these rules and this data has a row *)
Definition re_complete (t : list rerow) (rules : list rule) (datas : list dict) : bool :=
  forallb (fun r => match r_regex r with
                    | None => true
                    | Some (p, ic) =>
                        forallb (fun d => forallb (fun x => match re_lookup t p ic x with
                                                            | Some _ => true | None => false end)
                                                  (data_strs d)) datas
                    end) rules.

Definition sParts (s : sexp) : option urlparts :=
  match s with
  | L [a; b; c; d; e; f] =>
      match sValue a, sValue b, sValue c, sValue d, sValue e, sValue f with
      | Some a, Some b, Some c, Some d, Some e, Some f => Some (mkUrl a b c d e f)
      | _, _, _, _, _, _ => None
      end
  | _ => None
  end.
Definition err_of_code (c : Z) : errclass :=
  match c with
  | 4 => KeyError | 5 => ValueError | 6 => IndexError | 7 => AttributeError | 8 => TypeError
  | _ => OtherError
  end.
Definition sUrlRow (s : sexp) : option (value * res urlparts) :=
  match s with
  | L [v; L [A 0; p]] =>
      match sValue v, sParts p with Some v, Some p => Some (v, Ok p) | _, _ => None end
  | L [v; L [A 1; A c]] =>
      match sValue v with Some v => Some (v, Err (err_of_code c)) | None => None end
  | _ => None
  end.
Fixpoint url_lookup (t : list (value * res urlparts)) (v : value) : option (res urlparts) :=
  match t with
  | [] => None
  | (v', r) :: rest => if value_eqb v' v then Some r else url_lookup rest v
  end.
Definition url_of (t : list (value * res urlparts)) (v : value) : res urlparts :=
  match url_lookup t v with Some r => r | None => Err OtherError end.

Definition sWwwRow (s : sexp) : option (value * bool * value) :=
  match s with
  | L [v; b; w] =>
      match sValue v, sBool b, sValue w with
      | Some v, Some b, Some w => Some (v, b, w)
      | _, _, _ => None
      end
  | _ => None
  end.
Fixpoint www_lookup (t : list (value * bool * value)) (v : value) : option (bool * value) :=
  match t with
  | [] => None
  | (v', b, w) :: rest => if value_eqb v' v then Some (b, w) else www_lookup rest v
  end.
Definition www_of t v : bool := match www_lookup t v with Some (b, _) => b | None => false end.
Definition drop4_of t v : value := match www_lookup t v with Some (_, w) => w | None => VOther (-1) end.
Definition url_complete (ut : list (value * res urlparts)) (wt : list (value * bool * value))
           (events : list cevent) : bool :=
  forallb (fun e => match dget K_url (c_data e) with
                    | None => true
                    | Some u => match url_lookup ut u with
                                | None => false
                                | Some (Ok p) => match www_lookup wt (u_netloc p) with
                                                 | Some _ => true | None => false end
                                | Some _ => true
                                end
                    end) events.

Definition sSubRow (s : sexp) : option (Z * (Z * Z * Z)) :=
  match s with
  | L [A x; A p; A f; A d] => Some (x, (p, f, d))
  | _ => None
  end.
Fixpoint sub_lookup (t : list (Z * (Z * Z * Z))) (x : Z) : option (Z * Z * Z) :=
  match t with
  | [] => None
  | (x', r) :: rest => if x' =? x then Some r else sub_lookup rest x
  end.
Definition sub1 t x := match sub_lookup t x with Some (p, _, _) => p | None => -1 end.
Definition sub2 t x := match sub_lookup t x with Some (_, f, _) => f | None => -1 end.
Definition sub3 t x := match sub_lookup t x with Some (_, _, d) => d | None => -1 end.

Definition init_classes {C} (l : list (C * rulespec)) : list (C * rule) :=
  map (fun cr => (fst cr, rule_init (snd cr))) l.

Definition driver_entry (s : sexp) : sexp :=
  match s with
  | L [A 0; rt; evs; cls] =>
      match sList sReRow rt, sCEvents evs, sList sCatClass cls with
      | Some rt, Some evs, Some cls =>
          let classes := init_classes cls in
          if re_complete rt (map snd classes) (map c_data evs)
          then cevents_s (categorize (re_of rt) evs classes)
          else bad_case
      | _, _, _ => bad_case
      end
  | L [A 1; rt; evs; cls] =>
      match sList sReRow rt, sCEvents evs, sList sTagClass cls with
      | Some rt, Some evs, Some cls =>
          let classes := init_classes cls in
          if re_complete rt (map snd classes) (map c_data evs)
          then cevents_s (tag (re_of rt) evs classes)
          else bad_case
      | _, _, _ => bad_case
      end
  | L [A 2; ut; wt; evs] =>
      match sList sUrlRow ut, sList sWwwRow wt, sCEvents evs with
      | Some ut, Some wt, Some evs =>
          if url_complete ut wt evs
          then res_s cevents_s (split_url_events (url_of ut) (www_of wt) (drop4_of wt) evs)
          else bad_case
      | _, _, _ => bad_case
      end
  | L [A 3; st; A key; evs] =>
      match sList sSubRow st, sCEvents evs with
      | Some st, Some evs =>
          res_s cevents_s (simplify_string (sub1 st) (sub2 st) (sub3 st) evs key)
      | _, _ => bad_case
      end
  | L [A 4; rt; spec; d] =>
      match sList sReRow rt, sSpec spec, sData d with
      | Some rt, Some spec, Some d =>
          let r := rule_init spec in
          if re_complete rt [r] [d] then bool_s (rule_match (re_of rt) r d) else bad_case
      | _, _, _ => bad_case
      end
  | L [A 5; cats] =>
      match sList sZs cats with
      | Some cats => L (map A (pick_category cats))
      | None => bad_case
      end
  | _ => bad_case
  end.

Extraction "model.ml" driver_entry.
