(* Second driver of C20 (round 2): `_comment_out_toml` on the text.  Wire format: a case is
   the list of code points of the text, the answer the list of code points of the result.
   Compiled from build/C20Text so that model.ml lands there. *)
From AwVerif Require Import Base.Prelude Base.Sexp Model.ConfigText.
Require Extraction.
Require Import ExtrOcamlBasic.

Definition driver_entry (s : sexp) : sexp :=
  match sZs s with
  | Some t => L (map A (comment_out_text t))
  | None => bad_case
  end.

Extraction "model.ml" driver_entry.
