(* Driver entry for C18: the commit-bookkeeping model (Model/Commit.v) behind the wire
   format of Model/CommitDriver.v (cases 0 = timed micro-step trace, 1 = script of an API
   call, 2 = peewee autocommit run).  Compiled from build/C18 so that model.ml lands there. *)
From AwVerif Require Import Base.Prelude Base.Sexp Model.Commit Model.CommitDriver.
Require Extraction.
Require Import ExtrOcamlBasic.

Extraction "model.ml" driver_entry.
