(* Driver entry for C18: the commit-bookkeeping model (Model/Commit.v) behind the wire
   format of Model/CommitDriver.v (cases 0 = timed micro-step trace, 1 = script of a storage
   call) plus case 5 = script of a call through Datastore / Bucket (Model/CommitApi.v,
   Model/CommitApiDriver.v) plus cases 6 / 7 = run / script with engine faults
   (Model/CommitFault.v, Model/CommitFaultDriver.v).  Compiled from build/C18 so that model.ml
   lands there. *)
From AwVerif Require Import Base.Prelude Base.Sexp Model.Commit Model.CommitDriver Model.CommitApi
  Model.CommitApiDriver Model.CommitFault Model.CommitFaultDriver.
Require Extraction.
Require Import ExtrOcamlBasic.

Extraction "model.ml" CommitFaultDriver.driver_entry.
