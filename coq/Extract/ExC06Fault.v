(* Driver entry for the engine-fault stream of C06: the fault machine of Model/CommitFault.v
   (cases 6 / 7 as in the C18 driver) plus the call-level vocabulary of
   Model/CommitFaultCalls.v (case 8) behind the wire format of Model/CommitFaultC06Driver.v.
   Compiled from build/C06Fault so that model.ml lands there. *)
From AwVerif Require Import Base.Prelude Base.Sexp Model.Commit Model.CommitDriver Model.CommitFault
  Model.CommitApi Model.CommitApiDriver Model.CommitFaultDriver Model.CommitFaultCalls Model.CommitFaultC06Driver.
Require Extraction.
Require Import ExtrOcamlBasic.

Extraction "model.ml" CommitFaultC06Driver.driver_entry.
