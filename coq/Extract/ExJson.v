(* Driver entry for the JSON model (Model/Json.v).  Strings travel as lists of code points.
   jvalue on the wire:
     (0)                    null
     (1 b)                  bool, b = 0 | 1
     (2 sign l0 l1 ...)     int: sign = 1 | -1, magnitude = sum l_i * 2^(30 i)  (limbs below 2^30: the
                            glue of ocaml/main.ml only moves machine integers)
     (3 (c ...))            float, as its JSON token
     (4 (c ...))            str
     (5 (v ...))            list
     (6 (((c ...) v) ...))  dict, pairs in insertion order
   Cases
     (0 v)          -> res of dumps v            : (c ...)
     (1 (c ...))    -> res of loads text         : v
     (2 v)          -> wfb v                     : 0 | 1
     (3 v)          -> res of loads (dumps v)    : v      (both inside the model)
   Compiled from build/<dir> so that model.ml lands there. *)
From AwVerif Require Import Base.Prelude Base.Sexp Model.Json.
Require Extraction.
Require Import ExtrOcamlBasic.

Definition limb_base : Z := 1073741824.

Definition z_of_limbs (l : list Z) : Z := fold_right (fun x acc => x + limb_base * acc) 0 l.

Fixpoint limbs_of_z (fuel : nat) (n : Z) : list Z :=
  match fuel with
  | O => []
  | S f => if n =? 0 then [] else Z.land n (limb_base - 1) :: limbs_of_z f (Z.shiftr n 30)
  end.

Definition zbig_s (n : Z) : list sexp :=
  let a := Z.abs n in
  A (if n <? 0 then -1 else 1) :: map A (limbs_of_z (S (Z.to_nat (Z.log2 a))) a).

Definition chars_s (l : list Z) : sexp := L (map A l).

Fixpoint sJ (s : sexp) : option jvalue :=
  match s with
  | L [A 0] => Some JNull
  | L [A 1; A b] => Some (JBool (negb (b =? 0)))
  | L (A 2 :: A sg :: limbs) =>
      match opt_all (map sZ limbs) with
      | Some ls => Some (JInt (sg * z_of_limbs ls))
      | None => None
      end
  | L [A 3; t] => match sZs t with Some t => Some (JFloat t) | None => None end
  | L [A 4; t] => match sZs t with Some t => Some (JStr t) | None => None end
  | L [A 5; L vs] =>
      match opt_all (map sJ vs) with Some l => Some (JList l) | None => None end
  | L [A 6; L kvs] =>
      match opt_all (map (fun kv =>
               match kv with
               | L [k; v] =>
                   match sZs k, sJ v with
                   | Some k, Some v => Some (k, v)
                   | _, _ => None
                   end
               | _ => None
               end) kvs) with
      | Some l => Some (JDict l)
      | None => None
      end
  | _ => None
  end.

Fixpoint jvalue_s (v : jvalue) : sexp :=
  match v with
  | JNull => L [A 0]
  | JBool b => L [A 1; bool_s b]
  | JInt n => L (A 2 :: zbig_s n)
  | JFloat t => L [A 3; chars_s t]
  | JStr s => L [A 4; chars_s s]
  | JList l => L [A 5; L (map jvalue_s l)]
  | JDict kvs => L [A 6; L (map (fun kv => L [chars_s (fst kv); jvalue_s (snd kv)]) kvs)]
  end.

Definition driver_entry (s : sexp) : sexp :=
  match s with
  | L [A 0; v] =>
      match sJ v with Some v => res_s chars_s (dumps v) | None => bad_case end
  | L [A 1; t] =>
      match sZs t with Some t => res_s jvalue_s (loads t) | None => bad_case end
  | L [A 2; v] =>
      match sJ v with Some v => bool_s (wfb v) | None => bad_case end
  | L [A 3; v] =>
      match sJ v with
      | Some v => res_s jvalue_s (bind (dumps v) loads)
      | None => bad_case
      end
  | _ => bad_case
  end.

Extraction "model.ml" driver_entry.
