(* Text form of instants: datetime.isoformat() of a UTC-aware datetime, and the subset of
   iso8601.parse_date (iso8601 2.x, site-packages/iso8601/iso8601.py) that reads
   YYYY-MM-DD(T| )HH:MM:SS[.f+][Z|+HH:MM|-HH:MM] back.  Strings are lists of ascii characters,
   instants are Z microseconds since 1970-01-01T00:00Z, dates are proleptic Gregorian.
   Definitions only; facts in Proofs/IsoTimeProofs.v.

   Not covered (the model answers ParseError where iso8601 may accept): week/ordinal
   dates, dates without dashes, times without seconds, "," as the
   fraction mark, offsets written +HHMM or +HH, fractions longer than 20 digits (iso8601
   multiplies a 28-digit Decimal there).  The correspondence run only generates the
   covered subset. *)
From Coq Require Import ZArith Bool List Ascii.
From AwVerif Require Import Base.Prelude.
Open Scope char_scope.
Open Scope Z_scope.

(* ------------------------------------------------------------------------- *)
(* civil calendar <-> day number (days since 1970-01-01) *)

Definition days_from_civil (y m d : Z) : Z :=
  let y' := if m <=? 2 then y - 1 else y in
  let era := y' / 400 in
  let yoe := y' - era * 400 in
  let mp := if 2 <? m then m - 3 else m + 9 in
  let doy := (153 * mp + 2) / 5 + d - 1 in
  let doe := yoe * 365 + yoe / 4 - yoe / 100 + doy in
  era * 146097 + doe - 719468.

Definition civil_from_days (z0 : Z) : Z * Z * Z :=
  let z := z0 + 719468 in
  let era := z / 146097 in
  let doe := z - era * 146097 in
  let yoe := (doe - doe / 1460 + doe / 36524 - doe / 146096) / 365 in
  let doy := doe - (365 * yoe + yoe / 4 - yoe / 100) in
  let mp := (5 * doy + 2) / 153 in
  let d := doy - (153 * mp + 2) / 5 + 1 in
  let m := if mp <? 10 then mp + 3 else mp - 9 in
  let y := yoe + era * 400 in
  (if m <=? 2 then y + 1 else y, m, d).

Definition is_leap (y : Z) : bool :=
  (y mod 4 =? 0) && (negb (y mod 100 =? 0) || (y mod 400 =? 0)).

Definition days_in_month (y m : Z) : Z :=
  if m =? 2 then (if is_leap y then 29 else 28)
  else if (m =? 4) || (m =? 6) || (m =? 9) || (m =? 11) then 30 else 31.

Definition day_us : Z := 86400000000.
Definition min_us : Z := -62135596800000000.       (* 0001-01-01T00:00:00Z *)
Definition max_us : Z := 253402300799999999.       (* 9999-12-31T23:59:59.999999Z *)

(* ------------------------------------------------------------------------- *)
(* printing *)

Definition digit (n : Z) : ascii := ascii_of_N (Z.to_N (48 + n)).
Definition pad2 (n : Z) : list ascii := [digit (n / 10); digit (n mod 10)].
Definition pad4 (n : Z) : list ascii :=
  [digit (n / 1000); digit (n / 100 mod 10); digit (n / 10 mod 10); digit (n mod 10)].
Definition pad6 (n : Z) : list ascii :=
  [digit (n / 100000); digit (n / 10000 mod 10); digit (n / 1000 mod 10);
   digit (n / 100 mod 10); digit (n / 10 mod 10); digit (n mod 10)].

Definition utc_suffix : list ascii := ["+"; "0"; "0"; ":"; "0"; "0"].

(* datetime.isoformat(sep) of an aware datetime whose tzinfo is timezone.utc *)
Definition isoformat_sep (sep : ascii) (t : Z) : list ascii :=
  let days := t / day_us in
  let rem := t mod day_us in
  let '(y, m, d) := civil_from_days days in
  let us := rem mod 1000000 in
  pad4 y ++ "-" :: pad2 m ++ "-" :: pad2 d ++ sep :: pad2 (rem / 3600000000) ++ ":" ::
  pad2 (rem / 60000000 mod 60) ++ ":" :: pad2 (rem / 1000000 mod 60) ++
  (if us =? 0 then [] else "." :: pad6 us) ++ utc_suffix.

Definition isoformat_utc : Z -> list ascii := isoformat_sep "T".   (* x.isoformat() *)
Definition str_utc : Z -> list ascii := isoformat_sep " ".         (* str(x) *)

(* ------------------------------------------------------------------------- *)
(* parsing *)

Definition digit_val (c : ascii) : option Z :=
  let n := Z.of_N (N_of_ascii c) in
  if (48 <=? n) && (n <=? 57) then Some (n - 48) else None.

Fixpoint num_acc (acc : Z) (l : list ascii) : option Z :=
  match l with
  | [] => Some acc
  | c :: r => match digit_val c with Some v => num_acc (acc * 10 + v) r | None => None end
  end.
Definition num (l : list ascii) : option Z := num_acc 0 l.

(* longest prefix of digits (their values), and the rest *)
Fixpoint span_digits (l : list ascii) : list Z * list ascii :=
  match l with
  | [] => ([], [])
  | c :: r => match digit_val c with
              | Some v => let '(ds, rest) := span_digits r in (v :: ds, rest)
              | None => ([], l)
              end
  end.

(* int(Decimal("0." + digits) * Decimal("1000000.0")): the first six digits *)
Fixpoint frac_us (ds : list Z) (k : nat) : Z :=
  match k with
  | O => 0
  | S k' => match ds with
            | [] => 0
            | d :: r => d * 10 ^ Z.of_nat k' + frac_us r k'
            end
  end.

(* the timezone group: offset in microseconds *)
Definition parse_tz (l : list ascii) : res Z :=
  match l with
  | [] => Ok 0
  | ["Z"] => Ok 0
  | [sg; a; b; ":"; c; d] =>
      match num [a; b], num [c; d] with
      | Some h, Some mi =>
          let total := h * 60 + mi in
          if (sg =? "+")%char || (sg =? "-")%char then
            if total <? 1440 then Ok ((if (sg =? "-")%char then - total else total) * 60000000)
            else Err ParseError        (* timezone() refuses |offset| >= 24 h *)
          else Err ParseError
      | _, _ => Err ParseError
      end
  | _ => Err ParseError
  end.

(* iso8601.parse_date on the covered subset: (UTC instant, utcoffset) of the aware
   datetime it returns *)
Definition parse_iso (s : list ascii) : res (Z * Z) :=
  match s with
  | y1 :: y2 :: y3 :: y4 :: "-" :: m1 :: m2 :: "-" :: d1 :: d2 :: sep ::
    h1 :: h2 :: ":" :: i1 :: i2 :: ":" :: s1 :: s2 :: rest =>
      if negb ((sep =? "T")%char || (sep =? " ")%char) then Err ParseError else
      match num [y1; y2; y3; y4], num [m1; m2], num [d1; d2], num [h1; h2], num [i1; i2], num [s1; s2] with
      | Some y, Some m, Some d, Some hh, Some mi, Some ss =>
          let '(us_res, rest') :=
            match rest with
            | "." :: r =>
                let '(ds, r') := span_digits r in
                (match ds with
                 | [] => Err ParseError
                 | _ => if (Z.of_nat (length ds) <=? 20) then Ok (frac_us ds 6) else Err OtherError
                 end, r')
            | _ => (Ok 0, rest)
            end in
          bind us_res (fun us =>
          bind (parse_tz rest') (fun off =>
            if (1 <=? y) && (1 <=? m) && (m <=? 12) && (1 <=? d) && (d <=? days_in_month y m)
               && (hh <=? 23) && (mi <=? 59) && (ss <=? 59) then
              let local := days_from_civil y m d * day_us
                           + ((hh * 60 + mi) * 60 + ss) * 1000000 + us in
              Ok (local - off, off)
            else Err ParseError))
      | _, _, _, _, _, _ => Err ParseError
      end
  | _ => Err ParseError
  end.
