(* Object-ownership (heap) model of aw_datastore/storages/memory.py (as repaired by
   /repo 97358ba) for C01 (ownership clause) and C12.  Definitions only.

   A heap is a list of cells, a location is an index into it.  A cell is one *mutable*
   Python object: an Event (a dict subclass with the scalar fields id/timestamp/duration
   and one reference, to its data dict) or a JSON container (dict or list) whose
   immutable scalar members (str, int, float, bool, None, datetime, timedelta) are folded
   into an opaque payload label and whose container members are child references.
   Immutable objects are not cells: sharing them is unobservable.

   copy.deepcopy allocates a fresh cell for every cell reachable from its argument.  The
   recursion is on explicit fuel (the heap size plus one); Proofs/MemHeapCopy.v proves that this fuel
   suffices on closed acyclic heaps ("JSON data is acyclic" is the invariant), so OutOfFuel
   is unreachable there.  Python's deepcopy keeps a memo and therefore preserves sharing
   *inside* the copied value; this model unshares it.  The tree unfolding ([content]) of the
   copy and the separation between copy and original, which are what C01/C12 speak about,
   are the same either way.

   The state is the heap, the store's roots (what MemoryStorage.db / ._metadata refer to:
   per bucket a metadata dict and a list of Event objects, in dict/list order) and the
   roots the caller holds (arguments it built, values handed out to it).  The containers
   `db`, `_metadata` and the per-bucket lists are never handed out and are the record
   [state] itself, not cells. *)
From AwVerif Require Import Base.Prelude.
From Coq Require Import Arith.

Definition loc := nat.

Inductive tag :=
  | TEv (id : option Z) (ts dur : Z)     (* aw_core.models.Event: id, timestamp, duration (us) *)
  | TNode (payload : Z).                  (* dict / list: label of its keys and scalar members *)

Inductive cell := Cell (t : tag) (children : list loc).

Definition ctag (c : cell) : tag := match c with Cell t _ => t end.
Definition children (c : cell) : list loc := match c with Cell _ ks => ks end.

Definition heap := list cell.

Definition lookup (h : heap) (l : loc) : option cell := nth_error h l.

Definition alloc (h : heap) (c : cell) : heap * loc := (h ++ [c], length h).

Fixpoint update (h : heap) (l : loc) (c : cell) : heap :=
  match h, l with
  | [], _ => []
  | _ :: t, O => c :: t
  | x :: t, S n => x :: update t n c
  end.

(* The abstract content of a value: its tree unfolding. *)
Inductive tree := T (t : tag) (kids : list tree).

Fixpoint map_res {X Y} (f : X -> res Y) (l : list X) : res (list Y) :=
  match l with
  | [] => Ok []
  | x :: t => bind (f x) (fun y => bind (map_res f t) (fun ys => Ok (y :: ys)))
  end.

(* thread a heap through a list of locations *)
Fixpoint thread (f : heap -> loc -> res (heap * loc)) (h : heap) (ks : list loc)
  : res (heap * list loc) :=
  match ks with
  | [] => Ok (h, [])
  | k :: t =>
      bind (f h k) (fun hk =>
      bind (thread f (fst hk) t) (fun ht => Ok (fst ht, snd hk :: snd ht)))
  end.

Fixpoint content (fuel : nat) (h : heap) (l : loc) : res tree :=
  match fuel with
  | O => OutOfFuel
  | S f =>
      match lookup h l with
      | None => Err KeyError                     (* dangling reference: excluded by [closed] *)
      | Some (Cell t ks) => bind (map_res (content f h) ks) (fun kids => Ok (T t kids))
      end
  end.

(* copy.deepcopy: a fresh cell for every cell reachable from l *)
Fixpoint dcopy (fuel : nat) (h : heap) (l : loc) : res (heap * loc) :=
  match fuel with
  | O => OutOfFuel
  | S f =>
      match lookup h l with
      | None => Err KeyError
      | Some (Cell t ks) =>
          bind (thread (dcopy f) h ks) (fun r => Ok (alloc (fst r) (Cell t (snd r))))
      end
  end.

(* one more than the heap size, so that a dangling argument is reported as such *)
Definition fuel_of (h : heap) : nat := S (length h).
Definition deepcopy (h : heap) (l : loc) : res (heap * loc) := dcopy (fuel_of h) h l.
Definition content_of (h : heap) (l : loc) : res tree := content (fuel_of h) h l.

(* copy.copy: a fresh top cell sharing the children.  memory.py no longer uses it (it did
   before 97358ba); it is here so that the old behaviour can be stated (MemHeapProofs:
   shallow_copy_shares). *)
Definition shallow_copy (h : heap) (l : loc) : res (heap * loc) :=
  match lookup h l with
  | None => Err KeyError
  | Some c => Ok (alloc h c)
  end.

(* ------------------------------------------------------------------------- *)
(* State *)

Record bucket := mkBucket { b_id : Z; b_meta : loc; b_events : list loc }.
Record state := mkState { heap_of : heap; store : list bucket; held : list loc }.

Definition init : state := mkState [] [] [].

Definition bucket_roots (b : bucket) : list loc := b_meta b :: b_events b.
Definition store_roots (s : state) : list loc := flat_map bucket_roots (store s).

Definition find_bucket (st : list bucket) (b : Z) : option bucket :=
  find (fun x => b_id x =? b) st.

(* assignment to an existing key keeps the key's position in the dict *)
Fixpoint set_bucket (st : list bucket) (nb : bucket) : list bucket :=
  match st with
  | [] => []
  | x :: t => if b_id x =? b_id nb then nb :: t else x :: set_bucket t nb
  end.

Definition put_bucket (st : list bucket) (nb : bucket) : list bucket :=
  match find_bucket st (b_id nb) with
  | Some _ => set_bucket st nb
  | None => st ++ [nb]
  end.

Definition del_bucket (st : list bucket) (b : Z) : list bucket :=
  filter (fun x => negb (b_id x =? b)) st.

Definition EMPTY_DICT : Z := 0.       (* payload label of {} *)
Definition BUCKETS_DICT : Z := -1.    (* the dict built by buckets() *)
Definition EVENT_LIST : Z := -2.      (* the list returned by get_events *)

(* an op either fails with a Python exception class (state as before, apart from
   unreachable garbage, which is not modelled) or yields the new state and what it
   returned to the caller *)
Inductive ret :=
  | RNone                 (* None *)
  | RRoot (r : loc)       (* a new object, now held by the caller *)
  | RInt (z : Z)          (* an int / bool: immutable *).

Definition hold (s : state) (r : loc) : state :=
  mkState (heap_of s) (store s) (held s ++ [r]).
Definition set_heap (s : state) (h : heap) : state := mkState h (store s) (held s).
Definition set_store (s : state) (st : list bucket) : state := mkState (heap_of s) st (held s).

(* ------------------------------------------------------------------------- *)
(* Bucket metadata: memory.py create_bucket / update_bucket / delete_bucket /
   get_metadata / buckets *)

(* data = None encodes a falsy argument (None or an empty dict): `if data` *)
Definition create_bucket (s : state) (b : Z) (p : Z) (data : option loc) : res (state * ret) :=
  bind (match data with
        | Some d => deepcopy (heap_of s) d
        | None => Ok (alloc (heap_of s) (Cell (TNode EMPTY_DICT) []))
        end) (fun hd =>
  let hm := alloc (fst hd) (Cell (TNode p) [snd hd]) in
  Ok (mkState (fst hm) (put_bucket (store s) (mkBucket b (snd hm) [])) (held s), RNone)).

(* p = Some p' when one of type/client/hostname/name is truthy (p' labels the resulting
   scalar members); the metadata dict is mutated in place *)
Definition update_bucket (s : state) (b : Z) (p : option Z) (data : option loc) : res (state * ret) :=
  match find_bucket (store s) b with
  | None => Err ValueError
  | Some bk =>
      match lookup (heap_of s) (b_meta bk) with
      | Some (Cell (TNode p0) [d0]) =>
          let p1 := match p with Some x => x | None => p0 end in
          bind (match data with
                | Some d => deepcopy (heap_of s) d
                | None => Ok (heap_of s, d0)
                end) (fun hd =>
          Ok (set_heap s (update (fst hd) (b_meta bk) (Cell (TNode p1) [snd hd])), RNone))
      | _ => Err TypeError
      end
  end.

Definition delete_bucket (s : state) (b : Z) : res (state * ret) :=
  match find_bucket (store s) b with
  | None => Err ValueError
  | Some _ => Ok (set_store s (del_bucket (store s) b), RNone)
  end.

Definition get_metadata (s : state) (b : Z) : res (state * ret) :=
  match find_bucket (store s) b with
  | None => Err ValueError
  | Some bk =>
      bind (deepcopy (heap_of s) (b_meta bk)) (fun hr =>
      Ok (hold (set_heap s (fst hr)) (snd hr), RRoot (snd hr)))
  end.

Definition buckets (s : state) : res (state * ret) :=
  bind (thread deepcopy (heap_of s) (map b_meta (store s))) (fun hms =>
  let hd := alloc (fst hms) (Cell (TNode BUCKETS_DICT) (snd hms)) in
  Ok (hold (set_heap s (fst hd)) (snd hd), RRoot (snd hd))).

(* ------------------------------------------------------------------------- *)
(* Events *)

Record eview := mkView { v_root : loc; v_id : option Z; v_ts : Z; v_dur : Z }.

(* reading the scalar fields of a stored Event goes through the heap: were a stored
   object reachable by the caller, a caller write would change what the store does *)
Definition view (h : heap) (r : loc) : res eview :=
  match lookup h r with
  | Some (Cell (TEv i t d) _) => Ok (mkView r i t d)
  | _ => Err TypeError
  end.

Definition set_id (h : heap) (r : loc) (i : option Z) : res heap :=
  match lookup h r with
  | Some (Cell (TEv _ t d) ks) => Ok (update h r (Cell (TEv i t d) ks))
  | _ => Err AttributeError
  end.

Definition oid_eqb (a b : option Z) : bool := option_eqb Z.eqb a b.

(* indices whose event has the given id, last index first:
   reversed(list(enumerate(self.db[bucket_id]))) *)
Definition matching_rev (vs : list eview) (i : option Z) : list nat :=
  rev (map fst (filter (fun nv => oid_eqb (v_id (snd nv)) i) (combine (seq 0 (length vs)) vs))).

Fixpoint set_nth {X} (l : list X) (n : nat) (x : X) : list X :=
  match l, n with
  | [], _ => []
  | _ :: t, O => x :: t
  | y :: t, S m => y :: set_nth t m x
  end.

Fixpoint remove_nth {X} (l : list X) (n : nat) : list X :=
  match l, n with
  | [], _ => []
  | _ :: t, O => t
  | y :: t, S m => y :: remove_nth t m
  end.

(* replace: for every matching index (last first): event = deepcopy(event);
   event.id = event_id; db[idx] = event  -- `event` is rebound, so the second matching
   index receives a copy of the first copy *)
Fixpoint replace_at (h : heap) (evs : list loc) (idxs : list nat) (src : loc) (i : option Z)
  : res (heap * list loc) :=
  match idxs with
  | [] => Ok (h, evs)
  | n :: t =>
      bind (deepcopy h src) (fun hc =>
      bind (set_id (fst hc) (snd hc) i) (fun h2 =>
      replace_at h2 (set_nth evs n (snd hc)) t (snd hc) i))
  end.

Definition replace (s : state) (b : Z) (i : option Z) (e : loc) : res (state * ret) :=
  match find_bucket (store s) b with
  | None => Err KeyError
  | Some bk =>
      bind (map_res (view (heap_of s)) (b_events bk)) (fun vs =>
      bind (replace_at (heap_of s) (b_events bk) (matching_rev vs i) e i) (fun he =>
      Ok (mkState (fst he) (set_bucket (store s) (mkBucket b (b_meta bk) (snd he))) (held s), RNone)))
  end.

Definition id_or_0 (o : option Z) : Z := match o with Some z => z | None => 0 end.

Definition next_id (vs : list eview) : Z :=
  match vs with
  | [] => 0
  | v :: t => fold_left Z.max (map (fun x => id_or_0 (v_id x)) t) (id_or_0 (v_id v)) + 1
  end.

(* insert_one without the bookkeeping of who holds the returned copy *)
Definition insert_core (s : state) (b : Z) (e : loc) : res (state * loc) :=
  match lookup (heap_of s) e with
  | Some (Cell (TEv (Some i) _ _) _) =>
      bind (replace s b (Some i) e) (fun sr =>
      bind (deepcopy (heap_of (fst sr)) e) (fun hr =>
      Ok (set_heap (fst sr) (fst hr), snd hr)))
  | Some (Cell (TEv None _ _) _) =>
      bind (deepcopy (heap_of s) e) (fun hc =>
      match find_bucket (store s) b with
      | None => Err KeyError
      | Some bk =>
          bind (map_res (view (fst hc)) (b_events bk)) (fun vs =>
          bind (set_id (fst hc) (snd hc) (Some (next_id vs))) (fun h2 =>
          bind (deepcopy h2 (snd hc)) (fun hr =>
          Ok (mkState (fst hr)
                      (set_bucket (store s) (mkBucket b (b_meta bk) (b_events bk ++ [snd hc])))
                      (held s), snd hr))))
      end)
  | _ => Err AttributeError
  end.

Definition insert_one (s : state) (b : Z) (e : loc) : res (state * ret) :=
  bind (insert_core s b e) (fun sr => Ok (hold (fst sr) (snd sr), RRoot (snd sr))).

(* AbstractStorage.insert_many: for event in events: self.insert_one(bucket_id, event);
   the copies insert_one returns are dropped *)
Fixpoint insert_many_core (s : state) (b : Z) (es : list loc) : res state :=
  match es with
  | [] => Ok s
  | e :: t => bind (insert_core s b e) (fun sr => insert_many_core (fst sr) b t)
  end.

Definition insert_many (s : state) (b : Z) (es : list loc) : res (state * ret) :=
  bind (insert_many_core s b es) (fun s' => Ok (s', RNone)).

(* sorted(db, key=timestamp)[-1]: the last of the events with the greatest timestamp *)
Fixpoint last_max (vs : list eview) (best : option eview) : option eview :=
  match vs with
  | [] => best
  | v :: t =>
      last_max t (match best with
                  | None => Some v
                  | Some w => if v_ts w <=? v_ts v then Some v else Some w
                  end)
  end.

Definition replace_last (s : state) (b : Z) (e : loc) : res (state * ret) :=
  match find_bucket (store s) b with
  | None => Err KeyError
  | Some bk =>
      bind (map_res (view (heap_of s)) (b_events bk)) (fun vs =>
      match last_max vs None with
      | None => Err IndexError
      | Some v => replace s b (v_id v) e
      end)
  end.

Definition get_event (s : state) (b : Z) (i : Z) : res (state * ret) :=
  match find_bucket (store s) b with
  | None => Err KeyError
  | Some bk =>
      bind (map_res (view (heap_of s)) (b_events bk)) (fun vs =>
      match matching_rev vs (Some i) with
      | [] => Ok (s, RNone)
      | n :: _ =>
          match nth_error (b_events bk) n with
          | None => Err IndexError
          | Some r =>
              bind (deepcopy (heap_of s) r) (fun hr =>
              Ok (hold (set_heap s (fst hr)) (snd hr), RRoot (snd hr)))
          end
      end)
  end.

(* sorted(events, key=timestamp)[::-1], window filter, limit *)
Definition select_events (vs : list eview) (limit : Z) (st en : option Z) : list eview :=
  let sorted := rev (sort_by v_ts vs) in
  let f1 := match st with
            | Some t0 => filter (fun v => t0 <=? v_ts v + v_dur v) sorted
            | None => sorted
            end in
  let f2 := match en with
            | Some t1 => filter (fun v => v_ts v <=? t1) f1
            | None => f1
            end in
  if limit =? 0 then [] else if limit <? 0 then f2 else firstn (Z.to_nat limit) f2.

Definition get_events (s : state) (b : Z) (limit : Z) (st en : option Z) : res (state * ret) :=
  match find_bucket (store s) b with
  | None => Err KeyError
  | Some bk =>
      bind (map_res (view (heap_of s)) (b_events bk)) (fun vs =>
      bind (thread deepcopy (heap_of s) (map v_root (select_events vs limit st en))) (fun hcs =>
      let hl := alloc (fst hcs) (Cell (TNode EVENT_LIST) (snd hcs)) in
      Ok (hold (set_heap s (fst hl)) (snd hl), RRoot (snd hl))))
  end.

Definition count_events (vs : list eview) (st en : option Z) : Z :=
  Z.of_nat (length (filter (fun v =>
    (match st with Some t0 => t0 <=? v_ts v + v_dur v | None => true end) &&
    (match en with Some t1 => v_ts v <=? t1 | None => true end)) vs)).

Definition get_eventcount (s : state) (b : Z) (st en : option Z) : res (state * ret) :=
  match find_bucket (store s) b with
  | None => Err KeyError
  | Some bk =>
      bind (map_res (view (heap_of s)) (b_events bk)) (fun vs =>
      Ok (s, RInt (count_events vs st en)))
  end.

Definition delete (s : state) (b : Z) (i : Z) : res (state * ret) :=
  match find_bucket (store s) b with
  | None => Err KeyError
  | Some bk =>
      bind (map_res (view (heap_of s)) (b_events bk)) (fun vs =>
      match matching_rev vs (Some i) with
      | [] => Ok (s, RInt 0)
      | n :: _ =>
          Ok (set_store s (set_bucket (store s)
                (mkBucket b (b_meta bk) (remove_nth (b_events bk) n))), RInt 1)
      end)
  end.

(* ------------------------------------------------------------------------- *)
(* The caller: allocates objects and writes to any object it can reach.  Which writes
   are legitimate (target and new children reachable from a held root, no cycle
   created) is a precondition stated in Proofs/Ownership.v ([caller_ok]); the functions
   themselves are total. *)

Definition caller_alloc (s : state) (c : cell) : state :=
  let hl := alloc (heap_of s) c in hold (set_heap s (fst hl)) (snd hl).

Definition caller_write (s : state) (l : loc) (c : cell) : state :=
  set_heap s (update (heap_of s) l c).

(* ------------------------------------------------------------------------- *)
(* One history step *)

Inductive action :=
  | CreateBucket (b p : Z) (data : option loc)
  | UpdateBucket (b : Z) (p : option Z) (data : option loc)
  | DeleteBucket (b : Z)
  | GetMetadata (b : Z)
  | Buckets
  | InsertOne (b : Z) (e : loc)
  | InsertMany (b : Z) (es : list loc)
  | Replace (b : Z) (i : Z) (e : loc)
  | ReplaceLast (b : Z) (e : loc)
  | GetEvent (b i : Z)
  | GetEvents (b limit : Z) (st en : option Z)
  | GetEventcount (b : Z) (st en : option Z)
  | Delete (b i : Z)
  | CallerAlloc (c : cell)
  | CallerWrite (l : loc) (c : cell).

Definition is_caller (a : action) : bool :=
  match a with CallerAlloc _ | CallerWrite _ _ => true | _ => false end.

Definition step (s : state) (a : action) : res (state * ret) :=
  match a with
  | CreateBucket b p d => create_bucket s b p d
  | UpdateBucket b p d => update_bucket s b p d
  | DeleteBucket b => delete_bucket s b
  | GetMetadata b => get_metadata s b
  | Buckets => buckets s
  | InsertOne b e => insert_one s b e
  | InsertMany b es => insert_many s b es
  | Replace b i e => replace s b (Some i) e
  | ReplaceLast b e => replace_last s b e
  | GetEvent b i => get_event s b i
  | GetEvents b l st en => get_events s b l st en
  | GetEventcount b st en => get_eventcount s b st en
  | Delete b i => delete s b i
  | CallerAlloc c => Ok (caller_alloc s c, RRoot (length (heap_of s)))
  | CallerWrite l c => Ok (caller_write s l c, RNone)
  end.

(* a failing operation leaves the state as it was *)
Definition step_state (s : state) (a : action) : state :=
  match step s a with Ok sr => fst sr | _ => s end.

Definition run (acts : list action) (s : state) : state := fold_left step_state acts s.

(* ------------------------------------------------------------------------- *)
(* What the store contains: the tree unfolding of every store root *)

Definition bucket_content (h : heap) (b : bucket) : Z * res tree * list (res tree) :=
  (b_id b, content_of h (b_meta b), map (content_of h) (b_events b)).

Definition content_store (s : state) : list (Z * res tree * list (res tree)) :=
  map (bucket_content (heap_of s)) (store s).
