(* Data dicts with structure on the heap of Model/MemHeap.v (used by the heap-level models
   of the C16 and C19 transforms, Model/GroupHeap.v and Model/ClassifyHeap.v).
   Definitions only; the laws are in Proofs/DictHeapBase.v.

   A dict object is a cell  Cell (TNode p) ks  as before.  Here the payload p is not an
   opaque label: it is the code ([denc]) of the dict's *skeleton*
       hdict = list (key label * option scalar label)      in Python insertion order
   where  Some v  is an immutable value (str, int, float, bool, None: its label) and
   None  says "the value is a mutable object (list / dict): the next child".  ks are those
   children in the order of their entries.  So the cell still has exactly the references
   the Python dict has, and two dict cells with equal payloads and equal children are the
   same association list.  [zip]/[unzip_*] convert between (skeleton, children) and the
   association list  zdict = list (key * (ZS scalar | ZK location))  on which d[k],
   `k in d` and d[k] = v are the usual functions ([zget], [zset]: replace in place, else
   append).

   The code is a Goedel numbering (sign/magnitude per number, unary, into one positive),
   negative and below -10, so that it collides with none of the labels the harness
   assigns (>= 0) nor with BUCKETS_DICT / EVENT_LIST; the only fact the proofs use is
   [ddec (denc d) = d] (Proofs/DictHeapBase.v).  On the wire the extracted driver receives
   and prints skeletons, never codes (Extract/ExTHeap.v). *)
From AwVerif Require Import Base.Prelude Model.MemHeap Model.TransformHeap.
From Coq Require Import Arith.

(* ------------------------------------------------------------------------- *)
(* the code *)

Definition hentry := (Z * option Z)%type.
Definition hdict := list hentry.

Definition sgn_of (z : Z) : nat := if z <? 0 then 1%nat else 0%nat.
Definition of_sgn (s m : nat) : Z := match s with O => Z.of_nat m | S _ => - Z.of_nat m end.

Fixpoint flat (d : hdict) : list nat :=
  match d with
  | [] => []
  | (k, None) :: t => 0%nat :: sgn_of k :: Z.abs_nat k :: flat t
  | (k, Some v) :: t => 1%nat :: sgn_of k :: Z.abs_nat k :: sgn_of v :: Z.abs_nat v :: flat t
  end.

Fixpoint parse (l : list nat) : hdict :=
  match l with
  | O :: s :: m :: t => (of_sgn s m, None) :: parse t
  | S _ :: s :: m :: s2 :: m2 :: t => (of_sgn s m, Some (of_sgn s2 m2)) :: parse t
  | _ => []
  end.

Fixpoint ones (n : nat) (p : positive) : positive :=
  match n with O => p | S m => xI (ones m p) end.

Fixpoint penc (l : list nat) : positive :=
  match l with [] => xH | n :: t => ones n (xO (penc t)) end.

Fixpoint pdec (p : positive) (cur : nat) : list nat :=
  match p with
  | xH => []
  | xO q => cur :: pdec q 0
  | xI q => pdec q (S cur)
  end.

Definition denc (d : hdict) : Z := - Zpos (penc (flat d)) - 10.
Definition ddec (z : Z) : hdict :=
  if z <? -10 then parse (pdec (Z.to_pos (- (z + 10))) 0) else [].

(* a list of scalars (what `$category` / `$tags` hold: string labels) as the payload of a
   list object without mutable members *)
Definition lenc (l : list Z) : Z := denc (map (fun s => (s, Some 0)) l).
Definition ldec (p : Z) : list Z := map fst (ddec p).

(* ------------------------------------------------------------------------- *)
(* association lists with references *)

Inductive zval := ZS (v : Z) | ZK (l : loc).
Definition zdict := list (Z * zval).

Fixpoint zip (d : hdict) (ks : list loc) : option zdict :=
  match d with
  | [] => match ks with [] => Some [] | _ :: _ => None end
  | (k, Some v) :: t =>
      match zip t ks with Some r => Some ((k, ZS v) :: r) | None => None end
  | (k, None) :: t =>
      match ks with
      | [] => None
      | l :: ks' => match zip t ks' with Some r => Some ((k, ZK l) :: r) | None => None end
      end
  end.

Fixpoint unzip_d (z : zdict) : hdict :=
  match z with
  | [] => []
  | (k, ZS v) :: t => (k, Some v) :: unzip_d t
  | (k, ZK _) :: t => (k, None) :: unzip_d t
  end.

Fixpoint unzip_k (z : zdict) : list loc :=
  match z with
  | [] => []
  | (_, ZS _) :: t => unzip_k t
  | (_, ZK l) :: t => l :: unzip_k t
  end.

(* d.get(k) / `k in d` *)
Fixpoint zget (k : Z) (z : zdict) : option zval :=
  match z with
  | [] => None
  | (k', v) :: t => if k' =? k then Some v else zget k t
  end.

(* d[k] = v *)
Fixpoint zset (k : Z) (v : zval) (z : zdict) : zdict :=
  match z with
  | [] => [(k, v)]
  | (k', v') :: t => if k' =? k then (k', v) :: t else (k', v') :: zset k v t
  end.

(* ------------------------------------------------------------------------- *)
(* dict objects *)

Definition dict_cell (z : zdict) : cell := Cell (TNode (denc (unzip_d z))) (unzip_k z).

(* reading the whole dict at location d (every use of event.data[...] goes through it) *)
Definition rd_dict (h : heap) (d : loc) : res zdict :=
  match lookup h d with
  | Some (Cell (TNode p) ks) =>
      match zip (ddec p) ks with Some z => Ok z | None => Err TypeError end
  | Some _ => Err TypeError
  | None => Err KeyError
  end.

(* the dict at d becomes z (one or several d[k] = v in a row) *)
Definition wr_dict (h : heap) (d : loc) (z : zdict) : res heap :=
  match lookup h d with
  | Some (Cell (TNode _) _) => Ok (update h d (dict_cell z))
  | Some _ => Err TypeError
  | None => Err KeyError
  end.

(* event.data as an association list *)
Definition ev_dict (h : heap) (e : loc) : res zdict :=
  bind (rd_data h e) (fun dl => rd_dict h dl).

(* the label of a value: its scalar label, or the payload label of the list / dict object
   (for a list that is the label of its Python-== class, assigned by the harness; for a
   list of strings it may be [lenc] of them) *)
Definition val_label (h : heap) (v : zval) : res Z :=
  match v with
  | ZS x => Ok x
  | ZK l =>
      match lookup h l with
      | Some (Cell (TNode q) _) => Ok q
      | Some _ => Err TypeError
      | None => Err KeyError
      end
  end.

(* threading a heap through a list *)
Fixpoint fold_res {S X} (f : S -> X -> res S) (l : list X) (s : S) : res S :=
  match l with
  | [] => Ok s
  | x :: t => bind (f s x) (fun s' => fold_res f t s')
  end.
