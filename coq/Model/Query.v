(* Model of aw_query/query2.py (scanners, parser, interpreter, query()) and of the call
   plumbing of aw_query/functions.py (q2_function's wrapper g, q2_typecheck, the registry),
   as they are in /repo after the repairs 5c15813 2ca5c3a 10c6efe bc75bb3 a51606e.
   Definitions only.  Every Python operation that can raise is explicit ([Err IndexError]
   for s[0] on "", [Err AttributeError] for None.parse, [Err ValueError] for int), so that
   "no IndexError escapes" is a theorem (Proofs/QueryTotal.v), not an assumption.
   Recursion on substrings is by explicit fuel; [OutOfFuel] is proved unreachable. *)
From AwVerif Require Import Base.Prelude Model.PyStr.
Open Scope Z_scope.

(* ------------------------------------------------------------------------------- *)
(* values                                                                          *)

Inductive value :=
  | VInt (z : Z)
  | VStr (s : str)
  | VBool (b : bool)
  | VNone
  | VList (l : list value)
  | VDict (d : list (str * value))      (* insertion-ordered, keys distinct *)
  | VOpaque (z : Z).                    (* a result of a built-in that is none of the above
                                           (Event, timedelta, ...): never list/str/int/float *)

(* Python dict: d[k] = v keeps the position of an existing key *)
Fixpoint dict_set {V} (d : list (str * V)) (k : str) (v : V) : list (str * V) :=
  match d with
  | [] => [(k, v)]
  | (k', v') :: t => if str_eqb k' k then (k', v) :: t else (k', v') :: dict_set t k v
  end.
Fixpoint dict_get {V} (d : list (str * V)) (k : str) : option V :=
  match d with
  | [] => None
  | (k', v') :: t => if str_eqb k' k then Some v' else dict_get t k
  end.
Definition dict_mem {V} (d : list (str * V)) (k : str) : bool :=
  match dict_get d k with Some _ => true | None => false end.

Definition namespace := list (str * value).

(* ------------------------------------------------------------------------------- *)
(* tokens                                                                          *)

Inductive qtype := TString | TInteger | TFunction | TDict | TList | TVariable.

Definition qtype_eqb (a b : qtype) : bool :=
  match a, b with
  | TString, TString | TInteger, TInteger | TFunction, TFunction
  | TDict, TDict | TList, TList | TVariable, TVariable => true
  | _, _ => false
  end.

(* qtypes: Sequence[Type[QToken]] = [QString, QInteger, QFunction, QDict, QList, QVariable] *)
Definition qtypes : list qtype := [TString; TInteger; TFunction; TDict; TList; TVariable].

Inductive qtoken :=
  | QInteger (z : Z)
  | QVariable (name : str) (captured : value)   (* value captured at parse time; None if absent *)
  | QString (s : str)
  | QFunction (name : str) (args : list qtoken)
  | QDict (d : list (str * qtoken))
  | QList (l : list qtoken).

(* ------------------------------------------------------------------------------- *)
(* the six check scanners: (token, remainder); token None / "" is falsy            *)

(* QInteger.check *)
Fixpoint take_digits (s : str) : str :=
  match s with
  | c :: t => if is_digit c then c :: take_digits t else []
  | [] => []
  end.
Definition check_integer (s : str) : option str * str :=
  let token := take_digits s in (Some token, drop (length token) s).

(* QVariable.check: for i, char in enumerate(string) *)
Fixpoint var_scan (i : nat) (s : str) : str :=
  match s with
  | [] => []
  | c :: t =>
      if is_alpha c || (c =? c_us) then c :: var_scan (S i) t
      else if negb (Nat.eqb i 0) && is_digit c then c :: var_scan (S i) t
      else []
  end.
Definition check_variable (s : str) : option str * str :=
  let token := var_scan 0 s in (Some token, drop (length token) s).

Definition prev_not_bs (prev : option Z) : bool :=
  match prev with Some c => negb (c =? c_bs) | None => true end.

(* QString.check: the loop over string[1:]; returns the characters appended to token
   (the break happens before prev_char is updated) *)
Fixpoint str_scan (q : Z) (prev : option Z) (s : str) : str :=
  match s with
  | [] => []
  | c :: t =>
      if (c =? q) && prev_not_bs prev then [c]
      else c :: str_scan q (Some c) t
  end.
Definition check_string (s : str) : res (option str * str) :=
  bind (first_char s) (fun q =>
  if negb (q =? c_dq) && negb (q =? c_sq) then Ok (Some [], s)
  else
    let token := q :: str_scan q None (drop 1 s) in
    bind (last_char token) (fun l =>
    if negb (l =? q) || Nat.ltb (length token) 2 then Err ParseError
    else Ok (Some token, drop (length token) s))).

(* The bracket-counting loop shared (textually triplicated in query2.py) by
   QFunction.check, QDict.check and QList.check.  [dg] is QFunction.check's extra clause
   `elif i != 0 and char.isdigit(): pass`.  State: i, to_consume, single_quote,
   double_quote, prev_char.  The `if to_consume == 0: break` precedes `prev_char = char`. *)
Definition bstep (opn cls : Z) (dg : bool) (c : Z) (i : nat) (tc : Z) (sq dq : bool)
    (prev : option Z) : Z * bool * bool :=
  if (c =? c_sq) && prev_not_bs prev && negb dq then (tc, negb sq, dq)
  else if (c =? c_dq) && prev_not_bs prev && negb sq then (tc, sq, negb dq)
  else if sq || dq then (tc, sq, dq)
  else if dg && negb (Nat.eqb i 0) && is_digit c then (tc, sq, dq)
  else if c =? opn then (tc + 1, sq, dq)
  else if c =? cls then (tc - 1, sq, dq)
  else (tc, sq, dq).

Fixpoint bscan (opn cls : Z) (dg : bool) (s : str) (i : nat) (tc : Z) (sq dq : bool)
    (prev : option Z) : nat * Z :=
  match s with
  | [] => (i, tc)
  | c :: t =>
      let i := S i in
      let '(tc, sq, dq) := bstep opn cls dg c i tc sq dq prev in
      if tc =? 0 then (i, tc) else bscan opn cls dg t i tc sq dq (Some c)
  end.

(* QFunction.check, first loop: i and found *)
Fixpoint fn_head (i : nat) (s : str) : nat * bool :=
  match s with
  | [] => (i, false)
  | c :: t =>
      if is_alpha c || (c =? c_us) then fn_head (S i) t
      else if negb (Nat.eqb i 0) && is_digit c then fn_head (S i) t
      else if c =? c_lpar then (S i, true)
      else (i, false)
  end.
Definition check_function (s : str) : option str * str :=
  let '(i, found) := fn_head 0 s in
  if negb found then (None, s)
  else
    let '(i, tc) := bscan c_lpar c_rpar true (drop i s) i 1 false false None in
    if negb (tc =? 0) then (None, s)
    else (Some (take i s), drop i s).

(* QDict.check / QList.check: no test of to_consume after the loop (an unclosed "[1"
   yields the token "[1") *)
Definition check_bracket (opn cls : Z) (s : str) : res (option str * str) :=
  bind (first_char s) (fun c0 =>
  if negb (c0 =? opn) then Ok (None, s)
  else
    let '(i, _) := bscan opn cls false (drop 1 s) 1 1 false false None in
    Ok (Some (take i s), drop i s)).
Definition check_dict := check_bracket c_lbrc c_rbrc.
Definition check_list := check_bracket c_lbrk c_rbrk.

Definition check (t : qtype) (s : str) : res (option str * str) :=
  match t with
  | TString => check_string s
  | TInteger => Ok (check_integer s)
  | TFunction => Ok (check_function s)
  | TDict => check_dict s
  | TList => check_list s
  | TVariable => Ok (check_variable s)
  end.

Definition truthy (tok : option str) : bool :=
  match tok with None => false | Some [] => false | Some _ => true end.
Definition tok_str (tok : option str) : str := match tok with Some s => s | None => [] end.

(* for t in qtypes: token, string = t.check(string); if token: break *)
Fixpoint try_types (ts : list qtype) (s : str) : res (option (qtype * str) * str) :=
  match ts with
  | [] => Ok (None, s)
  | t :: ts' =>
      bind (check t s) (fun '(tok, s') =>
      if truthy tok then Ok (Some (t, tok_str tok), s') else try_types ts' s')
  end.

(* _parse_token: ((t, token), remainder); t = None only for a blank string *)
Definition parse_token (s : str) : res ((option qtype * str) * str) :=
  if is_empty s then Ok ((None, []), s)
  else
    let s := strip s in
    if is_empty s then Ok ((None, []), s)
    else
      bind (try_types qtypes s) (fun '(r, s') =>
      match r with
      | None => Err ParseError
      | Some (t, token) => Ok ((Some t, token), s')
      end).

(* ------------------------------------------------------------------------------- *)
(* the parse methods                                                               *)

(* QString.parse *)
Definition parse_string (s : str) : res str :=
  bind (first_char s) (fun q =>
  Ok (slice_1_m1 (replace2 c_bs q [q] s))).

Section Parse.
  Variable max_digits : nat.     (* sys.get_int_max_str_digits(); 0 = unlimited *)
  Variable ns : namespace.

  (* QVariable.parse *)
  Definition parse_variable (s : str) : qtoken :=
    QVariable s (match dict_get ns s with Some v => v | None => VNone end).

  (* index of the first "(" (len(string) if there is none) *)
  Fixpoint arg_start_of (s : str) : nat :=
    match s with
    | [] => O
    | c :: t => if c =? c_lpar then O else S (arg_start_of t)
    end.

  (* t.parse(token, namespace), QFunction.parse's while loop, QDict.parse's and
     QList.parse's while loops.  One unit of fuel per call; every recursive call is on a
     strictly shorter string (Proofs/QueryTotal.v). *)
  Fixpoint parse_tok (fuel : nat) (t : qtype) (s : str) {struct fuel} : res qtoken :=
    match fuel with
    | O => OutOfFuel
    | S f =>
        match t with
        | TInteger =>
            (* try: QInteger(int(string)) except ValueError: raise QueryParseException *)
            match py_int max_digits s with
            | Ok z => Ok (QInteger z)
            | Err ValueError => Err ParseError
            | Err c => Err c
            | OutOfFuel => OutOfFuel
            end
        | TVariable => Ok (parse_variable s)
        | TString => bind (parse_string s) (fun v => Ok (QString v))
        | TFunction =>
            let arg_start := arg_start_of s in
            let arg_end := (length s - 1)%nat in
            let name := take arg_start s in
            let args_str := slice (arg_start + 1) arg_end s in
            bind (parse_args f args_str) (fun args => Ok (QFunction name args))
        | TDict => bind (parse_dict f (slice_1_m1 s) []) (fun d => Ok (QDict d))
        | TList => bind (parse_list f (slice_1_m1 s) []) (fun l => Ok (QList l))
        end
    end
  with parse_args (fuel : nat) (args_str : str) {struct fuel} : res (list qtoken) :=
    match fuel with
    | O => OutOfFuel
    | S f =>
        if is_empty (strip args_str) then Ok []
        else
          bind (parse_token args_str) (fun '((arg_t, arg), args_str) =>
          match arg_t with
          | None => Err AttributeError                       (* None.parse *)
          | Some t =>
              bind (parse_tok f t arg) (fun a =>
              let args_str := strip args_str in
              match args_str with
              | [] => Ok [a]
              | c :: rest =>
                  if negb (c =? c_comma) then Err ParseError
                  else bind (parse_args f rest) (fun l => Ok (a :: l))
              end)
          end)
    end
  with parse_dict (fuel : nat) (entries_str : str) (d : list (str * qtoken)) {struct fuel}
      : res (list (str * qtoken)) :=
    match fuel with
    | O => OutOfFuel
    | S f =>
        if Nat.ltb 0 (length (strip entries_str)) then
          let entries_str := strip entries_str in
          bind (first_char entries_str) (fun c0 =>
          let entries_str :=
            if Nat.ltb 0 (length d) && (c0 =? c_comma) then drop 1 entries_str
            else entries_str in
          bind (parse_token entries_str) (fun '((key_t, key_str), entries_str) =>
          match key_t with
          | Some TString =>
              bind (parse_string key_str) (fun key =>
              let entries_str := strip entries_str in
              match entries_str with
              | [] => Err ParseError
              | c :: rest =>
                  if negb (c =? c_colon) then Err ParseError
                  else
                    bind (parse_token rest) (fun '((val_t, val_str), entries_str) =>
                    match val_t with
                    | None => Err ParseError
                    | Some t =>
                        bind (parse_tok f t val_str) (fun val =>
                        parse_dict f entries_str (dict_set d key val))
                    end)
              end)
          | _ => Err ParseError
          end))
        else Ok d
    end
  with parse_list (fuel : nat) (entries_str : str) (ls : list qtoken) {struct fuel}
      : res (list qtoken) :=
    match fuel with
    | O => OutOfFuel
    | S f =>
        if Nat.ltb 0 (length (strip entries_str)) then
          let entries_str := strip entries_str in
          bind (first_char entries_str) (fun c0 =>
          let entries_str :=
            if Nat.ltb 0 (length ls) && (c0 =? c_comma) then drop 1 entries_str
            else entries_str in
          bind (parse_token entries_str) (fun '((val_t, val_str), entries_str) =>
          match val_t with
          | None => Err ParseError
          | Some t =>
              bind (parse_tok f t val_str) (fun val =>
              parse_list f entries_str (ls ++ [val]))
          end))
        else Ok ls
    end.

  (* parse(line, namespace): the statement level.  Returns (var, val). *)
  Definition parse_stmt (line : str) : res (qtoken * qtoken) :=
    match find_char c_eq line with
    | None => Err ParseError
    | Some separator_i =>
        let var_str := take separator_i line in
        let val_str := drop (separator_i + 1) line in
        if is_empty val_str then Err ParseError
        else
          bind (parse_token var_str) (fun '((var_t, var), var_str) =>
          let var_str := strip var_str in
          if negb (is_empty var_str) then Err ParseError
          else
            match var_t with
            | Some TVariable =>
                bind (parse_token val_str) (fun '((val_t, val), var_str) =>
                if negb (is_empty var_str) then Err ParseError
                else
                  let fuel := (2 * length line)%nat in
                  bind (parse_tok fuel TVariable var) (fun var =>
                  match val_t with
                  | None => Err AttributeError                  (* None.parse *)
                  | Some t => bind (parse_tok fuel t val) (fun val => Ok (var, val))
                  end))
            | _ => Err ParseError
            end)
    end.
End Parse.

(* ------------------------------------------------------------------------------- *)
(* the registry and the call plumbing of functions.py                              *)

(* what q2_function / q2_typecheck read off inspect.signature(f) for one parameter *)
Inductive ptype := PList | PStr | PInt | PFloat.
Inductive pkind :=
  | PDatastore                 (* annotation Datastore *)
  | PNamespace                 (* annotation TNamespace *)
  | PTyped (t : ptype)         (* annotation in [list, str, int, float], no default *)
  | PPlain                     (* any other annotation (or none), no default *)
  | PDefault                   (* has a default value: never type-checked, optional *)
  | PVarargs.                  (* *args *)

(* what the body of a registered function is known to do *)
Inductive bodykind :=
  | BodyNop          (* q2_nop: return 1 *)
  | BodyEcho         (* the harness's q2_echo with a star-args parameter: return list(args) *)
  | BodyBucket       (* q2_query_bucket[_eventcount]: _verify_bucket_exists first *)
  | BodyAbstract.

Record builtin := mkBuiltin { b_name : str; b_sig : list pkind; b_body : bodykind }.

(* an actual argument of the underlying function *)
Inductive arg := ADatastore | ANamespace | AVal (v : value).

Definition is_pdatastore (k : pkind) := match k with PDatastore => true | _ => false end.
Definition is_pnamespace (k : pkind) := match k with PNamespace => true | _ => false end.
Definition is_pvarargs (k : pkind) := match k with PVarargs => true | _ => false end.
Definition is_required (k : pkind) :=
  match k with PDefault | PVarargs => false | _ => true end.

(* isinstance(variable, t); isinstance(True, int) holds *)
Definition isinstance (a : arg) (t : ptype) : bool :=
  match a, t with
  | AVal (VList _), PList => true
  | AVal (VStr _), PStr => true
  | AVal (VInt _), PInt => true
  | AVal (VBool _), PInt => true
  | _, _ => false
  end.

(* q2_typecheck's loop: for i, p in enumerate(sig.parameters): if i >= len(args): break *)
Fixpoint typecheck (sig : list pkind) (args : list arg) : res unit :=
  match sig, args with
  | [], _ => Ok tt
  | _, [] => Ok tt
  | k :: sig', a :: args' =>
      match k with
      | PTyped t => if isinstance a t then typecheck sig' args' else Err FunctionError
      | _ => typecheck sig' args'
      end
  end.

(* f( *args ): binding positional arguments to the signature *)
Definition arity_ok (sig : list pkind) (n : nat) : bool :=
  Nat.leb (length (filter is_required sig)) n &&
  (existsb is_pvarargs sig || Nat.leb n (length (filter (fun k => negb (is_pvarargs k)) sig))).

Fixpoint find_builtin (table : list builtin) (name : str) : option builtin :=
  match table with
  | [] => None
  | b :: t => if str_eqb (b_name b) name then Some b else find_builtin t name
  end.

Fixpoint vals_of_args (l : list arg) : list value :=
  match l with
  | [] => []
  | AVal v :: t => v :: vals_of_args t
  | _ :: t => vals_of_args t
  end.

Section Interp.
  Variable table : list builtin.
  (* the world the built-in bodies see and change (datastore contents, ...) *)
  Variable W : Type.
  Variable buckets : W -> str -> bool.           (* bucketname in datastore.buckets() *)
  (* the body of a built-in as an oracle: name, actual arguments, world -> outcome *)
  Variable body : str -> list arg -> W -> (value + errclass) * W.

  Definition M (X : Type) := W -> res X * W.
  Definition ret {X} (x : X) : M X := fun w => (Ok x, w).
  Definition fail {X} (c : errclass) : M X := fun w => (Err c, w).
  Definition bindM {X Y} (m : M X) (f : X -> M Y) : M Y :=
    fun w => match m w with
             | (Ok x, w') => f x w'
             | (Err c, w') => (Err c, w')
             | (OutOfFuel, w') => (OutOfFuel, w')
             end.
  Definition lift {X} (r : res X) : M X := fun w => (r, w).

  Definition call_body (name : str) (args : list arg) : M value :=
    fun w => let '(r, w') := body name args w in
             (match r with inl v => Ok v | inr c => Err c end, w').

  Definition run_body (b : builtin) (args : list arg) : M value :=
    match b_body b with
    | BodyNop => ret (VInt 1)
    | BodyEcho => ret (VList (vals_of_args args))
    | BodyBucket =>
        match vals_of_args args with
        | VStr bucketname :: _ =>
            fun w => if buckets w bucketname then call_body (b_name b) args w
                     else (Err FunctionError, w)
        | _ => call_body (b_name b) args
        end
    | BodyAbstract => call_body (b_name b) args
    end.

  (* functions[name](datastore, namespace, *values):  q2_function's g drops the namespace
     and/or the datastore unless some parameter is annotated with it; q2_typecheck's g
     checks the leading parameters; f( *args ) binds (TypeError on a wrong count) and runs.
     QFunction.interpret turns every TypeError (also one from inside the body) into
     QueryInterpretException. *)
  Definition call_builtin (b : builtin) (vals : list value) : M value :=
    let sig := b_sig b in
    let args :=
      (if existsb is_pdatastore sig then [ADatastore] else []) ++
      (if existsb is_pnamespace sig then [ANamespace] else []) ++
      map AVal vals in
    bindM (lift (typecheck sig args)) (fun _ =>
    if negb (arity_ok sig (length args)) then fail InterpretError
    else
      fun w => match run_body b args w with
               | (Err TypeError, w') => (Err InterpretError, w')
               | r => r
               end).

  (* the for loops of QFunction.interpret / QList.interpret (values in written order) and of
     QDict.interpret (expanded_dict[key] = value.interpret(...)), over the element
     interpreter [f] *)
  Section Loops.
    Variable f : qtoken -> namespace -> M (value * namespace).
    Fixpoint interp_seq (l : list qtoken) (ns : namespace) : M (list value * namespace) :=
      match l with
      | [] => ret ([], ns)
      | a :: l' =>
          bindM (f a ns) (fun '(v, ns) =>
          bindM (interp_seq l' ns) (fun '(vs, ns) => ret (v :: vs, ns)))
      end.
    Fixpoint interp_entries (l : list (str * qtoken)) (acc : list (str * value)) (ns : namespace)
        : M (list (str * value) * namespace) :=
      match l with
      | [] => ret (acc, ns)
      | (k, a) :: l' =>
          bindM (f a ns) (fun '(v, ns) => interp_entries l' (dict_set acc k v) ns)
      end.
  End Loops.

  (* t.interpret(datastore, namespace): value, namespace after QVariable's write-back *)
  Fixpoint interp (t : qtoken) (ns : namespace) {struct t} : M (value * namespace) :=
    match t with
    | QInteger z => ret (VInt z, ns)
    | QString s => ret (VStr s, ns)
    | QVariable name captured =>
        if negb (dict_mem ns name) then fail InterpretError
        else ret (captured, dict_set ns name captured)
    | QFunction name args =>
        match find_builtin table name with
        | None => fail InterpretError
        | Some b =>
            bindM (interp_seq interp args ns) (fun '(vals, ns) =>
            bindM (call_builtin b vals) (fun r => ret (r, ns)))
        end
    | QDict d =>
        bindM (interp_entries interp d [] ns) (fun '(d', ns) => ret (VDict d', ns))
    | QList l =>
        bindM (interp_seq interp l ns) (fun '(vs, ns) => ret (VList vs, ns))
    end.

  Definition var_name (t : qtoken) : res str :=
    match t with QVariable name _ => Ok name | _ => Err AttributeError end.

  (* interpret(var, val, namespace, datastore) *)
  Definition interpret_stmt (var val : qtoken) (ns : namespace) : M namespace :=
    bindM (interp val ns) (fun '(v, ns) =>
    bindM (lift (var_name var)) (fun name => ret (dict_set ns name v))).

  Variable max_digits : nat.

  (* the loop of query() over query.split(";") *)
  Fixpoint run_stmts (stmts : list str) (ns : namespace) : M namespace :=
    match stmts with
    | [] => ret ns
    | statement :: rest =>
        let statement := strip statement in
        if is_empty statement then run_stmts rest ns
        else
          bindM (lift (parse_stmt max_digits ns statement)) (fun '(var, val) =>
          bindM (interpret_stmt var val ns) (fun ns => run_stmts rest ns))
    end.

  Definition s_True := [84; 114; 117; 101].
  Definition s_False := [70; 97; 108; 115; 101].
  Definition s_true := [116; 114; 117; 101].
  Definition s_false := [102; 97; 108; 115; 101].
  Definition s_NAME := [78; 65; 77; 69].
  Definition s_STARTTIME := [83; 84; 65; 82; 84; 84; 73; 77; 69].
  Definition s_ENDTIME := [69; 78; 68; 84; 73; 77; 69].
  Definition s_RETURN := [82; 69; 84; 85; 82; 78].

  Definition create_namespace : namespace :=
    [(s_True, VBool true); (s_False, VBool false); (s_true, VBool true); (s_false, VBool false)].

  Definition get_return (ns : namespace) : res value :=
    match dict_get ns s_RETURN with None => Err ParseError | Some v => Ok v end.

  (* query(name, query, starttime, endtime, datastore); starttime/endtime arrive as their
     isoformat() texts *)
  Definition initial_namespace (name starttime endtime : str) : namespace :=
    dict_set (dict_set (dict_set create_namespace s_NAME (VStr name))
                       s_STARTTIME (VStr starttime)) s_ENDTIME (VStr endtime).

  Definition run (name starttime endtime : str) (query : str) : M value :=
    bindM (run_stmts (split c_semi query) (initial_namespace name starttime endtime))
          (fun ns => lift (get_return ns)).
End Interp.
