(* C06, how a store comes to be lazy or auto-committing: the options a program gives to
   Datastore(storage_strategy, testing=False, **kwargs) reach SqliteStorage.__init__(self,
   testing, filepath=None, enable_lazy_commit=True) untouched.  Definitions only.

     class Datastore:  def __init__(self, storage_strategy, testing=False, **kwargs):
                           self.storage_strategy = storage_strategy(testing=testing, **kwargs)
     class SqliteStorage:  def __init__(self, testing, filepath=None, enable_lazy_commit=True):
                               self.enable_lazy_commit = enable_lazy_commit

   An option is absent (None) or given (Some v); [opt_lazy] is enable_lazy_commit, [opt_filepath]
   a label of the path.  (The source-level tie of this file is the syntactic check
   harness/c06_api.py: option_path_problems, evaluated on every run.) *)
From AwVerif Require Import Base.Prelude Model.Commit.

Record open_options := mkOpts { opt_filepath : option Z; opt_lazy : option bool }.

(* Datastore.__init__: **kwargs forwarded as given (a key that is present stays present,
   whatever its value; an absent key stays absent) *)
Definition ds_forward (o : open_options) : open_options := o.

(* SqliteStorage.__init__: the parameter's default *)
Definition storage_lazy (given : option bool) : bool :=
  match given with Some b => b | None => true end.

(* the store a program gets: its laziness and its state after __init__ on a database that
   already holds the writes c0 *)
Definition ds_open (o : open_options) (c0 : list Z) (t0 : Z) : bool * cstate :=
  (storage_lazy (opt_lazy (ds_forward o)), init c0 t0).

Definition ds_run (o : open_options) (c0 : list Z) (t0 : Z) (tr : list (micro * clk)) : cstate :=
  run (fst (ds_open o c0 t0)) (snd (ds_open o c0 t0)) tr.

(* what the caller was promised: the auto-committing store iff enable_lazy_commit=False was
   asked for *)
Definition asked_eager (o : open_options) : Prop := opt_lazy o = Some false.
