(* Model of the standard heartbeat-ingestion loop over a storage back end (C07).

   The loop is the client loop of aw-server's heartbeat endpoint, written against the
   Bucket API of aw_datastore/datastore.py:

       last_events = bucket.get(limit=1)                 # datastore.py:88-114: no window, so no
       if len(last_events) > 0:                          #   rounding; storage.get_events(b, 1, None, None)
           merged = heartbeat_merge(last_events[0], heartbeat, pulsetime)
           if merged is not None:
               bucket.replace_last(merged)               # datastore.py:185-186
               continue
       bucket.insert(heartbeat)                          # datastore.py:126-165 -> storage.insert_one

   It is generic in the back end: one definition, instantiated with mem_step / sq_step /
   pw_step.  heartbeat_merge mutates and returns the event that was read, so `merged`
   carries the id of the stored event; the back ends' replace_last ignore or overwrite it.
   A raising storage call ends the loop (the exception propagates); the state it leaves is
   returned with the error class.  Definitions only. *)
From AwVerif Require Import Base.Prelude Model.Heartbeat Model.StoreBase Model.MemStore
  Model.SqliteStore Model.PeeweeStore.

Section Ingest.
  Context {S : Type} (backend_step : S -> op -> S * res out).

  Definition ingest_step (st : S) (b p : Z) (hb : event) : S * res out :=
    match backend_step st (GetEvents b 1 None None) with
    | (st1, Ok (OEvents [])) => backend_step st1 (InsertOne b hb)
    | (st1, Ok (OEvents (last :: _))) =>
        match heartbeat_merge last hb p with
        | Some merged => backend_step st1 (ReplaceLast b merged)
        | None => backend_step st1 (InsertOne b hb)
        end
    | (st1, Ok _) => (st1, Err TypeError)       (* get_events returns a list: no back end takes this branch *)
    | (st1, Err c) => (st1, Err c)
    | (st1, OutOfFuel) => (st1, OutOfFuel)
    end.

  (* for heartbeat in stream: ...   (the first exception ends the loop) *)
  Fixpoint ingest_stream (st : S) (b p : Z) (stream : list event) : S * res out :=
    match stream with
    | [] => (st, Ok ONone)
    | hb :: rest =>
        match ingest_step st b p hb with
        | (st', Ok _) => ingest_stream st' b p rest
        | (st', r) => (st', r)
        end
    end.
End Ingest.

Definition mem_ingest_step := ingest_step mem_step.
Definition sq_ingest_step := ingest_step sq_step.
Definition pw_ingest_step := ingest_step pw_step.
Definition mem_ingest_stream := ingest_stream mem_step.
Definition sq_ingest_stream := ingest_stream sq_step.
Definition pw_ingest_stream := ingest_stream pw_step.

(* ids aside *)
Definition strip_id (e : event) : event := set_eid e None.
