(* Executable model of aw_datastore/storages/memory.py (MemoryStorage), every method of
   the AbstractStorage interface, as the code is now (deep copies; get_eventcount tests
   the event's end against the window start).  Definitions only.

   State: the two dicts `db` and `_metadata` always hold the same keys in the same order
   (create writes both, delete_bucket deletes both), so they are one insertion-ordered
   association list  bucket id -> (metadata, event list).  deepcopy is a functional
   no-op. *)
From AwVerif Require Import Base.Prelude Model.StoreBase.

Definition mstate := list (Z * (meta * list event)).

Definition mem_init : mstate := [].

(* observation: metadata and events of one bucket, in list order *)
Definition mem_view (c : mstate) (b : Z) : option (meta * list event) := aget b c.

(* int(e.id or 0) *)
Definition id_or_0 (e : event) : Z := match eid e with Some i => i | None => 0 end.

(* insert_one: max(int(e.id or 0) for e in db[bucket]) + 1, or 0 for an empty list *)
Definition mem_next_id (es : list event) : Z :=
  match es with
  | [] => 0
  | e :: t => list_max (id_or_0 e) (map id_or_0 t) + 1
  end.

(* `event.id == event_id` where event_id may itself be None (replace_last passes last.id) *)
Definition id_matches (oi : option Z) (e : event) : bool := option_eqb Z.eqb (eid e) oi.

(* replace: every index whose event has that id gets a copy of `e` carrying the id
   (the loop has no break) *)
Definition mem_replace_events (oi : option Z) (e : event) (es : list event) : list event :=
  map (fun x => if id_matches oi x then set_eid e oi else x) es.

(* window predicates, named so that C03 can refine them *)
Definition mem_window_start (ws : Z) (e : event) : bool := ws <=? ts e + dur e.
Definition mem_window_end (we : Z) (e : event) : bool := ts e <=? we.
Definition opt_filter {A} (o : option Z) (p : Z -> A -> bool) (l : list A) : list A :=
  match o with Some w => filter (p w) l | None => l end.

(* sorted(events, key=timestamp)[::-1], the two filters, the limit *)
Definition mem_get_events (es : list event) (limit : Z) (st en : option Z) : list event :=
  let evs := rev (sort_by ts es) in
  let evs := opt_filter st mem_window_start evs in
  let evs := opt_filter en mem_window_end evs in
  if limit =? 0 then []
  else if limit <? 0 then evs
  else firstn (Z.to_nat limit) evs.

Definition mem_count (es : list event) (st en : option Z) : Z :=
  Z.of_nat (length (filter (fun e =>
     (match st with None => true | Some ws => mem_window_start ws e end) &&
     (match en with None => true | Some we => mem_window_end we e end)) es)).

(* `self.db[b]` is `aget b c`; None = KeyError on a missing bucket *)

Definition mem_set_events (c : mstate) (b : Z) (m : meta) (es : list event) : mstate :=
  aset b (m, es) c.

(* replace(bucket_id, event_id, event) -> None *)
Definition mem_replace (c : mstate) (b : Z) (oi : option Z) (e : event) : mstate * res out :=
  match aget b c with
  | Some (m, es) => (mem_set_events c b m (mem_replace_events oi e es), Ok ONone)
  | None => (c, Err KeyError)
  end.

Definition mem_insert_one (c : mstate) (b : Z) (e : event) : mstate * res out :=
  match eid e with
  | Some i =>
      match mem_replace c b (Some i) e with
      | (c', Ok _) => (c', Ok (OEvent (Some e)))
      | (c', r) => (c', r)
      end
  | None =>
      match aget b c with
      | Some (m, es) =>
          let e' := set_eid e (Some (mem_next_id es)) in
          (mem_set_events c b m (es ++ [e']), Ok (OEvent (Some e')))
      | None => (c, Err KeyError)
      end
  end.

(* AbstractStorage.insert_many: for event in events: insert_one; the first exception
   ends the loop and leaves what was done *)
Fixpoint mem_insert_many (c : mstate) (b : Z) (es : list event) : mstate * res out :=
  match es with
  | [] => (c, Ok ONone)
  | e :: t =>
      match mem_insert_one c b e with
      | (c', Ok _) => mem_insert_many c' b t
      | (c', r) => (c', r)
      end
  end.

Definition mem_create_meta (b : Z) (m : meta) : meta :=
  mkMeta (m_type m) (m_client m) (m_hostname m) (m_created m)
         (Some (if opt_truthy (m_name m) then
                  match m_name m with Some n => n | None => b end
                else b))
         (m_data m).

Definition mem_step (c : mstate) (o : op) : mstate * res out :=
  match o with
  | CreateBucket b m =>
      (* overwrites both dict entries: an existing bucket is silently reset in place *)
      (aset b (mem_create_meta b m, []) c, Ok ONone)
  | UpdateBucket b ty cl ho na da =>
      match aget b c with
      | Some (m, es) => (aset b (update_meta opt_truthy ty cl ho na da m, es) c, Ok ONone)
      | None => (c, Err ValueError)
      end
  | DeleteBucket b =>
      match aget b c with
      | Some _ => (adel b c, Ok ONone)
      | None => (c, Err ValueError)
      end
  | Buckets => (c, Ok (OBuckets (map (fun kv => (fst kv, fst (snd kv))) c)))
  | GetMetadata b =>
      match aget b c with
      | Some (m, _) => (c, Ok (OMeta b m))
      | None => (c, Err ValueError)
      end
  | InsertOne b e => mem_insert_one c b e
  | InsertMany b es => mem_insert_many c b es
  | Replace b i e => mem_replace c b (Some i) e
  | ReplaceLast b e =>
      match aget b c with
      | Some (m, es) =>
          match last_opt (sort_by ts es) with
          | Some l => mem_replace c b (eid l) e
          | None => (c, Err IndexError)
          end
      | None => (c, Err KeyError)
      end
  | Delete b i =>
      match aget b c with
      | Some (m, es) =>
          match remove_last (id_matches (Some i)) es with
          | Some es' => (mem_set_events c b m es', Ok (OBool true))
          | None => (c, Ok (OBool false))
          end
      | None => (c, Err KeyError)
      end
  | GetEvent b i =>
      match aget b c with
      | Some (_, es) => (c, Ok (OEvent (find_last (id_matches (Some i)) es)))
      | None => (c, Err KeyError)
      end
  | GetEvents b limit st en =>
      match aget b c with
      | Some (_, es) => (c, Ok (OEvents (mem_get_events es limit st en)))
      | None => (c, Err KeyError)
      end
  | GetEventCount b st en =>
      match aget b c with
      | Some (_, es) => (c, Ok (OCount (mem_count es st en)))
      | None => (c, Err KeyError)
      end
  end.

Definition mem_run (c : mstate) (h : list op) : mstate := fold_left (fun c o => fst (mem_step c o)) h c.
