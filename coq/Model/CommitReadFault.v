(* A SqliteStorage read whose SELECT (or the decoding of its rows) RAISES (round 5, C12).
   Model/Commit.v has the commit bookkeeping of sqlite.py with reads that always succeed
   ([Read]: no effect).  Here a read can fail, and -- to state what the code must NOT do --
   a transaction can be rolled back.  Definitions only.

   What the connection itself sees (its own reads, i.e. the bucket data through the API) is
   committed ++ pending: the open transaction is visible to the connection that opened it. *)
From AwVerif Require Import Base.Prelude Model.Commit.

Inductive micro_f :=
  | M (m : micro)      (* a step of Model/Commit.v *)
  | ReadFails          (* a SELECT that raises / whose rows cannot be decoded: the exception leaves the
                          method; the statement has no effect on the transaction or the bookkeeping *)
  | Rollback.          (* conn.rollback() -- also what `with conn:` does when its body raises *)

Definition rollback (s : cstate) : cstate :=
  mkC (committed s) [] (n_unc s) (last_commit s).

Definition step_f (lazy : bool) (s : cstate) (mc : micro_f * clk) : cstate :=
  match fst mc with
  | M m => micro_step lazy s (m, snd mc)
  | ReadFails => s
  | Rollback => rollback s
  end.

Definition run_f (lazy : bool) (s : cstate) (tr : list (micro_f * clk)) : cstate :=
  fold_left (step_f lazy) tr s.

(* the bucket data as the storage object reads it *)
Definition visible (s : cstate) : list Z := committed s ++ pending s.

(* sqlite.py, get_event / get_events (limit <> 0) / get_eventcount:
       self.commit(); c = self.conn.cursor(); rows = c.execute(SELECT ...); decode
   with the SELECT / the decoding raising: the exception is not caught in the method *)
Definition failing_read_script : list micro_f := [M Commit; ReadFails].

(* NOT the code: the read inside the connection's context manager, without the commit in
   front (`with self.conn: SELECT`): commits on success, ROLLS BACK when the body raises *)
Definition failing_read_in_with_block : list micro_f := [ReadFails; Rollback].
Definition successful_read_in_with_block : list micro_f := [M Read; M Commit].

Definition with_clk (c : clk) (ms : list micro_f) : list (micro_f * clk) := map (fun m => (m, c)) ms.
