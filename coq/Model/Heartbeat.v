(* Model of aw_transform/heartbeats.py.  The pulsetime is already in microseconds
   (the harness converts it with Python's own timedelta(seconds=...)).
   heartbeat_merge mutates last_event in place and returns it; functionally that is
   the record with its duration replaced. *)
From AwVerif Require Import Base.Prelude.

Definition heartbeat_merge (last_event heartbeat : event) (pulsetime : Z) : option event :=
  if data last_event =? data heartbeat then
    let pulseperiod_end := ts last_event + dur last_event + pulsetime in
    if (ts last_event <=? ts heartbeat) && (ts heartbeat <=? pulseperiod_end) then
      let new_duration := (ts heartbeat - ts last_event) + dur heartbeat in
      if dur last_event <? 0 then None
      else Some (set_dur last_event (Z.max (dur last_event) new_duration))
    else None
  else None.

(* heartbeat_reduce: `reduced` is kept reversed (head = reduced[-1]). *)
Fixpoint reduce_loop (pulsetime : Z) (reduced_rev : list event) (events : list event) : list event :=
  match events with
  | [] => rev reduced_rev
  | hb :: rest =>
      match reduced_rev with
      | [] => reduce_loop pulsetime [hb] rest      (* unreachable from heartbeat_reduce *)
      | last :: older =>
          match heartbeat_merge last hb pulsetime with
          | Some merged => reduce_loop pulsetime (merged :: older) rest
          | None => reduce_loop pulsetime (hb :: last :: older) rest
          end
      end
  end.

Definition heartbeat_reduce (events : list event) (pulsetime : Z) : list event :=
  match events with
  | [] => []
  | first :: rest => reduce_loop pulsetime [first] rest
  end.
