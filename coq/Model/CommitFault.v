(* Engine faults in the commit bookkeeping of aw_datastore/storages/sqlite.py: an operation
   of the engine - COMMIT, an execute, an executemany part-way - RAISES (sqlite3.OperationalError
   'database is locked' while another connection holds a lock, disk full, a transient I/O error),
   the storage call propagates the exception, the caller survives it and carries on with the same
   store.  Model/Commit.v (unchanged; C06, C14, C18 and tie B depend on it) has no such step: its
   micro-steps always succeed, the only calls that raise are the rejected ones and the bulk
   insert whose statement fails at bind time.  This file ADDS the faults on top of it.
   Definitions only.

   What the CODE does is read off the statement order of commit() / conditional_commit():

       def commit(self):
           self.conn.commit()                      <- the engine; may raise
           self.last_commit = datetime.now()       <- not reached when it raised
           self.num_uncommitted_statements = 0     <- not reached when it raised

   so a commit() whose COMMIT raises leaves the bookkeeping exactly as it was and does not even
   read the clock ([commit_raises]); conditional_commit has added its k to the counter before
   it calls commit(), and the exception leaves it at once (an age test after a failed count
   commit is not reached).  Tie B (translate/k_commitfault.py, Bridge/BridgeCommitFault.v)
   regenerates [commit_f] and [cond_commit_f] from the source with exactly this reading: the
   assignments of commit() BEFORE `self.conn.commit()` run on the failing path, those AFTER it
   do not.

   What the ENGINE does is the oracle of this model (stated, sampled by the harness through the
   second connection, as for Model/Commit.v): a COMMIT that raises makes nothing durable and
   leaves the transaction open (SQLITE_BUSY: "the transaction remains active and the COMMIT can
   be retried"); a statement that raises is rolled back on its own, what earlier statements of
   the open transaction wrote stays in it; the rows an executemany had gone through before the
   one that raised stay in the open transaction. *)
From AwVerif Require Import Base.Prelude Model.Commit.

(* The engine's answer to the COMMITs one micro-step attempts, positional like the clock
   readings of [clk]: [ok1] answers the conn.commit() of the commit() that reads r1 (count
   branch, non-lazy branch, plain self.commit()), [ok3] the one of the age branch (reads r3);
   [ok2] belongs to the age test's reading, where the code has no commit (kept so that the
   regenerated kernel can name the slot of any commit() it finds).  true = succeeds. *)
Record eng := mkEng { ok1 : bool; ok2 : bool; ok3 : bool }.
Definition all_ok : eng := mkEng true true true.

(* The bookkeeping state plus a GHOST the code cannot read: the clock reading of the commit()
   whose engine COMMIT last succeeded (for a new store: the instant the constructor's commit
   was taken).  "The previous flush" of the property is this instant, not what the store
   believes. *)
Record fstate := mkFS { cs : cstate; last_ok : Z }.
Definition upd (f : cstate -> cstate) (fs : fstate) : fstate := mkFS (f (cs fs)) (last_ok fs).

(* What a commit() leaves when its engine COMMIT raises, and whether the exception leaves
   commit(): (state, raised).  [code_commit_raises] is the code as it is: nothing was assigned,
   the exception propagates.  The step functions take the behaviour as a parameter so that the
   sensitivity examples of Props/C18fault.v can run the same machine with the behaviours the
   code does NOT have. *)
Definition raise_behaviour := Z -> cstate -> cstate * bool.
Definition code_commit_raises : raise_behaviour := fun now s => (s, true).
(* not the code: `last_commit = now; n = 0` placed before `self.conn.commit()` *)
Definition bookkeeping_first : raise_behaviour := fun now s => (set_n (set_last s now) 0, true).
(* not the code: only the counter reset placed before it *)
Definition counter_reset_first : raise_behaviour := fun now s => (set_n s 0, true).
(* not the code: commit() catches the exception and carries on with its assignments *)
Definition exception_swallowed : raise_behaviour := fun now s => (set_n (set_last s now) 0, false).

Definition commit_f_with (cr : raise_behaviour) (ok : bool) (now : Z) (fs : fstate) : fstate * bool :=
  if ok then (mkFS (do_commit now (cs fs)) now, false)
  else (mkFS (fst (cr now (cs fs))) (last_ok fs), snd (cr now (cs fs))).

(* sequencing with exceptions: what follows a statement that raised does not run *)
Definition fbind (r : fstate * bool) (k : fstate -> fstate * bool) : fstate * bool :=
  if snd r then r else k (fst r).

Definition cond_commit_f_with (cr : raise_behaviour) (lazy : bool) (k : Z) (c : clk) (e : eng)
                              (fs : fstate) : fstate * bool :=
  if lazy then
    let fs := upd (fun s => set_n s (n_unc s + k)) fs in
    fbind (if n_unc (cs fs) >? THRESHOLD then commit_f_with cr (ok1 e) (r1 c) fs else (fs, false)) (fun fs =>
    if r2 c - last_commit (cs fs) >? MAX_AGE then commit_f_with cr (ok3 e) (r3 c) fs else (fs, false))
  else commit_f_with cr (ok1 e) (r1 c) fs.

(* the code *)
Definition commit_f := commit_f_with code_commit_raises.
Definition cond_commit_f := cond_commit_f_with code_commit_raises.

(* Micro-steps with faults.  [Step m] is a micro-step of Model/Commit.v; its Commit /
   CondCommit consults the engine.  A statement that raises is a step of its own: the Python
   statements after it do not run (which ones do run is the script's business, [fault_script]). *)
Inductive fmicro :=
  | Step (m : micro)
  | ExecRaises                      (* conn.execute / cursor.execute raises: nothing is written *)
  | ExecManyRaises (done : list Z). (* conn.executemany raises after the rows [done] *)

Record fin := mkIn { fm : fmicro; fc : clk; fe : eng }.

Definition fwrites (m : fmicro) : list Z :=
  match m with
  | Step m => writes_of_micro m
  | ExecRaises => []
  | ExecManyRaises done => done
  end.

(* -> (state, the step raised) *)
Definition fmicro_step_with (cr : raise_behaviour) (lazy : bool) (fs : fstate) (x : fin) : fstate * bool :=
  match fm x with
  | Step (Exec w) => (upd (fun s => add_pending s [w]) fs, false)
  | Step (ExecMany ws) => (upd (fun s => add_pending s ws) fs, false)
  | Step Read => (fs, false)
  | Step Commit => commit_f_with cr (ok1 (fe x)) (r1 (fc x)) fs
  | Step (CondCommit k) => cond_commit_f_with cr lazy k (fc x) (fe x) fs
  | ExecRaises => (fs, true)
  | ExecManyRaises done => (upd (fun s => add_pending s done) fs, true)
  end.
Definition fmicro_step := fmicro_step_with code_commit_raises.

(* The process carries on after an exception: the state a trace leaves does not depend on
   which steps raised (the control flow does, and it is in the trace). *)
Definition frun_with (cr : raise_behaviour) (lazy : bool) (fs : fstate) (tr : list fin) : fstate :=
  fold_left (fun fs x => fst (fmicro_step_with cr lazy fs x)) tr fs.
Definition frun := frun_with code_commit_raises.

(* no step of the trace raised: the call(s) it belongs to returned normally *)
Fixpoint returned_with (cr : raise_behaviour) (lazy : bool) (fs : fstate) (tr : list fin) : Prop :=
  match tr with
  | [] => True
  | x :: rest =>
      snd (fmicro_step_with cr lazy fs x) = false /\
      returned_with cr lazy (fst (fmicro_step_with cr lazy fs x)) rest
  end.
Definition returned := returned_with code_commit_raises.

(* after __init__ returned: its commit succeeded at t0 *)
Definition finit (c0 : list Z) (t0 : Z) : fstate := mkFS (init c0 t0) t0.

(* ---- the script of a call in which the engine raises once ---- *)

(* Where the fault strikes, counted in the micro-steps the call has COMPLETED before it, an
   executemany counting one per row that went through (what an observer of the statement
   stream counts): [CommitFault p] - the p completed steps are followed by a Commit /
   CondCommit whose engine COMMIT raises; [StatementFault p] - they are followed by a statement
   that raises (for p inside an executemany: its next row). *)
Inductive fault_at := CommitFault (p : nat) | StatementFault (p : nat).

(* try/finally: insert_many's conditional_commit also runs when one of its statements raised
   (ec39c3d, a00ceb1); no other method has a finally clause. *)
Definition finally_of (o : op) : list micro :=
  match o with
  | InsertMany ups rows => [CondCommit (Z.of_nat (length ups + length rows))]
  | InsertManyFailed ups done rest => [CondCommit (Z.of_nat (length ups + (length done + rest)))]
  | _ => []
  end.

(* [None]: the position does not exist in the script (no such step, or a commit fault aimed at
   a statement). *)
Fixpoint fault_walk (fin_ : list micro) (ms : list micro) (at_commit : bool) (p : nat)
  : option (list fmicro) :=
  match ms with
  | [] => None
  | m :: rest =>
      match p with
      | O =>
          if at_commit then
            match m with
            | Commit | CondCommit _ => Some [Step m]
            (* an executemany over no rows is a step the observer of the statement stream does not count *)
            | ExecMany [] =>
                match fault_walk fin_ rest at_commit O with
                | Some r => Some (Step m :: r)
                | None => None
                end
            | _ => None
            end
          else
            match m with
            | Exec _ | Read => Some (ExecRaises :: map Step fin_)
            | ExecMany ws => Some (ExecManyRaises [] :: map Step fin_)
            | _ => None
            end
      | S _ =>
          match m with
          | ExecMany ws =>
              if (p <? length ws)%nat then
                if at_commit then None else Some (ExecManyRaises (firstn p ws) :: map Step fin_)
              else
                match fault_walk fin_ rest at_commit (p - length ws) with
                | Some r => Some (Step m :: r)
                | None => None
                end
          | _ =>
              match fault_walk fin_ rest at_commit (p - 1) with
              | Some r => Some (Step m :: r)
              | None => None
              end
          end
      end
  end.

(* the steps of a call of [o] that run when the engine raises once at [f]; the finally clause
   runs after a statement fault only (a fault of the finally clause's own commit ends the call) *)
Definition fault_script (o : op) (f : fault_at) : option (list fmicro) :=
  match f with
  | CommitFault p => fault_walk [] (expand o) true p
  | StatementFault p =>
      (* the finally clause is the last step of the script: a statement fault is looked for before it *)
      fault_walk (finally_of o) (firstn (length (expand o) - length (finally_of o)) (expand o)) false p
  end.
