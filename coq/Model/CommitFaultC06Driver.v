(* Driver entry of the engine-fault stream of the C06 check (harness/c06_fault.py; compiled from
   build/C06Fault by Extract/ExC06Fault.v).  Cases 1, 5, 6 and 7 are the text of
   Model/CommitFaultDriver.v (same wire format, same functions; calling its driver_entry would
   extract two functions of that name and ocaml/main.ml links the first), case 8 is the
   call-level vocabulary of Model/CommitFaultCalls.v:
     (1 op)                                the script [expand op]
     (5 api)                               the script of a call through Datastore / Bucket
     (6 lazy t0 ((fmicro clk eng) ...))    run from [finit [] t0]; answer: one
                                           (|committed| |pending| n last_commit last_ok raised)
                                           per step, then (committed) (pending) of the final state
     (7 op kind p)                         [fault_script op f]; (-1) when there is no such position
     (8 lazy t0 (((fmicro clk eng) ...) ...))   a history of CALLS run from [finit [] t0]; answer:
                                           ((flag ...) ((returned |committed| |pending| n) ...)):
                                           [ack_flags] of the history (one flag per issued write,
                                           1 = its call returned normally) and, per call, whether
                                           it returned normally ([returnedb]) and the state it left
   Definitions only. *)
From AwVerif Require Import Base.Prelude Base.Sexp Model.Commit Model.CommitDriver Model.CommitFault
  Model.CommitApi Model.CommitApiDriver Model.CommitFaultDriver Model.CommitFaultCalls.

Fixpoint call_states (lazy : bool) (fs : fstate) (calls : list (list fin)) : list sexp :=
  match calls with
  | [] => []
  | tro :: rest =>
      let fs' := frun lazy fs tro in
      L [bool_s (returnedb lazy fs tro); A (Z.of_nat (length (committed (cs fs'))));
         A (Z.of_nat (length (pending (cs fs')))); A (n_unc (cs fs'))]
      :: call_states lazy fs' rest
  end.

Definition driver_entry (s : sexp) : sexp :=
  match s with
  | L [A 1; o] =>
      match sOp o with Some o => L (map micro_s (expand o)) | None => bad_case end
  | L [A 5; a] =>
      match sApi a with Some a => L (map micro_s (api_expand a)) | None => bad_case end
  | L [A 6; lz; A t0; tr] =>
      match sBool lz, sList sFin tr with
      | Some lz, Some tr =>
          let '(states, fin_) := frun_states lz (finit [] t0) tr in
          L [L (map fstate_summary states); L (map A (committed (cs fin_))); L (map A (pending (cs fin_)))]
      | _, _ => bad_case
      end
  | L [A 7; o; A k; A p] =>
      match sOp o, sFaultAt k p with
      | Some o, Some f =>
          match fault_script o f with
          | Some ms => L (map fmicro_s ms)
          | None => L [A (-1)]
          end
      | _, _ => bad_case
      end
  | L [A 8; lz; A t0; calls] =>
      match sBool lz, sList (sList sFin) calls with
      | Some lz, Some calls =>
          L [L (map bool_s (ack_flags lz (finit [] t0) calls)); L (call_states lz (finit [] t0) calls)]
      | _, _ => bad_case
      end
  | _ => bad_case
  end.
