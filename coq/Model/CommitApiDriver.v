(* Driver entry of the C18 check: the cases of Model/CommitDriver.v (same wire format, same
   functions) plus
     (5 api)     the script [api_expand api] of a call through Datastore / Bucket
   api on the wire:  (0 op) ViaDatastore | (1 w cached) DsCreateBucket | (2 cached op) ViaBucket
   Definitions only. *)
From AwVerif Require Import Base.Prelude Base.Sexp Model.Commit Model.CommitDriver Model.CommitApi.

Definition sApi (s : sexp) : option api :=
  match s with
  | L [A 0; o] => match sOp o with Some o => Some (ViaDatastore o) | None => None end
  | L [A 1; A w; c] => match sBool c with Some c => Some (DsCreateBucket w c) | None => None end
  | L [A 2; c; o] =>
      match sBool c, sOp o with Some c, Some o => Some (ViaBucket c o) | _, _ => None end
  | _ => None
  end.

Definition driver_entry (s : sexp) : sexp :=
  match s with
  | L [A 0; lz; A t0; tr] =>
      match sBool lz, sList sTimed tr with
      | Some lz, Some tr =>
          let '(states, fin) := run_states lz (init [] t0) tr in
          L [L (map state_summary states); L (map A (committed fin)); L (map A (pending fin))]
      | _, _ => bad_case
      end
  | L [A 1; o] =>
      match sOp o with Some o => L (map micro_s (expand o)) | None => bad_case end
  | L [A 5; a] =>
      match sApi a with Some a => L (map micro_s (api_expand a)) | None => bad_case end
  | _ => bad_case
  end.
