(* C03 -- SQLite 3.40.1's date arithmetic, as far as peewee.py's dt_plus_duration uses it:

     strftime('%Y-%m-%d %H:%M:%f+00:00',
              (julianday(timestamp) - 2440587.5) * 86400.0 + duration, 'unixepoch')

   timestamp = the TEXT cell str(datetime) "YYYY-MM-DD HH:MM:SS[.ffffff]+00:00", duration = the
   INTEGER / REAL cell of the DECIMAL column (taken as the binary64 [cell] the engine reads).
   C doubles are Coq primitive floats (binary64, round to nearest even), C ints are Z.
   Definitions only; never extracted (evaluated inside Coq, harness/floatcases.py).  Facts:
   Proofs/SqliteDate.v (error bound of the arithmetic core), Proofs/SqliteDateText.v (parse,
   calendar, printing).

   Read from the documented algorithm (date.c: struct DateTime with iJD = julian day number
   times 86400000 as a 64-bit integer; parseYyyyMmDd / parseHhMmSs / parseTimezone, computeJD
   (Meeus' formula), juliandayFunc = iJD/86400000.0, setRawDateNumber, the 'unixepoch' modifier
   r = s*1000.0 + 210866760000000.0, iJD = (i64)(r + 0.5), computeYMD, computeHMS, strftime %f
   = "%06.3f" of min(s, 59.999)) and pinned down by experiment against the engine
   (sqlite3.sqlite_version = 3.40.1): julianday(), the REAL value of the expression and the
   printed TEXT agree bit for bit with this model on every stored row of every run and on the
   boundary corpus of harness/c03_sqldate.py.  The VDBE arithmetic (OP_Subtract / OP_Multiply /
   OP_Add on REAL operands, an INTEGER cell converted to double) is plain binary64.
   Not modelled digit by digit: sqlite3's own printf ("%06.3f" extracts decimal digits in x87
   extended precision after adding a rounder of 0.0005 (1 + 6e-13)); it is modelled by its
   outcome, the exact round-half-up of the double to three decimals ([fmt3]).  computeHMS only
   produces doubles within 2^-36 of a whole millisecond, where the two coincide (checked on the
   engine for all 86 400 000 milliseconds of a day). *)
From Coq Require Import ZArith Bool List Ascii String PrimFloat SpecFloat FloatOps.
From AwVerif Require Import Base.Prelude Model.PyFloat Model.IsoTime.
Import ListNotations.
Open Scope char_scope.
Open Scope Z_scope.

(* ------------------------------------------------------------------------- *)
(* constants (all exactly representable) *)

Definition EPOCH_MS : Z := 210866760000000.           (* iJD of 1970-01-01T00:00:00Z *)
Definition IJD_MAX : Z := 464269060799999.            (* 9999-12-31 23:59:59.999 *)

Definition f10 : float := of_Z 10.
Definition f48 : float := of_Z 48.
Definition f1524_5 : float := 0x1.7d2p+10%float.               (* 1524.5 *)
Definition f86400000 : float := of_Z 86400000.
Definition f2440587_5 : float := 0x1.29ec5cp+21%float.         (* 2440587.5 *)
Definition f86400 : float := of_Z 86400.
Definition fEPOCH_MS : float := of_Z 210866760000000.
Definition fIJD_LIM : float := of_Z 464269060800000.
Definition f1867216_25 : float := 0x1.c7dd04p+20%float.        (* 1867216.25 *)
Definition f36524_25 : float := 0x1.1d588p+15%float.           (* 36524.25 *)
Definition f122_1 : float := 0x1.e866666666666p+6%float.       (* the double nearest 122.1 *)
Definition f365_25 : float := 0x1.6d4p+8%float.                (* 365.25 *)
Definition f30_6001 : float := 0x1.e99a027525461p+4%float.     (* the double nearest 30.6001 *)
Definition f59_999 : float := 0x1.dffdf3b645a1dp+5%float.      (* the double nearest 59.999 *)

(* ------------------------------------------------------------------------- *)
(* parsing: parseYyyyMmDd, parseHhMmSs, parseTimezone on the shapes
   YYYY-MM-DD<sep>HH:MM[:SS[.F+]][(+|-)HH:MM | Z]  (one ' ' or 'T' as separator; the engine
   also takes runs of blanks, a missing time, a leading '-') *)

Record sdt := { sY : Z; sM : Z; sD : Z; sh : Z; smi : Z; ss : float; stz : Z }.

(* the fraction loop:  ms = ms*10.0 + *zDate - '0';  rScale *= 10.0;  then ms /= rScale *)
Fixpoint sd_frac_acc (ms rscale : float) (ds : list Z) : float * float :=
  match ds with
  | [] => (ms, rscale)
  | d :: r => sd_frac_acc ((ms * f10 + of_Z (48 + d)) - f48)%float (rscale * f10)%float r
  end.
Definition sd_frac (ds : list Z) : float :=
  match ds with
  | [] => zero
  | _ => let p := sd_frac_acc zero one ds in (fst p / snd p)%float
  end.

(* parseTimezone: minutes east of UTC *)
Definition sd_parse_tz (l : list ascii) : option Z :=
  match l with
  | [] => Some 0
  | ["Z"] => Some 0
  | ["z"] => Some 0
  | [sg; a; b; ":"; c; d] =>
      match num [a; b], num [c; d] with
      | Some hh, Some mm =>
          if ((sg =? "+")%char || (sg =? "-")%char) && (hh <=? 14) && (mm <=? 59)
          then Some ((if (sg =? "-")%char then -1 else 1) * (mm + hh * 60))
          else None
      | _, _ => None
      end
  | _ => None
  end.

Definition sd_parse (s : list ascii) : option sdt :=
  match s with
  | y1 :: y2 :: y3 :: y4 :: "-" :: m1 :: m2 :: "-" :: d1 :: d2 :: sep ::
    h1 :: h2 :: ":" :: i1 :: i2 :: rest =>
      if negb ((sep =? " ")%char || (sep =? "T")%char) then None else
      match num [y1; y2; y3; y4], num [m1; m2], num [d1; d2], num [h1; h2], num [i1; i2] with
      | Some y, Some m, Some d, Some hh, Some mi =>
          if (1 <=? m) && (m <=? 12) && (1 <=? d) && (d <=? 31) && (hh <=? 24) && (mi <=? 59) then
            match rest with
            | ":" :: s1 :: s2 :: rest2 =>
                match num [s1; s2] with
                | Some sec =>
                    if sec <=? 59 then
                      let '(ds, rest3) :=
                        match rest2 with
                        | "." :: r => match span_digits r with
                                      | ([], _) => ([], rest2)
                                      | p => p
                                      end
                        | _ => ([], rest2)
                        end in
                      match sd_parse_tz rest3 with
                      | Some tz => Some {| sY := y; sM := m; sD := d; sh := hh; smi := mi;
                                           ss := (of_Z sec + sd_frac ds)%float; stz := tz |}
                      | None => None
                      end
                    else None
                | None => None
                end
            | _ => match sd_parse_tz rest with
                   | Some tz => Some {| sY := y; sM := m; sD := d; sh := hh; smi := mi;
                                        ss := (of_Z 0 + zero)%float; stz := tz |}
                   | None => None
                   end
            end
          else None
      | _, _, _, _, _ => None
      end
  | _ => None
  end.

(* computeJD (Meeus p. 61; C int division, all operands non-negative here):
     if( M<=2 ){ Y--; M += 12; }
     A = Y/100;  B = 2 - A + (A/4);  X1 = 36525*(Y+4716)/100;  X2 = 306001*(M+1)/10000;
     iJD = (i64)((X1 + X2 + D + B - 1524.5) * 86400000);
     iJD += h*3600000 + m*60000 + (i64)(s*1000 + 0.5);   iJD -= tz*60000; *)
Definition sd_jd_day (y m d : Z) : res Z :=
  let y' := if m <=? 2 then y - 1 else y in
  let m' := if m <=? 2 then m + 12 else m in
  let a := y' / 100 in
  let b := 2 - a + a / 4 in
  let x1 := 36525 * (y' + 4716) / 100 in
  let x2 := 306001 * (m' + 1) / 10000 in
  int_of_float ((of_Z (x1 + x2 + d + b) - f1524_5) * f86400000)%float.

Definition sd_sec_ms (s : float) : res Z := int_of_float (s * f1000 + fhalf)%float.

Definition sd_compute_jd (p : sdt) : res Z :=
  bind (sd_jd_day (sY p) (sM p) (sD p)) (fun j =>
  bind (sd_sec_ms (ss p)) (fun ms =>
    Ok (j + sh p * 3600000 + smi p * 60000 + ms - stz p * 60000))).

(* isDate on a TEXT argument: parse, computeJD, validJulianDay; a failure makes the SQL
   function return NULL (here Err ValueError) *)
Definition sd_ijd_of_text (s : list ascii) : res Z :=
  match sd_parse s with
  | Some p => bind (sd_compute_jd p) (fun j =>
                if (0 <=? j) && (j <=? IJD_MAX) then Ok j else Err ValueError)
  | None => Err ValueError
  end.

(* ------------------------------------------------------------------------- *)
(* the arithmetic core *)

(* julianday(): iJD/86400000.0 *)
Definition sd_julianday (ijd : Z) : float := (of_Z ijd / f86400000)%float.

(* (julianday(timestamp) - 2440587.5) * 86400.0 + duration *)
Definition sd_expr (jd cell : float) : float := ((jd - f2440587_5) * f86400 + cell)%float.

(* setRawDateNumber + the 'unixepoch' modifier:
     r = p->s*1000.0 + 210866760000000.0;
     if( r>=0.0 && r<464269060800000.0 ){ p->iJD = (sqlite3_int64)(r + 0.5); ... } else error *)
Definition sd_unixepoch (x : float) : res Z :=
  let r := (x * f1000 + fEPOCH_MS)%float in
  if (zero <=? r)%float && (r <? fIJD_LIM)%float then
    bind (int_of_float (r + fhalf)%float) (fun j =>
      if (0 <=? j) && (j <=? IJD_MAX) then Ok j else Err ValueError)
  else Err ValueError.

(* iJD of the row's timestamp -> iJD of the instant strftime prints *)
Definition sd_core (ijd : Z) (cell : float) : res Z :=
  sd_unixepoch (sd_expr (sd_julianday ijd) cell).

(* ------------------------------------------------------------------------- *)
(* printing: computeYMD, computeHMS, strftime *)

Definition ftrunc (f : float) : res Z := int_of_float f.

(* computeYMD:
     Z = (int)((iJD + 43200000)/86400000);
     A = (int)((Z - 1867216.25)/36524.25);  A = Z + 1 + A - (A/4);  B = A + 1524;
     C = (int)((B - 122.1)/365.25);  D = (36525*(C&32767))/100;
     E = (int)((B-D)/30.6001);  X1 = (int)(30.6001*E);
     day = B - D - X1;  month = E<14 ? E-1 : E-13;  year = month>2 ? C - 4716 : C - 4715; *)
Definition sd_ymd_z (z : Z) : res (Z * Z * Z) :=
  bind (ftrunc ((of_Z z - f1867216_25) / f36524_25)%float) (fun a0 =>
    let a := z + 1 + a0 - Z.quot a0 4 in
    let b := a + 1524 in
    bind (ftrunc ((of_Z b - f122_1) / f365_25)%float) (fun c =>
      let d := Z.quot (36525 * Z.land c 32767) 100 in
      bind (ftrunc (of_Z (b - d) / f30_6001)%float) (fun e =>
        bind (ftrunc (f30_6001 * of_Z e)%float) (fun x1 =>
          let month := if e <? 14 then e - 1 else e - 13 in
          Ok (if 2 <? month then c - 4716 else c - 4715, month, b - d - x1))))).
Definition sd_ymd (ijd : Z) : res (Z * Z * Z) := sd_ymd_z ((ijd + 43200000) / 86400000).

(* computeHMS (3.40.1: through a double):
     s = (int)((iJD + 43200000) % 86400000);  p->s = s/1000.0;  s = (int)p->s;  p->s -= s;
     h = s/3600;  s -= h*3600;  m = s/60;  p->s += s - m*60; *)
Definition sd_hms (ijd : Z) : res (Z * Z * float) :=
  let s0 := (ijd + 43200000) mod 86400000 in
  let ps := (of_Z s0 / f1000)%float in
  bind (ftrunc ps) (fun s1 =>
    let ps' := (ps - of_Z s1)%float in
    let h := s1 / 3600 in
    let s2 := s1 - h * 3600 in
    let m := s2 / 60 in
    Ok (h, m, (ps' + of_Z (s2 - m * 60))%float)).

(* "%06.3f" of a non-negative double below 60: the exact value m * 2^e rounded half up to
   thousandths, as the integer number of thousandths *)
Definition fmt3 (f : float) : res Z :=
  match Prim2SF f with
  | S754_zero _ => Ok 0
  | S754_finite false m e =>
      Ok (if 0 <=? e then 1000 * Z.shiftl (Zpos m) e
          else (2000 * Zpos m + 2 ^ (- e)) / 2 ^ (1 - e))
  | S754_finite true _ _ => Err ValueError
  | S754_nan => Err ValueError
  | S754_infinity _ => Err OtherError
  end.

Definition pad3 (n : Z) : list ascii := [digit (n / 100); digit (n / 10 mod 10); digit (n mod 10)].

(* strftime('%Y-%m-%d %H:%M:%f+00:00', ...):  %f prints min(s, 59.999) *)
Definition sd_strftime (ijd : Z) : res (list ascii) :=
  bind (sd_ymd ijd) (fun ymd =>
  bind (sd_hms ijd) (fun hms =>
    let '(y, mo, d) := ymd in
    let '(h, mi, s) := hms in
    let s' := if (f59_999 <? s)%float then f59_999 else s in
    bind (fmt3 s') (fun k =>
      Ok (pad4 y ++ "-" :: pad2 mo ++ "-" :: pad2 d ++ " " :: pad2 h ++ ":" :: pad2 mi ++ ":" ::
          pad2 (k / 1000) ++ "." :: pad3 (k mod 1000) ++ utc_suffix)))).

(* "YYYY-MM-DD HH:MM:SS.mmm+00:00" of an instant given in microseconds (a whole millisecond),
   in exact integer arithmetic: what sd_strftime prints for iJD = EPOCH_MS + v/1000
   (Proofs/SqliteDateText.v) *)
Definition sd_ms_text (v : Z) : list ascii :=
  let days := v / day_us in
  let rem := v mod day_us in
  let '(y, m, d) := civil_from_days days in
  pad4 y ++ "-" :: pad2 m ++ "-" :: pad2 d ++ " " :: pad2 (rem / 3600000000) ++ ":" ::
  pad2 (rem / 60000000 mod 60) ++ ":" :: pad2 (rem / 1000000 mod 60) ++ "." ::
  pad3 (rem / 1000 mod 1000) ++ utc_suffix.

(* ------------------------------------------------------------------------- *)
(* the whole expression on a row (timestamp TEXT, duration cell) *)

Definition sd_end_text (ts : list ascii) (cell : float) : res (list ascii) :=
  bind (sd_ijd_of_text ts) (fun j => bind (sd_core j cell) sd_strftime).

(* the instant printed, in microseconds since the epoch: what Model/Window.v's [sql_end_ms]
   stands for.  [sd_end_us] takes the calendar steps (text -> iJD, iJD -> text) as the exact
   integer arithmetic they implement; Proofs/SqliteDateText.v proves that [sd_end_text] on the
   stored TEXT prints exactly this instant, and the run compares both with the engine on every
   row. *)
Definition sd_end_us (t : Z) (cell : float) : res Z :=
  bind (sd_core (EPOCH_MS + t / 1000) cell) (fun j => Ok ((j - EPOCH_MS) * 1000)).

(* a string literal as the character list the parser takes *)
Definition sd_str (s : string) : list ascii := list_ascii_of_string s.

(* for the in-Coq cases route: one row ->
   [ok?; iJD of the timestamp] ++ [ok?; printed instant in us] ++ [ok?; characters of the TEXT] *)
Definition enc_resZ (r : res Z) : list Z :=
  match r with Ok v => [0; v] | Err c => [1; errclass_code c] | OutOfFuel => [2; 0] end.
Definition sd_row_case (ts : list ascii) (cell : float) : list Z :=
  let j := sd_ijd_of_text ts in
  enc_resZ j ++
  enc_resZ (bind j (fun j => bind (sd_core j cell) (fun j' => Ok ((j' - EPOCH_MS) * 1000)))) ++
  match sd_end_text ts cell with
  | Ok l => 0 :: map (fun c => Z.of_N (N_of_ascii c)) l
  | Err c => [1; errclass_code c]
  | OutOfFuel => [2]
  end.
