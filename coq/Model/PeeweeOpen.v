(* What `PeeweeStorage.__init__` (aw_datastore/storages/peewee.py) does to a database FILE,
   as an I/O script (C14: "the legacy file itself is left untouched").  Definitions only.

   The migration opens the legacy file with `PeeweeStorage(datastore.testing)`.  That
   constructor works on ONE module-level handle `_db = SqliteExtDatabase(None)` that every
   PeeweeStorage of the process shares and that both peewee models are bound to
   (`BaseModel.Meta.database = _db`).  In source order it

       self.db = _db                          (binding: no step)
       self.db.init(filepath)                 OInit
       self.db.connect()                      OConnect
       self.bucket_keys = {}                  (no step)
       BucketModel.create_table(safe=True)    OCreateTable TBucket true
       EventModel.create_table(safe=True)     OCreateTable TEvent true
       self.db.close()                        OClose
       auto_migrate(filepath)                 OAutoMigrate   (script AM_SCRIPT, its own handle)
       self.db.connect()                      OConnect
       self.update_bucket_keys()              ORefreshKeys

   none of it under a condition.  The step semantics below follow peewee 3.19
   (Database.init closes an open connection before it stores the new path; connect on an
   open handle raises; a statement on a closed handle connects first - autoconnect; every
   pragma of the database declaration is executed on every new connection;
   create_table(safe=True) = CREATE TABLE / INDEX IF NOT EXISTS).

   A file is a label, its content is abstracted to the schema objects the script tests
   (tables, indexes, columns); rows are C14_lossless's business.  Every statement that
   reaches SQLite is an effect token carrying the file it went to: the writes to a file are
   the write tokens with its label.

   Tie B (translate/k_migration.py: peewee_open_* kernels, Bridge/BridgePeeweeOpen.v)
   re-reads INIT_SCRIPT, DB_PRAGMAS, AM_SCRIPT and the table declarations from the source
   on every run.  `OIfClosed` is NOT used by the code: it is there so that "initialise only
   when the handle is closed" is expressible (and provably wrong, see Props/C14.v). *)
From AwVerif Require Import Base.Prelude Model.StoreBase Model.SqliteStore Model.PeeweeStore
  Model.Migration.

Definition file := Z.            (* label of an absolute path *)

(* ------------------------------------------------------------------ *)
(* schema objects of a file                                             *)

Inductive sobj :=
  | STable (t : name)
  | SIndex (i : name)
  | SColumn (t c : name).

Definition sobj_eqb (a b : sobj) : bool :=
  match a, b with
  | STable x, STable y => name_eqb x y
  | SIndex x, SIndex y => name_eqb x y
  | SColumn t c, SColumn t' c' => name_eqb t t' && name_eqb c c'
  | _, _ => false
  end.

Definition schema := list sobj.
Definition has (s : schema) (o : sobj) : bool := existsb (sobj_eqb o) s.

(* None: no such file *)
Definition fsys := file -> option schema.
Definition fs_set (fs : fsys) (f : file) (s : schema) : fsys :=
  fun g => if g =? f then Some s else fs g.
Definition fs_schema (fs : fsys) (f : file) : schema :=
  match fs f with Some s => s | None => [] end.

(* ------------------------------------------------------------------ *)
(* the two peewee models (class name lower-cased = table; a ForeignKeyField `bucket` is the
   column `bucket_id`; `unique=True` / `index=True` / a foreign key give the index
   `<table>_<column>`)                                                   *)

Inductive mtable := TBucket | TEvent.

Definition N_BUCKETMODEL : name := [98; 117; 99; 107; 101; 116; 109; 111; 100; 101; 108]  (* "bucketmodel" *).
Definition N_EVENTMODEL : name := [101; 118; 101; 110; 116; 109; 111; 100; 101; 108]  (* "eventmodel" *).
Definition N_DATASTR : name := [100; 97; 116; 97; 115; 116; 114]  (* "datastr" *).

Definition table_name (t : mtable) : name :=
  match t with TBucket => N_BUCKETMODEL | TEvent => N_EVENTMODEL end.

Definition table_columns (t : mtable) : list name :=
  match t with
  | TBucket => [[107; 101; 121]  (* "key" *); [105; 100]  (* "id" *);
                [99; 114; 101; 97; 116; 101; 100]  (* "created" *); [110; 97; 109; 101]  (* "name" *);
                [116; 121; 112; 101]  (* "type" *); [99; 108; 105; 101; 110; 116]  (* "client" *);
                [104; 111; 115; 116; 110; 97; 109; 101]  (* "hostname" *); N_DATASTR]
  | TEvent => [[105; 100]  (* "id" *); [98; 117; 99; 107; 101; 116; 95; 105; 100]  (* "bucket_id" *);
               [116; 105; 109; 101; 115; 116; 97; 109; 112]  (* "timestamp" *);
               [100; 117; 114; 97; 116; 105; 111; 110]  (* "duration" *); N_DATASTR]
  end.

Definition table_indexes (t : mtable) : list name :=
  match t with
  | TBucket => [[98; 117; 99; 107; 101; 116; 109; 111; 100; 101; 108; 95; 105; 100]  (* "bucketmodel_id" *)]
  | TEvent => [[101; 118; 101; 110; 116; 109; 111; 100; 101; 108; 95; 98; 117; 99; 107; 101; 116; 95; 105; 100]
                 (* "eventmodel_bucket_id" *);
               [101; 118; 101; 110; 116; 109; 111; 100; 101; 108; 95; 116; 105; 109; 101; 115; 116; 97; 109; 112]
                 (* "eventmodel_timestamp" *)]
  end.

(* ------------------------------------------------------------------ *)
(* effects                                                              *)

Definition pragma := (name * name)%type.

Inductive effect :=
  | ECreateFile (f : file)                 (* sqlite3.connect on a path that does not exist *)
  | EPragma (f : file) (k v : name)        (* a pragma of the database declaration, on every new connection *)
  | ECreateObj (f : file) (o : sobj)       (* CREATE TABLE / CREATE INDEX that was not a no-op *)
  | EAddColumn (f : file) (t c : name)     (* ALTER TABLE t ADD COLUMN c *)
  | ESelectBuckets (f : file).             (* SELECT .. FROM bucketmodel: a read *)

Definition is_write (e : effect) : bool :=
  match e with ESelectBuckets _ => false | _ => true end.

Definition effect_file (e : effect) : file :=
  match e with
  | ECreateFile f | EPragma f _ _ | ECreateObj f _ | EAddColumn f _ _ | ESelectBuckets f => f
  end.

Definition writes (tr : list effect) : list effect := filter is_write tr.
Definition reads (tr : list effect) : list effect := filter (fun e => negb (is_write e)) tr.
Definition writes_to (f : file) (tr : list effect) : list effect :=
  filter (fun e => effect_file e =? f) (writes tr).

(* ------------------------------------------------------------------ *)
(* the shared handle                                                    *)

Inductive hstate :=
  | HDeferred            (* SqliteExtDatabase(None): no path yet *)
  | HClosed (f : file)   (* path f, no connection *)
  | HOpen (f : file).    (* connection open on f *)

Record world := mkW { w_fs : fsys; w_h : hstate; w_tr : list effect }.

(* a new connection on f with the declaration's pragmas *)
Definition connect_io (P : list pragma) (f : file) (fs : fsys) : fsys * list effect :=
  let created := match fs f with Some _ => [] | None => [ECreateFile f] end in
  let fs' := match fs f with Some _ => fs | None => fs_set fs f [] end in
  (fs', created ++ map (fun kv => EPragma f (fst kv) (snd kv)) P).

(* autoconnect: the file the next statement goes to *)
Definition ensure_open (P : list pragma) (w : world) : res (world * file) :=
  match w_h w with
  | HOpen g => Ok (w, g)
  | HClosed g => let '(fs', es) := connect_io P g (w_fs w) in
                 Ok (mkW fs' (HOpen g) (w_tr w ++ es), g)
  | HDeferred => Err OtherError            (* InterfaceError: database must be initialized *)
  end.

(* CREATE TABLE [IF NOT EXISTS] t (..columns..) *)
Definition create_table_stmt (safe : bool) (t : mtable) (f : file) (s : schema)
  : res (schema * list effect) :=
  let o := STable (table_name t) in
  if has s o then (if safe then Ok (s, []) else Err OtherError (* table already exists *))
  else Ok (o :: map (SColumn (table_name t)) (table_columns t) ++ s, [ECreateObj f o]).

(* CREATE INDEX [IF NOT EXISTS] i, one statement per index, in declaration order *)
Fixpoint create_index_stmts (safe : bool) (f : file) (is : list name) (s : schema)
  : res (schema * list effect) :=
  match is with
  | [] => Ok (s, [])
  | i :: rest =>
      let o := SIndex i in
      if has s o then
        (if safe then create_index_stmts safe f rest s else Err OtherError (* index already exists *))
      else match create_index_stmts safe f rest (o :: s) with
           | Ok (s', es) => Ok (s', ECreateObj f o :: es)
           | Err k => Err k
           | OutOfFuel => OutOfFuel
           end
  end.

(* ------------------------------------------------------------------ *)
(* auto_migrate(path)                                                   *)

Inductive amstep :=
  | AOpen (P : list pragma)          (* db = SqliteExtDatabase(path[, pragmas=..]); migrator = SqliteMigrator(db) *)
  | AHasColumn (t c : name)          (* info = db.execute_sql("PRAGMA table_info(<t>)"); has = any(row[1] == "<c>" for row in info) *)
  | AIfNotHasAddColumn (t c : name)  (* if not has: with db.atomic(): migrate(migrator.add_column("<t>", "<c>", <field>)) *)
  | AClose.                          (* db.close() *)

Definition AM_SCRIPT : list amstep :=
  [AOpen []; AHasColumn N_BUCKETMODEL N_DATASTR; AIfNotHasAddColumn N_BUCKETMODEL N_DATASTR; AClose].

Record amstate := mkAM {
  am_fs : fsys; am_tr : list effect;
  am_db : option (list pragma);      (* None: `db` not assigned yet *)
  am_conn : bool;                    (* the local handle has a connection *)
  am_has : option bool }.            (* None: `has_..` not assigned yet *)

(* a statement through the local handle connects first *)
Definition am_ensure (f : file) (a : amstate) : res amstate :=
  match am_db a with
  | None => Err OtherError                               (* NameError *)
  | Some P => if am_conn a then Ok a
              else let '(fs', es) := connect_io P f (am_fs a) in
                   Ok (mkAM fs' (am_tr a ++ es) (am_db a) true (am_has a))
  end.

Definition run_amstep (f : file) (a : amstate) (st : amstep) : amstate * res unit :=
  match st with
  | AOpen P => (mkAM (am_fs a) (am_tr a) (Some P) false (am_has a), Ok tt)
  | AHasColumn t c =>
      match am_ensure f a with
      | Ok a' => (mkAM (am_fs a') (am_tr a') (am_db a') (am_conn a')
                       (Some (has (fs_schema (am_fs a') f) (SColumn t c))), Ok tt)
      | Err k => (a, Err k)
      | OutOfFuel => (a, OutOfFuel)
      end
  | AIfNotHasAddColumn t c =>
      match am_has a with
      | None => (a, Err OtherError)                      (* NameError *)
      | Some true => (a, Ok tt)
      | Some false =>
          match am_ensure f a with
          | Ok a' =>
              let s := fs_schema (am_fs a') f in
              if has s (STable t) then
                (mkAM (fs_set (am_fs a') f (SColumn t c :: s)) (am_tr a' ++ [EAddColumn f t c])
                      (am_db a') (am_conn a') (am_has a'), Ok tt)
              else (a', Err OtherError)                  (* OperationalError: no such table *)
          | Err k => (a, Err k)
          | OutOfFuel => (a, OutOfFuel)
          end
      end
  | AClose =>
      match am_db a with
      | None => (a, Err OtherError)
      | Some _ => (mkAM (am_fs a) (am_tr a) (am_db a) false (am_has a), Ok tt)
      end
  end.

Fixpoint run_am (f : file) (a : amstate) (script : list amstep) : amstate * res unit :=
  match script with
  | [] => (a, Ok tt)
  | st :: t => match run_amstep f a st with
               | (a', Ok _) => run_am f a' t
               | (a', r) => (a', r)
               end
  end.

(* ------------------------------------------------------------------ *)
(* PeeweeStorage.__init__                                               *)

Inductive ostep :=
  | OInit                               (* self.db.init(filepath) *)
  | OConnect                            (* self.db.connect() *)
  | OClose                              (* self.db.close() *)
  | OCreateTable (t : mtable) (safe : bool)   (* <Model>.create_table(safe=..), a model bound to the shared handle *)
  | OAutoMigrate                        (* auto_migrate(filepath) *)
  | ORefreshKeys                        (* self.update_bucket_keys() *)
  | OIfClosed (body : list ostep).      (* if self.db.is_closed(): <body>   -- not in INIT_SCRIPT *)

Definition INIT_SCRIPT : list ostep :=
  [OInit; OConnect; OCreateTable TBucket true; OCreateTable TEvent true; OClose; OAutoMigrate; OConnect;
   ORefreshKeys].

(* pragmas of `_db = SqliteExtDatabase(None)` *)
Definition DB_PRAGMAS : list pragma := [].

Section Run.
  Variable P : list pragma.          (* pragmas of the shared handle's declaration *)
  Variable AM : list amstep.         (* body of auto_migrate *)
  Variable f : file.                 (* the requested file: `filepath` *)

  Fixpoint run_ostep (st : ostep) (w : world) {struct st} : world * res unit :=
    match st with
    | OInit => (mkW (w_fs w) (HClosed f) (w_tr w), Ok tt)   (* closes an open connection, stores the path *)
    | OConnect =>
        match w_h w with
        | HDeferred => (w, Err OtherError)                  (* InterfaceError *)
        | HOpen _ => (w, Err OtherError)                    (* OperationalError: Connection already opened *)
        | HClosed g => let '(fs', es) := connect_io P g (w_fs w) in
                       (mkW fs' (HOpen g) (w_tr w ++ es), Ok tt)
        end
    | OClose =>
        match w_h w with
        | HDeferred => (w, Err OtherError)                  (* InterfaceError *)
        | HOpen g | HClosed g => (mkW (w_fs w) (HClosed g) (w_tr w), Ok tt)
        end
    | OCreateTable t safe =>
        match ensure_open P w with
        | Ok (w1, g) =>
            match create_table_stmt safe t g (fs_schema (w_fs w1) g) with
            | Ok (s1, e1) =>
                match create_index_stmts safe g (table_indexes t) s1 with
                | Ok (s2, e2) =>
                    (mkW (fs_set (w_fs w1) g s2) (w_h w1) (w_tr w1 ++ e1 ++ e2), Ok tt)
                | Err k => (mkW (fs_set (w_fs w1) g s1) (w_h w1) (w_tr w1 ++ e1), Err k)
                | OutOfFuel => (w1, OutOfFuel)
                end
            | Err k => (w1, Err k)
            | OutOfFuel => (w1, OutOfFuel)
            end
        | Err k => (w, Err k)
        | OutOfFuel => (w, OutOfFuel)
        end
    | OAutoMigrate =>
        let '(a, r) := run_am f (mkAM (w_fs w) (w_tr w) None false None) AM in
        (mkW (am_fs a) (w_h w) (am_tr a), r)
    | ORefreshKeys =>
        match ensure_open P w with
        | Ok (w1, g) =>
            if has (fs_schema (w_fs w1) g) (STable N_BUCKETMODEL)
            then (mkW (w_fs w1) (w_h w1) (w_tr w1 ++ [ESelectBuckets g]), Ok tt)
            else (w1, Err OtherError)                       (* OperationalError: no such table *)
        | Err k => (w, Err k)
        | OutOfFuel => (w, OutOfFuel)
        end
    | OIfClosed body =>
        match w_h w with
        | HOpen _ => (w, Ok tt)
        | _ => (fix go (l : list ostep) (w : world) : world * res unit :=
                  match l with
                  | [] => (w, Ok tt)
                  | s :: t => match run_ostep s w with
                              | (w', Ok _) => go t w'
                              | (w', r) => (w', r)
                              end
                  end) body w
        end
    end.

  Fixpoint run_osteps (script : list ostep) (w : world) : world * res unit :=
    match script with
    | [] => (w, Ok tt)
    | st :: t => match run_ostep st w with
                 | (w', Ok _) => run_osteps t w'
                 | (w', r) => (w', r)
                 end
    end.
End Run.

(* PeeweeStorage(.., filepath = f) in a process whose shared handle is in state h, on the
   file system fs: the world after the constructor, and whether an exception escaped *)
Definition pw_open_io (fs : fsys) (h : hstate) (f : file) : world * res unit :=
  run_osteps DB_PRAGMAS AM_SCRIPT f INIT_SCRIPT (mkW fs h []).

(* the schema a file written by the current PeeweeStorage has: both tables, their indexes,
   the datastr column of bucketmodel (anything else may be there too) *)
Definition CURRENT_OBJECTS : list sobj :=
  STable (table_name TBucket) :: map SIndex (table_indexes TBucket) ++
  STable (table_name TEvent) :: map SIndex (table_indexes TEvent) ++
  [SColumn N_BUCKETMODEL N_DATASTR].

Definition current_schema (s : schema) : bool := forallb (has s) CURRENT_OBJECTS.
