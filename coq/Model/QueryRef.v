(* Reference grammar of the query language, its printer under an arbitrary layout, and the
   one-pass reference evaluator [denote] (C11).  Definitions only.
   A layout supplies the blank text (spaces, tabs, line breaks: any white space) of every
   slot around a separator and inside brackets: [lay path slot], where [path] addresses the
   node (child indices, innermost first) and [slot] the place inside the node. *)
From AwVerif Require Import Base.Prelude Model.PyStr Model.Query.
Open Scope Z_scope.

Inductive term :=
  | TInt (digits : str)                       (* a decimal numeral, written as is *)
  | TStr (q : Z) (s : str)                    (* quote character and content *)
  | TVar (name : str)
  | TCall (name : str) (args : list term)
  | TLst (items : list term)
  | TDct (entries : list ((Z * str) * term)). (* (quote, key content), value *)

Definition stmt := (str * term)%type.           (* name = expr *)
Definition prog := list stmt.

Definition layout := list nat -> nat -> str.

(* ---------------------------------------------------------------- printing *)

(* a quote inside the content is written backslash-quote *)
Fixpoint escape (q : Z) (s : str) : str :=
  match s with
  | [] => []
  | c :: t => if c =? q then c_bs :: q :: escape q t else c :: escape q t
  end.
Definition str_txt (q : Z) (s : str) : str := q :: escape q s ++ [q].

Section Print.
  Variable lay : layout.

  (* e1 , e2 , ... with blanks around each comma (slots 2i+2, 2i+3 of the node); no blank
     before the first or after the last element (the brackets add those) *)
  Section Sep.
    Context {A : Type}.
    Variable pr : list nat -> A -> str.
    Variable p : list nat.
    Fixpoint sep_core (i : nat) (l : list A) : str :=
      match l with
      | [] => []
      | a :: rest =>
          pr (i :: p) a ++
          match rest with
          | [] => []
          | _ => lay p (2 * i + 2)%nat ++ [c_comma] ++ lay p (2 * i + 3)%nat ++ sep_core (S i) rest
          end
      end.
  End Sep.

  (* what is written between a pair of brackets: blank, elements, blank (one blank when
     there is no element) *)
  Definition inner {A} (pr : list nat -> A -> str) (p : list nat) (l : list A) : str :=
    match l with
    | [] => lay p 0%nat
    | _ => lay p 0%nat ++ sep_core pr p 0%nat l ++ lay p 1%nat
    end.

  Fixpoint txt (p : list nat) (t : term) {struct t} : str :=
    match t with
    | TInt ds => ds
    | TStr q s => str_txt q s
    | TVar n => n
    | TCall n args => n ++ [c_lpar] ++ inner txt p args ++ [c_rpar]
    | TLst l => [c_lbrk] ++ inner txt p l ++ [c_rbrk]
    | TDct d =>
        [c_lbrc] ++
        inner (fun pe e => str_txt (fst (fst e)) (snd (fst e)) ++ lay pe 0%nat ++ [c_colon] ++ lay pe 1%nat ++
                           txt (0%nat :: pe) (snd e)) p d ++
        [c_rbrc]
    end.

  (* blank name blank = blank expr blank *)
  Definition stmt_txt (i : nat) (s : stmt) : str :=
    lay [i] 0%nat ++ fst s ++ lay [i] 1%nat ++ [c_eq] ++ lay [i] 2%nat ++ txt [0%nat; i] (snd s) ++ lay [i] 3%nat.

  (* statements, each followed by a semicolon, then a final blank *)
  Fixpoint prog_txt_from (i : nat) (pg : prog) : str :=
    match pg with
    | [] => lay [] 0%nat
    | s :: rest => stmt_txt i s ++ [c_semi] ++ prog_txt_from (S i) rest
    end.
  Definition print (pg : prog) : str := prog_txt_from 0%nat pg.
End Print.

Definition wf_layout (lay : layout) : Prop := forall p k, forallb is_space (lay p k) = true.

(* ---------------------------------------------------------------- well-formedness *)

Definition name_char (c : Z) : bool := is_alpha c || (c =? c_us) || is_digit c.
Definition wf_name (n : str) : Prop :=
  match n with
  | [] => False
  | c :: r => (is_alpha c || (c =? c_us)) = true /\ forallb name_char r = true
  end.

(* the content does not end in a backslash *)
Fixpoint ends_ok (s : str) : bool :=
  match s with
  | [] => true
  | [c] => negb (c =? c_bs)
  | _ :: t => ends_ok t
  end.
Definition wf_str (q : Z) (s : str) : Prop :=
  (q = c_dq \/ q = c_sq) /\ ends_ok s = true /\ ~ In c_semi s.

Fixpoint keys_distinct (ks : list str) : Prop :=
  match ks with
  | [] => True
  | k :: r => ~ In k r /\ keys_distinct r
  end.

Section Wf.
  Variable max_digits : nat.      (* 0 = no limit *)
  Fixpoint wf (t : term) : Prop :=
    match t with
    | TInt ds => ds <> [] /\ forallb is_digit ds = true /\
                 (max_digits = 0%nat \/ (length ds <= max_digits)%nat)
    | TStr q s => wf_str q s
    | TVar n => wf_name n
    | TCall n args =>
        wf_name n /\ (fix all (l : list term) : Prop :=
                        match l with [] => True | a :: r => wf a /\ all r end) args
    | TLst l => (fix all (l : list term) : Prop :=
                   match l with [] => True | a :: r => wf a /\ all r end) l
    | TDct d =>
        keys_distinct (map (fun e => snd (fst e)) d) /\
        (fix all (l : list ((Z * str) * term)) : Prop :=
           match l with
           | [] => True
           | e :: r => wf_str (fst (fst e)) (snd (fst e)) /\ wf (snd e) /\ all r
           end) d
    end.
  Definition wf_stmt (s : stmt) : Prop := wf_name (fst s) /\ wf (snd s).
  Definition wf_prog (pg : prog) : Prop := Forall wf_stmt pg.
End Wf.

(* ---------------------------------------------------------------- what the parser should build *)

(* the number a decimal numeral denotes *)
Definition num_val (ds : str) : Z := fold_left (fun acc c => 10 * acc + (c - 48)) ds 0.

Section Tokens.
  Variable ns : namespace.
  Fixpoint tok_of (t : term) : qtoken :=
    match t with
    | TInt ds => QInteger (num_val ds)
    | TStr _ s => QString s
    | TVar n => QVariable n (match dict_get ns n with Some v => v | None => VNone end)
    | TCall n args => QFunction n (map tok_of args)
    | TLst l => QList (map tok_of l)
    | TDct d => QDict (map (fun e => (snd (fst e), tok_of (snd e))) d)
    end.
End Tokens.

(* ---------------------------------------------------------------- the reference evaluator *)

Section Denote.
  Variable table : list builtin.
  Variable W : Type.
  Variable buckets : W -> str -> bool.
  Variable body : str -> list arg -> W -> (value + errclass) * W.

  Section Seq.
    Variable f : term -> M W value.
    Fixpoint denote_seq (l : list term) : M W (list value) :=
      match l with
      | [] => ret W []
      | a :: r => bindM W (f a) (fun v => bindM W (denote_seq r) (fun vs => ret W (v :: vs)))
      end.
    Fixpoint denote_entries (l : list ((Z * str) * term)) : M W (list (str * value)) :=
      match l with
      | [] => ret W []
      | e :: r =>
          bindM W (f (snd e)) (fun v =>
          bindM W (denote_entries r) (fun vs => ret W ((snd (fst e), v) :: vs)))
      end.
  End Seq.

  (* literals denote themselves, a variable its binding, a call the built-in applied to the
     values of all its arguments, evaluated in written order *)
  Fixpoint denote (ns : namespace) (t : term) {struct t} : M W value :=
    match t with
    | TInt ds => ret W (VInt (num_val ds))
    | TStr _ s => ret W (VStr s)
    | TVar n => match dict_get ns n with Some v => ret W v | None => fail W InterpretError end
    | TCall n args =>
        match find_builtin table n with
        | None => fail W InterpretError
        | Some b => bindM W (denote_seq (denote ns) args) (fun vals => call_builtin W buckets body b vals)
        end
    | TLst l => bindM W (denote_seq (denote ns) l) (fun vs => ret W (VList vs))
    | TDct d => bindM W (denote_entries (denote ns) d) (fun kvs => ret W (VDict kvs))
    end.

  (* statements in order, each binding its name to the value of its expression; the result
     is the last binding of RETURN *)
  Fixpoint denote_stmts (pg : prog) (ns : namespace) : M W namespace :=
    match pg with
    | [] => ret W ns
    | (n, e) :: rest => bindM W (denote ns e) (fun v => denote_stmts rest (dict_set ns n v))
    end.

  Definition denote_prog (name starttime endtime : str) (pg : prog) : M W value :=
    bindM W (denote_stmts pg (initial_namespace name starttime endtime))
          (fun ns => match dict_get ns s_RETURN with
                     | Some v => ret W v
                     | None => fail W ParseError
                     end).
End Denote.
