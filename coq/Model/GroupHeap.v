(* Heap-level (imperative) model of the C16 transforms: aw_transform/merge_events_by_keys.py,
   chunk_events_by_key.py, sort_by.py (sort_by_timestamp, sort_by_duration, limit_events,
   sum_durations, concat) and filter_keyvals.py (filter_keyvals / exclude) as they are in
   /repo.  Definitions only; theorems in Proofs/GroupHeap*.v, statements in Props/C16own.v.

   Objects as in Model/TransformHeap.v (Event cells, list cells, [new_list]); data dicts
   have structure (Model/DictHeap.v).  What each function allocates, writes and shares:

   sort_by_timestamp / sort_by_duration / limit_events / filter_keyvals / concat
       allocate ONE cell, the returned list; its elements are the caller's own Event
       objects (sorted() / slice / comprehension / + build a new list of the same objects).
   merge_events_by_keys
       keys empty: returns the INPUT LIST OBJECT itself, nothing allocated.
       otherwise, per group: a data dict and an Event (Event(timestamp=..., duration=...,
       data={}) followed by merged.data[key] = event.data[key] for the keys the first
       member has: the dict is allocated with its final content, the intermediate states
       are unobservable and nothing can raise in between); a value that is a list object
       is SHARED with the first member's data (the new dict refers to the same list).
       `merged.duration += event.duration` writes the new Event.  Finally Event( **merged)
       per group: a second new Event cell sharing the group's data dict, except that an
       empty dict is falsy (`data or {}`) and is replaced by yet another new {}.
       The composite key hashes the values: a list value is tuple()d first and must not
       have mutable members (TypeError: unhashable), which is what [hash_label] says.
   chunk_events_by_key
       per chunk: a list [event] (the `subevents`), a dict {key: value, "subevents": list}
       and an Event; the sub-event list holds the INPUT EVENT OBJECTS (shared by design), a
       list-valued event.data[key] is shared as well; `+=` and `.append(event)` write the
       new Event / the new list.
   Nothing ever writes to a cell that existed before the call. *)
From AwVerif Require Import Base.Prelude Model.MemHeap Model.TransformHeap Model.DictHeap Model.Group.
From Coq Require Import Arith.
(* Model/Group.v has its own [lookup] (dict read) and [floor_ms] *)
Local Notation lookup := MemHeap.lookup.

(* ------------------------------------------------------------------------- *)
(* sort_by.py *)

(* sorted(events, key=rd) : keys read from the heap, stable, same objects in a new list *)
Definition keyed_by (rd : heap -> loc -> res Z) (h : heap) (ks : list loc) : res (list (Z * loc)) :=
  map_res (fun l => bind (rd h l) (fun t => Ok (t, l))) ks.

Definition sorted_by (rd : heap -> loc -> res Z) (h : heap) (ks : list loc) : res (list loc) :=
  bind (keyed_by rd h ks) (fun kl => Ok (map snd (sort_by fst kl))).

Definition sort_by_timestamp_h (h : heap) (L : loc) : res (heap * loc) :=
  bind (list_elems h L) (fun ks =>
  bind (sorted_by rd_ts h ks) (fun s => Ok (new_list h s))).

(* reverse=True keeps equal keys in input order: stable ascending sort on the negated key *)
Definition rd_negdur (h : heap) (l : loc) : res Z := bind (rd_dur h l) (fun d => Ok (- d)).

Definition sort_by_duration_h (h : heap) (L : loc) : res (heap * loc) :=
  bind (list_elems h L) (fun ks =>
  bind (sorted_by rd_negdur h ks) (fun s => Ok (new_list h s))).

(* events[:count] *)
Definition limit_l {X} (l : list X) (count : Z) : list X :=
  if count <? 0 then firstn (Z.to_nat (Z.of_nat (length l) + count)) l
  else firstn (Z.to_nat count) l.

Definition limit_events_h (h : heap) (L : loc) (count : Z) : res (heap * loc) :=
  bind (list_elems h L) (fun ks => Ok (new_list h (limit_l ks count))).

(* events1 + events2 *)
Definition concat_h (h : heap) (L1 L2 : loc) : res (heap * loc) :=
  bind (list_elems h L1) (fun ks1 => bind (list_elems h L2) (fun ks2 =>
  Ok (new_list h (ks1 ++ ks2)))).

(* sum_durations: reads only, returns an immutable value (exact sum, as Model/Group.v) *)
Definition sum_durations_h (h : heap) (L : loc) : res Z :=
  bind (list_elems h L) (fun ks =>
  bind (map_res (rd_dur h) ks) (fun ds => Ok (sumZ ds))).

(* ------------------------------------------------------------------------- *)
(* filter_keyvals.py: key in event.data and event.data[key] in vals *)

Definition kv_predicate_h (h : heap) (key : Z) (vals : list Z) (e : loc) : res bool :=
  bind (ev_dict h e) (fun z =>
  match zget key z with
  | None => Ok false
  | Some v => bind (val_label h v) (fun q => Ok (memZ q vals))
  end).

Definition filter_keyvals_h (h : heap) (L : loc) (key : Z) (vals : list Z) (exclude : bool)
  : res (heap * loc) :=
  bind (list_elems h L) (fun ks =>
  bind (filter_res (fun e => bind (kv_predicate_h h key vals e) (fun b =>
                             Ok (if exclude then negb b else b))) ks) (fun out =>
  Ok (new_list h out))).

(* ------------------------------------------------------------------------- *)
(* merge_events_by_keys.py *)

(* the label under which a value enters the composite key: hash((key, val)) with
   val = tuple(val) for a list, which must then consist of hashable members *)
Definition hash_label (h : heap) (v : zval) : res Z :=
  match v with
  | ZS x => Ok x
  | ZK l =>
      match lookup h l with
      | Some (Cell (TNode q) []) => Ok q
      | Some _ => Err TypeError
      | None => Err KeyError
      end
  end.

Fixpoint ckey_h (h : heap) (keys : list Z) (z : zdict) : res (list (Z * Z)) :=
  match keys with
  | [] => Ok []
  | k :: t =>
      match zget k z with
      | None => ckey_h h t z
      | Some v => bind (hash_label h v) (fun q => bind (ckey_h h t z) (fun r => Ok ((k, q) :: r)))
      end
  end.

(* the data of a new group: for key in keys: if key in event.data: new[key] = event.data[key] *)
Definition zselect (keys : list Z) (z : zdict) : zdict :=
  fold_left (fun acc k => match zget k z with Some v => zset k v acc | None => acc end) keys [].

(* merged_events: insertion-ordered dict composite key -> location of the group's Event *)
Definition groups := list (list (Z * Z) * loc).

Fixpoint gfind (ck : list (Z * Z)) (m : groups) : option loc :=
  match m with
  | [] => None
  | (c, g) :: t => if ckey_eqb c ck then Some g else gfind ck t
  end.

Definition merge_step_h (keys : list Z) (st : heap * groups) (e : loc) : res (heap * groups) :=
  let h := fst st in
  bind (ev_dict h e) (fun z =>
  bind (ckey_h h keys z) (fun ck =>
  match gfind ck (snd st) with
  | None =>
      bind (rd_ts h e) (fun t => bind (rd_dur h e) (fun d =>
      let hd := alloc h (dict_cell (zselect keys z)) in
      let he := alloc (fst hd) (Cell (TEv None (TransformHeap.floor_ms t) d) [snd hd]) in
      Ok (fst he, snd st ++ [(ck, snd he)])))
  | Some g =>
      bind (rd_dur h g) (fun dg => bind (rd_dur h e) (fun d =>
      bind (wr_dur h g (dg + d)) (fun h' => Ok (h', snd st))))
  end)).

(* Event( **merged): id/timestamp/duration through the constructor again; `data or {}` *)
Definition rebuild_h (st : heap * list loc) (g : loc) : res (heap * list loc) :=
  let h := fst st in
  bind (ev_fields h g) (fun f =>
  bind (rd_dict h (snd f)) (fun z =>
  let i := fst (fst (fst f)) in
  let t := TransformHeap.floor_ms (snd (fst (fst f))) in
  let d := snd (fst f) in
  match z with
  | [] =>
      let hd := alloc h (dict_cell []) in
      let he := alloc (fst hd) (Cell (TEv i t d) [snd hd]) in
      Ok (fst he, snd st ++ [snd he])
  | _ :: _ =>
      let he := alloc h (Cell (TEv i t d) [snd f]) in
      Ok (fst he, snd st ++ [snd he])
  end)).

Definition merge_events_by_keys_h (h : heap) (L : loc) (keys : list Z) : res (heap * loc) :=
  if Z.of_nat (length keys) <? 1 then Ok (h, L)           (* return events *)
  else
    bind (list_elems h L) (fun ks =>
    bind (fold_res (merge_step_h keys) ks (h, [])) (fun st =>
    bind (fold_res rebuild_h (map snd (snd st)) (fst st, [])) (fun r =>
    Ok (new_list (fst r) (snd r))))).

(* ------------------------------------------------------------------------- *)
(* chunk_events_by_key.py *)

(* a == b on values: labels (a list never equals a scalar: distinct labels) *)
Definition val_eq (h : heap) (a b : zval) : res bool :=
  bind (val_label h a) (fun x => bind (val_label h b) (fun y => Ok (x =? y))).

(* data = {key: event.data[key], "subevents": [event]};
   Event(timestamp=event.timestamp, duration=event.duration, data=data) *)
Definition new_chunk_h (sub_key key : Z) (h : heap) (e : loc) (v : zval) : res (heap * loc) :=
  bind (rd_ts h e) (fun t => bind (rd_dur h e) (fun d =>
  let hs := alloc h (Cell (TNode EVENT_LIST) [e]) in
  let hd := alloc (fst hs) (dict_cell (zset sub_key (ZK (snd hs)) (zset key v []))) in
  Ok (alloc (fst hd) (Cell (TEv None (TransformHeap.floor_ms t) d) [snd hd])))).

(* chunked_event.data["subevents"].append(event) *)
Definition append_sub (sub_key : Z) (h : heap) (c e : loc) : res heap :=
  bind (ev_dict h c) (fun zc =>
  match zget sub_key zc with
  | Some (ZK s) =>
      match lookup h s with
      | Some (Cell (TNode p) ks) => Ok (update h s (Cell (TNode p) (ks ++ [e])))
      | Some _ => Err AttributeError
      | None => Err KeyError
      end
  | Some (ZS _) => Err AttributeError
  | None => Err KeyError
  end).

(* the loop; acc_rev = chunked_events reversed; last = events[-1] (of the whole input);
   a missing key is `break` *)
Fixpoint chunk_loop_h (sub_key key pulse : Z) (last : loc) (h : heap) (events : list loc)
                      (acc_rev : list loc) : res (heap * list loc) :=
  match events with
  | [] => Ok (h, rev acc_rev)
  | e :: rest =>
      bind (ev_dict h e) (fun z =>
      match zget key z with
      | None => Ok (h, rev acc_rev)
      | Some v =>
          match acc_rev with
          | [] =>
              bind (new_chunk_h sub_key key h e v) (fun r =>
              chunk_loop_h sub_key key pulse last (fst r) rest [snd r])
          | c :: older =>
              bind (rd_ts h e) (fun te => bind (rd_ts h last) (fun tl => bind (rd_dur h last) (fun dl =>
              let timediff := te - (tl + dl) in
              bind (ev_dict h c) (fun zc =>
              match zget key zc with
              | None => Err KeyError
              | Some vc =>
                  bind (val_eq h vc v) (fun same =>
                  if same && (timediff <? pulse) then
                    bind (rd_dur h c) (fun dc => bind (rd_dur h e) (fun de =>
                    bind (wr_dur h c (dc + de)) (fun h1 =>
                    bind (append_sub sub_key h1 c e) (fun h2 =>
                    chunk_loop_h sub_key key pulse last h2 rest (c :: older)))))
                  else
                    bind (new_chunk_h sub_key key h e v) (fun r =>
                    chunk_loop_h sub_key key pulse last (fst r) rest (snd r :: c :: older)))
              end))))
          end
      end)
  end.

Definition chunk_events_by_key_h (sub_key : Z) (h : heap) (L : loc) (key pulse : Z) : res (heap * loc) :=
  bind (list_elems h L) (fun ks =>
  match rev ks with
  | [] => Ok (new_list h [])
  | last :: _ =>
      bind (chunk_loop_h sub_key key pulse last h ks []) (fun r => Ok (new_list (fst r) (snd r)))
  end).

(* ------------------------------------------------------------------------- *)
(* Reading a heap back into the values Model/Group.v speaks about *)

Fixpoint gdict_at (h : heap) (z : zdict) : option Group.dict :=
  match z with
  | [] => Some []
  | (k, v) :: t =>
      match val_label h v, gdict_at h t with
      | Ok q, Some r => Some ((k, q) :: r)
      | _, _ => None
      end
  end.

Definition gev_at (h : heap) (l : loc) : option gev :=
  match lookup h l with
  | Some (Cell (TEv i t d) [dl]) =>
      match rd_dict h dl with
      | Ok z => match gdict_at h z with Some gd => Some (mkG i t d gd) | None => None end
      | _ => None
      end
  | _ => None
  end.

Definition gevs_at (h : heap) (ks : list loc) : option (list gev) := opt_list (map (gev_at h) ks).

Definition glist_at (h : heap) (L : loc) : option (list gev) :=
  match lookup h L with
  | Some (Cell (TNode _) ks) => gevs_at h ks
  | _ => None
  end.

(* the chunk record a chunk Event stands for: data = {key: cval, sub_key: [sub-events]} *)
Definition chunk_at (sub_key key : Z) (h : heap) (c : loc) : option chunk :=
  match lookup h c with
  | Some (Cell (TEv None t d) [dl]) =>
      match rd_dict h dl with
      | Ok [(k1, v); (k2, ZK s)] =>
          if (k1 =? key) && (k2 =? sub_key) then
            match val_label h v, glist_at h s with
            | Ok q, Some subs => Some (mkChunk t d q subs)
            | _, _ => None
            end
          else None
      | _ => None
      end
  | _ => None
  end.

Definition chunks_at (sub_key key : Z) (h : heap) (L : loc) : option (list chunk) :=
  match lookup h L with
  | Some (Cell (TNode _) ks) => opt_list (map (chunk_at sub_key key h) ks)
  | _ => None
  end.
