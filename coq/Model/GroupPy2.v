(* Python primitives that the regenerated kernels of coq/Gen/GenGroup2.v are written in
   (tie B for merge_events_by_keys and chunk_events_by_key).  Definitions only.  Each
   follows the Python semantics of the operation it is named after, not the model of
   Model/Group.v; Bridge/BridgeGroup2.v proves that the regenerated functions, written in
   these primitives, compute what the model computes.  Operations that can raise evaluate
   to `res`.  Where a primitive is defined outside the value domain of C16 (stated next to
   it) it answers `Err`, never a made-up value: an `Err` can only make a bridge lemma
   unprovable. *)
From AwVerif Require Import Base.Prelude Model.Group Model.GroupPy.

(* ------------------------------------------------------------------ data values *)

(* What `event.data[key]` evaluates to.  The model knows a value by its label (one label per
   Python-== class of the hashable-ised value, a list through its tuple form); the Python
   object is either that hashable value or a list.  Which labels stand for lists is a
   parameter `is_list` of the generated functions; the bridge lemmas hold for every choice. *)
Inductive pyval := VHash (z : Z) | VList (z : Z).

Definition pv_label (v : pyval) : Z := match v with VHash z => z | VList z => z end.

Definition py_getitem_v (is_list : Z -> bool) (d : dict) (k : Z) : res pyval :=
  bind (py_getitem d k) (fun z => Ok (if is_list z then VList z else VHash z)).

(* isinstance(v, list) *)
Definition py_isinstance_list (v : pyval) : bool := match v with VList _ => true | VHash _ => false end.

(* tuple(v): a list becomes the hashable value of the same label.  (tuple() of a non-list is
   outside what a label can express: Err.) *)
Definition py_tuple (v : pyval) : res pyval :=
  match v with VList z => Ok (VHash z) | VHash _ => Err TypeError end.

(* v == w for two data values: a list never equals a tuple/scalar *)
Definition pyval_eqb (a b : pyval) : bool :=
  match a, b with
  | VHash x, VHash y => x =? y
  | VList x, VList y => x =? y
  | _, _ => false
  end.

Definition pyval_hashable (v : pyval) : bool := negb (py_isinstance_list v).

(* ------------------------------------------------------------------ tuples used as dict keys *)

(* an element of the composite key tuple: the pair (key, val), or a bare val *)
Inductive kelem := KPair (k : Z) (v : pyval) | KVal (v : pyval).
Definition ckey := list kelem.

Definition kelem_eqb (a b : kelem) : bool :=
  match a, b with
  | KPair k v, KPair k' v' => (k =? k') && pyval_eqb v v'
  | KVal v, KVal v' => pyval_eqb v v'
  | _, _ => false
  end.

Fixpoint ckey_eqb2 (a b : ckey) : bool :=
  match a, b with
  | [], [] => true
  | x :: a', y :: b' => kelem_eqb x y && ckey_eqb2 a' b'
  | _, _ => false
  end.

(* hash(t) of a tuple raises TypeError when a component is a list *)
Definition kelem_hashable (a : kelem) : bool :=
  match a with KPair _ v => pyval_hashable v | KVal v => pyval_hashable v end.
Definition ckey_hashable (c : ckey) : bool := forallb kelem_hashable c.

(* ------------------------------------------------------------------ insertion-ordered dict *)

Section ODict.
  Context {K V : Type} (keqb : K -> K -> bool) (khash : K -> bool).

  Definition odict := list (K * V).

  Fixpoint od_find (k : K) (d : odict) : option V :=
    match d with
    | [] => None
    | (k', v) :: t => if keqb k' k then Some v else od_find k t
    end.

  (* the slot of an existing key keeps its position (and its key object); a new key goes last *)
  Fixpoint od_put (k : K) (v : V) (d : odict) : odict :=
    match d with
    | [] => [(k, v)]
    | (k', v') :: t => if keqb k' k then (k', v) :: t else (k', v') :: od_put k v t
    end.

  (* `k in d`, `d[k]`, `d[k] = v`: hashing comes first *)
  Definition od_contains (k : K) (d : odict) : res bool :=
    if khash k then Ok (match od_find k d with Some _ => true | None => false end) else Err TypeError.
  Definition od_getitem (k : K) (d : odict) : res V :=
    if khash k then match od_find k d with Some v => Ok v | None => Err KeyError end else Err TypeError.
  Definition od_setitem (k : K) (v : V) (d : odict) : res odict :=
    if khash k then Ok (od_put k v d) else Err TypeError.

  (* `for k in d` *)
  Definition od_keys (d : odict) : list K := map fst d.
End ODict.

(* ------------------------------------------------------------------ loops and lists *)

(* for x in l: <body>   -- the body maps the variables it assigns/mutates to their new values *)
Fixpoint py_for {A S} (l : list A) (s : S) (body : A -> S -> res S) : res S :=
  match l with
  | [] => Ok s
  | x :: t => bind (body x s) (fun s' => py_for t s' body)
  end.

(* the same when the body contains `break`: the body also says whether it broke *)
Fixpoint py_for_brk {A S} (l : list A) (s : S) (body : A -> S -> res (bool * S)) : res S :=
  match l with
  | [] => Ok s
  | x :: t => bind (body x s) (fun r => if fst r then Ok (snd r) else py_for_brk t (snd r) body)
  end.

Definition py_len {A} (l : list A) : Z := Z.of_nat (length l).

(* l[-1] *)
Definition py_last {A} (l : list A) : res A :=
  match rev l with [] => Err IndexError | x :: _ => Ok x end.

(* writing back the object that l[-1] refers to after it was mutated (the translator's
   rendering of mutation through the alias `x = l[-1]`) *)
Definition py_set_last {A} (l : list A) (x : A) : list A := removelast l ++ [x].

(* ------------------------------------------------------------------ Event objects with plain data *)

(* Event(timestamp=ts, duration=dur, data=d): id None, timestamp floored to the millisecond *)
Definition py_Event (t d : Z) (dat : dict) : gev := mkG None (floor_ms t) d dat.

(* Event( **e ): id, timestamp, duration, data of e go through the constructor again *)
Definition py_Event_splat (e : gev) : gev := mkG (gid e) (floor_ms (gts e)) (gdur e) (gdata e).

Definition gev_set_dur (e : gev) (d : Z) : gev := mkG (gid e) (gts e) d (gdata e).
Definition gev_set_data (e : gev) (dat : dict) : gev := mkG (gid e) (gts e) (gdur e) dat.

(* ------------------------------------------------------------------ chunk events *)

(* the data dict of a chunked event holds a data value under `key` and a list of events
   under "subevents" *)
Inductive cvalue := CV (z : Z) | CSub (l : list gev).
Definition cdict := list (Z * cvalue).

Record cev := mkCev { ce_id : option Z; ce_ts : Z; ce_dur : Z; ce_data : cdict }.

Fixpoint cd_lookup (k : Z) (d : cdict) : option cvalue :=
  match d with
  | [] => None
  | (k', v) :: t => if k' =? k then Some v else cd_lookup k t
  end.

Fixpoint cd_put (k : Z) (v : cvalue) (d : cdict) : cdict :=
  match d with
  | [] => [(k, v)]
  | (k', v') :: t => if k' =? k then (k', v) :: t else (k', v') :: cd_put k v t
  end.

Definition cd_getitem (d : cdict) (k : Z) : res cvalue :=
  match cd_lookup k d with Some v => Ok v | None => Err KeyError end.

Definition cv_of_val (v : pyval) : cvalue := CV (pv_label v).

(* d[k] == v with v a data value.  When d[k] is the sub-event list (only possible for
   key == "subevents", outside the domain of C16) Python compares a list of Events with v,
   which may raise from Event.__eq__: Err. *)
Definition py_eq_cv (a : cvalue) (b : pyval) : res bool :=
  match a with CV z => Ok (z =? pv_label b) | CSub _ => Err TypeError end.

(* d[k].append(e): defined for the sub-event list *)
Definition cv_append (a : cvalue) (e : gev) : res cvalue :=
  match a with CSub l => Ok (CSub (l ++ [e])) | CV _ => Err AttributeError end.

Definition py_Event_c (t d : Z) (dat : cdict) : cev := mkCev None (floor_ms t) d dat.
Definition cev_set_dur (e : cev) (d : Z) : cev := mkCev (ce_id e) (ce_ts e) d (ce_data e).
Definition cev_set_data (e : cev) (dat : cdict) : cev := mkCev (ce_id e) (ce_ts e) (ce_dur e) dat.
