(* Vocabulary of the source-level translation of aw_datastore/storages/memory.py
   (translate/k_memstore.py -> Gen/GenMemStore.v).  Definitions only.

   Unlike Model/MemStore.v (one association list  bucket id -> (metadata, events)) the
   translated code works on the TWO dicts the Python class holds, `self.db` and
   `self._metadata`; Bridge/BridgeMemStore.v proves that the translated methods, run on
   the two projections of a MemStore state, do what `mem_step` does (so the model's claim
   "both dicts always hold the same keys in the same order" is itself checked).

   What is fixed HERE is the meaning of the Python list / dict idioms the translator maps
   its input to (trusted, listed in notes/agents/TIEBS.md):
     d[k] (KeyError), k in d, d[k] = v, del d[k]   -> aget / ain / aset / adel   (StoreBase)
     l[i] = x, l.pop(i), l.append(x), l[:n], l[0], l[-1], max(...), len(l), sorted(l, key=),
     l[::-1], [x for x in l if c], reversed(list(enumerate(l))), `x or 0`, for loops. *)
From AwVerif Require Import Base.Prelude Model.StoreBase.

Record pymem := mkPyMem {
  py_db : list (Z * list event);      (* self.db        : bucket id -> list of events *)
  py_md : list (Z * meta) }.          (* self._metadata : bucket id -> metadata dict  *)

(* k in d *)
Definition ain {V} (k : Z) (d : list (Z * V)) : bool :=
  match aget k d with Some _ => true | None => false end.

(* [i for i, x in enumerate(l) if p x], counting from i *)
Fixpoint matching_from {A} (p : A -> bool) (i : nat) (l : list A) : list nat :=
  match l with
  | [] => []
  | x :: t => if p x then i :: matching_from p (S i) t else matching_from p (S i) t
  end.
(* (i for i, x in reversed(list(enumerate(l))) if p x): matching indices, last first.
   The snapshot list(enumerate(l)) is taken when the generator is created, so the test
   runs on the elements l had at that moment. *)
Definition rev_matching_idx {A} (p : A -> bool) (l : list A) : list nat := rev (matching_from p 0 l).
(* [x for i, x in reversed(list(enumerate(l))) if p x] *)
Definition rev_matching {A} (p : A -> bool) (l : list A) : list A := rev (filter p l).

(* l[i] = x   (i < len l wherever the translation uses it; otherwise l is unchanged) *)
Fixpoint list_set {A} (i : nat) (x : A) (l : list A) : list A :=
  match l, i with
  | [], _ => []
  | _ :: t, O => x :: t
  | y :: t, S i' => y :: list_set i' x t
  end.
(* l.pop(i) (the popped value is not used by the code) *)
Fixpoint list_pop {A} (i : nat) (l : list A) : list A :=
  match l, i with
  | [], _ => []
  | _ :: t, O => t
  | y :: t, S i' => y :: list_pop i' t
  end.

(* an int that may be sys.maxsize *)
Inductive pyint := PInt (z : Z) | PMaxsize.
(* l[:n].  A CPython list never holds more than sys.maxsize elements, so l[:sys.maxsize]
   is l; a negative n counts from the end. *)
Definition py_take {A} (n : pyint) (l : list A) : list A :=
  match n with
  | PMaxsize => l
  | PInt z => if z <? 0 then firstn (length l - Z.to_nat (- z)) l else firstn (Z.to_nat z) l
  end.

(* max(iterable): ValueError on an empty one *)
Definition py_max (l : list Z) : res Z :=
  match l with
  | [] => Err ValueError
  | x :: t => Ok (list_max x t)
  end.

(* int(x or 0) for x : None | int *)
Definition py_or0 (o : option Z) : Z :=
  match o with
  | Some i => if i =? 0 then 0 else i
  | None => 0
  end.

(* truthiness of a list *)
Definition list_truthy {A} (l : list A) : bool := match l with [] => false | _ => true end.

(* for x in xs: body.  g is the heap (what stays mutated when an exception escapes), l the
   loop-carried locals. *)
Fixpoint py_for {G L X} (body : G -> L -> X -> G * res L) (xs : list X) (g : G) (l : L) : G * res L :=
  match xs with
  | [] => (g, Ok l)
  | x :: t => match body g l x with
              | (g', Ok l') => py_for body t g' l'
              | (g', r) => (g', r)
              end
  end.
