(* The public layer above SqliteStorage as far as the commit bookkeeping is concerned:
   aw_datastore/datastore.py, classes Datastore and Bucket.  Definitions only.

   A program never calls the storage object; it calls `ds.create_bucket(..)`,
   `ds.update_bucket(..)`, `ds.delete_bucket(..)`, `ds.buckets()` and, for everything that
   concerns one bucket, `ds[b].<method>(..)`.  Every Bucket method of the code forwards to
   exactly one storage method:

     Bucket.insert(Event)        -> insert_one         Bucket.get(limit, st, en) -> get_events
     Bucket.insert([Event..])    -> insert_many        Bucket.get_by_id(id)      -> get_event
     Bucket.replace(id, e)       -> replace            Bucket.get_eventcount(..) -> get_eventcount
     Bucket.replace_last(e)      -> replace_last       Bucket.metadata()         -> get_metadata
     Bucket.delete(id)           -> delete

   and `ds[b]` (Datastore.__getitem__) lists the buckets (`self.buckets()`: one SELECT, no
   commit) unless a Bucket object for b is already in `bucket_instances`; when b is not in
   the listing it raises KeyError and nothing else happens.  `Datastore.create_bucket`
   calls the storage method and then returns `self[bucket_id]`. *)
From AwVerif Require Import Base.Prelude Model.Commit.

(* Datastore.__getitem__ *)
Definition lookup (cached : bool) : list micro := if cached then [] else [Read].

Inductive api :=
  (* ds.update_bucket / ds.delete_bucket / ds.buckets, and a ds.create_bucket that the
     engine rejects (duplicate id: the exception leaves before `self[bucket_id]`) *)
  | ViaDatastore (o : op)
  (* ds.create_bucket(b, ..): storage.create_bucket, then self[b] *)
  | DsCreateBucket (w : Z) (cached : bool)
  (* ds[b].<method>: the lookup, then the one storage method the Bucket method forwards to.
     [ViaBucket false Rejected] = ds[b] for a bucket that does not exist (KeyError after the
     listing); [ViaBucket c Rejected] = a Bucket method that raises before it reaches the
     storage (Bucket.insert adds timestamp + duration of every event: OverflowError). *)
  | ViaBucket (cached : bool) (o : op).

Definition api_expand (a : api) : list micro :=
  match a with
  | ViaDatastore o => expand o
  | DsCreateBucket w cached => expand (CreateBucket w) ++ lookup cached
  | ViaBucket cached o => lookup cached ++ expand o
  end.

Definition api_expand_all (h : list api) : list micro := flat_map api_expand h.

(* Wrappers the code does NOT have (sensitivity examples of Props/C18api.v): a Bucket.replace
   that looks the event up first (storage.get_event = commit + SELECT), one that replaces by
   delete + insert, and an insert that hands the list to the storage in two pieces. *)
Definition replace_after_lookup (cached : bool) (w : Z) : list micro :=
  lookup cached ++ expand GetEvent ++ expand (Replace w).
Definition replace_by_delete_insert (cached : bool) (w1 w2 : Z) : list micro :=
  lookup cached ++ expand (Delete w1) ++ expand (InsertOne w2).
Definition insert_in_two_pieces (cached : bool) (rows1 rows2 : list Z) : list micro :=
  lookup cached ++ expand (InsertMany [] rows1) ++ expand (InsertMany [] rows2).
