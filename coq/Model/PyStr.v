(* Python str operations used by aw_query/query2.py, over lists of code points.
   Definitions only.  A string is [list Z] (one Z per code point, the wire format ships
   strings that way).  Character classes are the ASCII ones: a code point >= 128 is an
   opaque character that is never a digit, a letter or white space (the harness keeps
   non-ASCII characters inside string literals only, where the scanners never classify
   them).  Operations that can raise in Python return [res]. *)
From AwVerif Require Import Base.Prelude.
From Coq Require String Ascii.
Open Scope Z_scope.

Definition str := list Z.

(* --- code points that query2.py mentions ------------------------------------- *)
Definition c_dq : Z := 34.  (* double quote *)
Definition c_sq : Z := 39.  (* single quote *)
Definition c_lpar : Z := 40.  (* left parenthesis *)
Definition c_rpar : Z := 41.  (* right parenthesis *)
Definition c_comma : Z := 44.  (* comma *)
Definition c_colon : Z := 58.  (* colon *)
Definition c_semi : Z := 59.  (* semicolon *)
Definition c_eq : Z := 61.  (* equals sign *)
Definition c_lbrk : Z := 91.  (* left square bracket *)
Definition c_bs : Z := 92.  (* backslash *)
Definition c_rbrk : Z := 93.  (* right square bracket *)
Definition c_us : Z := 95.  (* underscore *)
Definition c_lbrc : Z := 123.  (* left brace *)
Definition c_rbrc : Z := 125.  (* right brace *)

(* str.isdigit / str.isalpha / white space of str.strip(), ASCII range *)
Definition is_digit (c : Z) : bool := (48 <=? c) && (c <=? 57).
Definition is_alpha (c : Z) : bool :=
  ((65 <=? c) && (c <=? 90)) || ((97 <=? c) && (c <=? 122)).
(* \t \n \x0b \x0c \r, \x1c..\x1f, space : exactly the ASCII characters for which
   CPython's str.isspace() holds, i.e. what str.strip() removes *)
Definition is_space (c : Z) : bool :=
  ((9 <=? c) && (c <=? 13)) || ((28 <=? c) && (c <=? 32)).

(* --- slicing ------------------------------------------------------------------ *)
Definition drop (n : nat) (s : str) : str := skipn n s.          (* s[n:]  *)
Definition take (n : nat) (s : str) : str := firstn n s.         (* s[:n]  *)
(* s[a:b] for 0 <= a, 0 <= b *)
Definition slice (a b : nat) (s : str) : str := firstn (b - a) (skipn a s).
(* s[1:-1] ("" for strings shorter than 2) *)
Definition slice_1_m1 (s : str) : str := removelast (tl s).

(* s[0] *)
Definition first_char (s : str) : res Z :=
  match s with [] => Err IndexError | c :: _ => Ok c end.
(* s[-1] *)
Fixpoint last_char (s : str) : res Z :=
  match s with
  | [] => Err IndexError
  | [c] => Ok c
  | _ :: t => last_char t
  end.

Definition is_empty (s : str) : bool := match s with [] => true | _ => false end.

(* --- strip -------------------------------------------------------------------- *)
Fixpoint lstrip (s : str) : str :=
  match s with
  | [] => []
  | c :: t => if is_space c then lstrip t else s
  end.
Fixpoint rstrip (s : str) : str :=
  match s with
  | [] => []
  | c :: t =>
      match rstrip t with
      | [] => if is_space c then [] else [c]
      | r => c :: r
      end
  end.
Definition strip (s : str) : str := rstrip (lstrip s).

(* --- find (one-character needle): None is Python's -1 --------------------------- *)
Fixpoint find_char (c : Z) (s : str) : option nat :=
  match s with
  | [] => None
  | x :: t => if x =? c then Some O
              else match find_char c t with Some n => Some (S n) | None => None end
  end.

(* --- split on a one-character separator: s.split(";") ---------------------------
   first piece and the remaining pieces *)
Fixpoint split_on (c : Z) (s : str) : str * list str :=
  match s with
  | [] => ([], [])
  | x :: t =>
      let '(h, r) := split_on c t in
      if x =? c then ([], h :: r) else (x :: h, r)
  end.
Definition split (c : Z) (s : str) : list str := let '(h, r) := split_on c s in h :: r.

(* --- s.replace(old, new) for a two-character old = [a; b]: left to right, non
   overlapping (QString.parse calls replace("\\" + quotes_type, quotes_type), whose
   pattern always has two characters) *)
Fixpoint replace2 (a b : Z) (new : str) (s : str) : str :=
  match s with
  | [] => []
  | x :: t =>
      match t with
      | [] => [x]
      | y :: t' =>
          if (x =? a) && (y =? b) then new ++ replace2 a b new t'
          else x :: replace2 a b new t
      end
  end.

Fixpoint str_eqb (a b : str) : bool :=
  match a, b with
  | [], [] => true
  | x :: a', y :: b' => (x =? y) && str_eqb a' b'
  | _, _ => false
  end.

(* --- int(s) for the tokens QInteger.check produces --------------------------------
   ValueError on "" or on a non-digit; CPython >= 3.11 also raises ValueError when the
   text has more than sys.get_int_max_str_digits() digits (default 4300; 0 = no limit;
   leading zeros count). *)
Fixpoint digits_val (acc : Z) (s : str) : res Z :=
  match s with
  | [] => Ok acc
  | c :: t => if is_digit c then digits_val (10 * acc + (c - 48)) t else Err ValueError
  end.
Definition py_int (max_digits : nat) (s : str) : res Z :=
  match s with
  | [] => Err ValueError
  | _ => if negb (Nat.eqb max_digits 0) && Nat.ltb max_digits (length s)
         then Err ValueError else digits_val 0 s
  end.

(* --- Coq string literals as code-point lists (for examples and tables) ------------ *)
Definition zs (s : String.string) : str :=
  map (fun a => Z.of_N (Ascii.N_of_ascii a)) (String.list_ascii_of_string s).
