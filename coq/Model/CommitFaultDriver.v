(* Driver entry of the C18 check, round 5: the cases of Model/CommitApiDriver.v (0, 1, 5; same
   wire format, same functions) plus the engine-fault model of Model/CommitFault.v
     (6 lazy t0 ((fmicro clk eng) ...))  run from [finit [] t0]; answer: one
                                         (|committed| |pending| n last_commit last_ok raised)
                                         per step, then (committed) (pending) of the final state
     (7 op kind p)                       [fault_script op f], f = CommitFault p (kind 0) |
                                         StatementFault p (kind 1); (-1) when there is no such
                                         position in the script
   fmicro on the wire:  (0 micro) Step | (1) ExecRaises | (2 (done)) ExecManyRaises
   eng:                 (ok1 ok2 ok3), 1 = the COMMIT succeeds
   Definitions only. *)
From AwVerif Require Import Base.Prelude Base.Sexp Model.Commit Model.CommitDriver Model.CommitApi
  Model.CommitApiDriver Model.CommitFault.

Definition sFmicro (s : sexp) : option fmicro :=
  match s with
  | L [A 0; m] => match sMicro m with Some m => Some (Step m) | None => None end
  | L [A 1] => Some ExecRaises
  | L [A 2; ws] => match sZs ws with Some ws => Some (ExecManyRaises ws) | None => None end
  | _ => None
  end.

Definition fmicro_s (m : fmicro) : sexp :=
  match m with
  | Step m => L [A 0; micro_s m]
  | ExecRaises => L [A 1]
  | ExecManyRaises ws => L [A 2; L (map A ws)]
  end.

Definition sEng (s : sexp) : option eng :=
  match s with
  | L [a; b; c] =>
      match sBool a, sBool b, sBool c with
      | Some a, Some b, Some c => Some (mkEng a b c)
      | _, _, _ => None
      end
  | _ => None
  end.

Definition sFin (s : sexp) : option fin :=
  match s with
  | L [m; c; e] =>
      match sFmicro m, sClk c, sEng e with
      | Some m, Some c, Some e => Some (mkIn m c e)
      | _, _, _ => None
      end
  | _ => None
  end.

Definition fstate_summary (r : fstate * bool) : sexp :=
  let s := cs (fst r) in
  L [A (Z.of_nat (length (committed s))); A (Z.of_nat (length (pending s)));
     A (n_unc s); A (last_commit s); A (last_ok (fst r)); bool_s (snd r)].

(* states after each step (with the step's raised flag), in order *)
Fixpoint frun_states (lazy : bool) (fs : fstate) (tr : list fin) : list (fstate * bool) * fstate :=
  match tr with
  | [] => ([], fs)
  | x :: rest =>
      let r := fmicro_step lazy fs x in
      let '(l, fin_) := frun_states lazy (fst r) rest in
      (r :: l, fin_)
  end.

Definition sFaultAt (k p : Z) : option fault_at :=
  if p <? 0 then None
  else match k with
       | 0 => Some (CommitFault (Z.to_nat p))
       | 1 => Some (StatementFault (Z.to_nat p))
       | _ => None
       end.

(* cases 0, 1, 5 are the text of CommitApiDriver.driver_entry (calling it would extract two
   functions of that name and ocaml/main.ml links the first) *)
Definition driver_entry (s : sexp) : sexp :=
  match s with
  | L [A 0; lz; A t0; tr] =>
      match sBool lz, sList sTimed tr with
      | Some lz, Some tr =>
          let '(states, fin_) := run_states lz (init [] t0) tr in
          L [L (map state_summary states); L (map A (committed fin_)); L (map A (pending fin_))]
      | _, _ => bad_case
      end
  | L [A 1; o] =>
      match sOp o with Some o => L (map micro_s (expand o)) | None => bad_case end
  | L [A 5; a] =>
      match sApi a with Some a => L (map micro_s (api_expand a)) | None => bad_case end
  | L [A 6; lz; A t0; tr] =>
      match sBool lz, sList sFin tr with
      | Some lz, Some tr =>
          let '(states, fin_) := frun_states lz (finit [] t0) tr in
          L [L (map fstate_summary states); L (map A (committed (cs fin_))); L (map A (pending (cs fin_)))]
      | _, _ => bad_case
      end
  | L [A 7; o; A k; A p] =>
      match sOp o, sFaultAt k p with
      | Some o, Some f =>
          match fault_script o f with
          | Some ms => L (map fmicro_s ms)
          | None => L [A (-1)]
          end
      | _, _ => bad_case
      end
  | _ => bad_case
  end.
