(* Vocabulary for tie B of _merge (aw_core/config.py): the Python operations that occur in
   the body of `for key in b:` as functions of av = a.get(key) (None when key not in a) and
   bv = b[key].  Definitions only; used by the generated coq/Gen/GenConfig.v. *)
From AwVerif Require Import Base.Prelude Model.Config.

(* a[key] *)
Definition getitem (av : option toml) : res toml :=
  match av with Some v => Ok v | None => Err KeyError end.

(* key in a *)
Definition in_dict (av : option toml) : bool :=
  match av with Some _ => true | None => false end.

(* isinstance(v, dict) *)
Definition is_dict (v : toml) : bool :=
  match v with Tab _ => true | _ => false end.

(* c1 and c2 / c1 or c2 on conditions that may raise *)
Definition and_then (c1 c2 : res bool) : res bool := bind c1 (fun x => if x then c2 else Ok false).
Definition or_else (c1 c2 : res bool) : res bool := bind c1 (fun x => if x then Ok true else c2).
Definition not_ (c : res bool) : res bool := bind c (fun x => Ok (negb x)).

(* The statement `_merge(a[key], y, ...)`: a[key] is merged in place, so afterwards a[key] is
   the merged table.  With a non-dict on either side Python raises TypeError (iterating or
   item-assigning a non-mapping), except that an empty y means no iteration at all. *)
Definition call_merge (rec : table -> table -> table) (x y : toml) : res (option toml) :=
  match y with
  | Tab [] => Ok (Some x)
  | Tab tb => match x with Tab ta => Ok (Some (Tab (rec ta tb))) | _ => Err TypeError end
  | _ => Err TypeError
  end.
