(* Model of the third-party module site-packages/timeslot/timeslot.py (class Timeslot),
   which aw_transform/filter_period_intersect.py relies on.  It is modelled, not trusted:
   every method used by aw-core is a definition here, tied to the installed source by
   correspondence (harness/c09.py, streams "timeslot-*") and by tie B
   (translate/k_timeslot.py -> Gen/GenTimeslot.v, Bridge/BridgeTimeslot.v).

   start/end are Z microseconds.  The constructor does not validate (the check that
   start <= end is commented out in the source), so a slot may have negative duration.
   Definitions only. *)
From AwVerif Require Import Base.Prelude.

Record timeslot := mkSlot { tstart : Z; tend : Z }.

(* @property duration: self.end - self.start *)
Definition slot_duration (p : timeslot) : Z := tend p - tstart p.

(* contains(other) for other : Timeslot -- self.start <= other.start and other.end <= self.end *)
Definition slot_contains (self other : timeslot) : bool :=
  (tstart self <=? tstart other) && (tend other <=? tend self).

(* overlaps: self.start <= other.start < self.end or self.start < other.end <= self.end
             or self in other          (`self in other` is other.__contains__(self)) *)
Definition slot_overlaps (self other : timeslot) : bool :=
  ((tstart self <=? tstart other) && (tstart other <? tend self))
  || ((tstart self <? tend other) && (tend other <=? tend self))
  || slot_contains other self.

(* intersection: four tests in source order; None when none fires.  The returned object is
   `other` / `self` itself in the containment branches (a value here). *)
Definition slot_intersection (self other : timeslot) : option timeslot :=
  if slot_contains self other then Some other
  else if (tstart self <=? tstart other) && (tstart other <? tend self)
       then Some (mkSlot (tstart other) (tend self))
  else if (tstart self <? tend other) && (tend other <=? tend self)
       then Some (mkSlot (tstart self) (tend other))
  else if slot_contains other self then Some self
  else None.

(* adjacent: self.start == other.end or self.end == other.start *)
Definition slot_adjacent (self other : timeslot) : bool :=
  (tstart self =? tend other) || (tend self =? tstart other).

(* gap: the separating slot if the two are separated by a non-zero gap, else None *)
Definition slot_gap (self other : timeslot) : option timeslot :=
  if tend self <? tstart other then Some (mkSlot (tend self) (tstart other))
  else if tend other <? tstart self then Some (mkSlot (tend other) (tstart self))
  else None.

(* union: `if not self.gap(other)` -- a Timeslot object is always truthy (the class defines
   neither __bool__ nor __len__), so the test is `gap(...) is None`; otherwise a bare
   Exception is raised. *)
Definition slot_union (self other : timeslot) : res timeslot :=
  match slot_gap self other with
  | None => Ok (mkSlot (Z.min (tstart self) (tstart other)) (Z.max (tend self) (tend other)))
  | Some _ => Err OtherError
  end.
