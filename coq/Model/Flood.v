(* Model of aw_transform/flood.py (definitions only).

   flood(events, pulsetime):
     events = deepcopy(events); events = sorted(events, key=timestamp)      -> sort_by ts
     for e1, e2 in zip(events[:-1], events[1:]): <body mutating e1, e2>     -> flood_walk
     return [e for e in events if e.duration > timedelta(0)]               -> filter

   The pulsetime is already integer microseconds (what timedelta(seconds=pulsetime)
   yields; the harness converts with Python).  The loop walks *shared mutable objects*:
   the e2 of one iteration is the e1 of the next, so the walk carries the possibly
   modified left neighbour and emits it when the next pair starts.  An assignment to
   .timestamp goes through the Event setter, which floors to the millisecond;
   assignments to .duration store the timedelta unchanged.  The two warned_* flags are
   part of the loop state: warned_about_negative_gap_safe only guards a log line,
   warned_about_negative_gap_unsafe takes part in the elif chain. *)
From AwVerif Require Import Base.Prelude.

Definition floor_ms (t : Z) : Z := 1000 * (t / 1000).

(* e.timestamp = t  (Event.timestamp setter -> _timestamp_parse) *)
Definition assign_ts (e : event) (t : Z) : event := set_ts e (floor_ms t).

(* negative_gap_trim_thres = timedelta(seconds=0.1) *)
Definition negative_gap_trim_thres : Z := 100000.

(* One iteration of the loop body: (e1, e2, warned_safe, warned_unsafe) before ->
   the same four after. *)
Definition flood_step (pulsetime : Z) (ws wu : bool) (e1 e2 : event)
  : (event * event) * (bool * bool) :=
  let gap := ts e2 - (ts e1 + dur e1) in
  if gap =? 0 then ((e1, e2), (ws, wu))                                   (* if not gap: continue *)
  else if (gap <? 0) && (data e1 =? data e2) then
    (* tuple assignments: both right-hand sides are evaluated before the setters run *)
    let start := Z.min (ts e1) (ts e2) in
    let end_ := Z.max (ts e1 + dur e1) (ts e2 + dur e2) in
    ((set_dur (assign_ts e1 start) (end_ - start), set_dur (assign_ts e2 end_) 0), (true, wu))
  else if (gap <? - negative_gap_trim_thres) && negb wu then
    ((e1, e2), (ws, true))                                                (* warns only *)
  else if (- negative_gap_trim_thres <? gap) && (gap <=? pulsetime) then
    let e2_end := ts e2 + dur e2 in
    if dur e1 >=? dur e2 then
      if data e1 =? data e2 then
        (* e1.duration = e2_end - e1.timestamp; e2.timestamp = e2_end; e2.duration = 0 *)
        ((set_dur e1 (e2_end - ts e1), set_dur (assign_ts e2 e2_end) 0), (ws, wu))
      else
        (* e1.duration = e2.timestamp - e1.timestamp *)
        ((set_dur e1 (ts e2 - ts e1), e2), (ws, wu))
    else
      if data e1 =? data e2 then
        (* e2.timestamp = e1.timestamp; e2.duration = e2_end - e2.timestamp; e1.duration = 0 *)
        let e2' := assign_ts e2 (ts e1) in
        ((set_dur e1 0, set_dur e2' (e2_end - ts e2')), (ws, wu))
      else
        (* e2.timestamp = e1.timestamp + e1.duration; e2.duration = e2_end - e2.timestamp *)
        let e2' := assign_ts e2 (ts e1 + dur e1) in
        ((e1, set_dur e2' (e2_end - ts e2')), (ws, wu))
  else ((e1, e2), (ws, wu)).

(* zip(events[:-1], events[1:]) over shared objects: [cur] is events[i] as left by the
   previous iteration, [rest] = events[i+1:] still untouched.  Returns the final list. *)
Fixpoint flood_walk (pulsetime : Z) (ws wu : bool) (cur : event) (rest : list event) : list event :=
  match rest with
  | [] => [cur]
  | nxt :: rest' =>
      let '((cur', nxt'), (ws', wu')) := flood_step pulsetime ws wu cur nxt in
      cur' :: flood_walk pulsetime ws' wu' nxt' rest'
  end.

Definition positive_duration (e : event) : bool := dur e >? 0.

Definition flood (events : list event) (pulsetime : Z) : list event :=
  match sort_by ts events with
  | [] => []
  | first :: rest => filter positive_duration (flood_walk pulsetime false false first rest)
  end.

(* Evidence only (which branch of the body an iteration takes; the driver reports it so
   that the harness can say which branches of the model its cases reached).  Not used
   by any theorem.  0 continue, 1 negative-gap merge, 2 warn-only, 3..6 the four fill
   branches in source order, 7 none. *)
Definition step_branch (pulsetime : Z) (wu : bool) (e1 e2 : event) : Z :=
  let gap := ts e2 - (ts e1 + dur e1) in
  if gap =? 0 then 0
  else if (gap <? 0) && (data e1 =? data e2) then 1
  else if (gap <? - negative_gap_trim_thres) && negb wu then 2
  else if (- negative_gap_trim_thres <? gap) && (gap <=? pulsetime) then
    if dur e1 >=? dur e2 then (if data e1 =? data e2 then 3 else 4)
    else (if data e1 =? data e2 then 5 else 6)
  else 7.

Fixpoint walk_branches (pulsetime : Z) (ws wu : bool) (cur : event) (rest : list event) : list Z :=
  match rest with
  | [] => []
  | nxt :: rest' =>
      let '((_, nxt'), (ws', wu')) := flood_step pulsetime ws wu cur nxt in
      step_branch pulsetime wu cur nxt :: walk_branches pulsetime ws' wu' nxt' rest'
  end.

Definition flood_branches (events : list event) (pulsetime : Z) : list Z :=
  match sort_by ts events with
  | [] => []
  | first :: rest => walk_branches pulsetime false false first rest
  end.
