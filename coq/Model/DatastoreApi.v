(* The public-API call a client issues for each storage operation: the histories of C02 / C04
   are run a second time THROUGH aw_datastore.Datastore / Bucket (Model/Datastore.v) instead of
   on the storage object.  `api_call o` is the Datastore / Bucket call that stands for the
   storage operation `o`:

     create_bucket / update_bucket / delete_bucket / buckets  ->  the Datastore method
     every per-bucket operation                                ->  the method of a Bucket object
                                                                   whose bucket_id is the addressed bucket
       insert_one  b e   ->  Bucket.insert(e)          (an Event)
       insert_many b es  ->  Bucket.insert([e, ...])   (a list, whatever its length: 0, 1, 2, ...)
       get_events        ->  Bucket.get (rounds the window outwards to milliseconds)

   A Bucket object holds nothing but its bucket_id, the serial number of the handle is not
   observable by `ds_step` (only by `ds[b]`), so the handle is built with serial 0.
   Definitions only. *)
From AwVerif Require Import Base.Prelude Model.StoreBase Model.Datastore.

Definition api_handle (b : Z) : handle := mkHandle 0 b.

Definition api_call (o : op) : dsop :=
  match o with
  | CreateBucket b m => DsCreate b m
  | UpdateBucket b ty cl ho na da => DsUpdate b ty cl ho na da
  | DeleteBucket b => DsDelete b
  | Buckets => DsBuckets
  | GetMetadata b => DsVia (api_handle b) HMetadata
  | InsertOne b e => DsVia (api_handle b) (HInsert e)
  | InsertMany b es => DsVia (api_handle b) (HInsertMany es)
  | Replace b i e => DsVia (api_handle b) (HReplace i e)
  | ReplaceLast b e => DsVia (api_handle b) (HReplaceLast e)
  | Delete b i => DsVia (api_handle b) (HDelete i)
  | GetEvent b i => DsVia (api_handle b) (HGetById i)
  | GetEvents b limit st en => DsVia (api_handle b) (HGet limit st en)
  | GetEventCount b st en => DsVia (api_handle b) (HCount st en)
  end.

(* what the caller of the API call gets, as a storage-level `out`: create_bucket hands back a
   Bucket object where the storage method returns None *)
Definition api_out (r : dsout) : out :=
  match r with
  | DOut o => o
  | DHandle _ => ONone
  end.

Section Api.
  Context {S : Type} (step : S -> op -> S * res out).

  Definition api_step (d : dstate S) (o : op) : dstate S * res dsout := ds_step step d (api_call o).

  Definition api_run (d : dstate S) (h : list op) : dstate S :=
    fold_left (fun d o => fst (api_step d o)) h d.
End Api.
