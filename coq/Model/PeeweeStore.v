(* Executable model of aw_datastore/storages/peewee.py (PeeweeStorage), every method of
   the AbstractStorage interface, as the code is now: insert_one of an event carrying an
   id and the bulk upsert both go through the bucket-scoped replace.  Definitions only.

   Tables `bucketmodel` (key INTEGER PRIMARY KEY, id UNIQUE, ...) and `eventmodel`
   (id INTEGER PRIMARY KEY, bucket_id, timestamp, duration, datastr) are lists of rows in
   rowid order.  Neither key is AUTOINCREMENT: a new rowid is max(rowid)+1 (1 for an
   empty table), so the id of a deleted newest row IS issued again.  `bucket_keys` is the
   Python-side cache {bucket id -> key}, refreshed exactly where the code calls
   update_bucket_keys() (constructor, create_bucket, delete_bucket).
   Model.save() with the primary key set is `UPDATE ... SET <all fields> WHERE pk = ?`,
   without it an INSERT.  peewee autocommits; nothing to model here for C06.

   External (SQLite engine) behaviour taken as observed and checked by the
   correspondence run: `ORDER BY timestamp DESC` returns rows of equal timestamp in
   ascending rowid order (the sort of the table scan is stable). *)
From AwVerif Require Import Base.Prelude Model.StoreBase.

Record pbrow := mkPbrow { pb_key : Z; pb_id : Z; pb_meta : meta }.
Record perow := mkPerow { pe_id : Z; pe_bucket : Z; pe_ts : Z; pe_dur : Z; pe_data : Z }.

Record pwstate := mkPw {
  pw_buckets : list pbrow;
  pw_events : list perow;
  pw_keys : list (Z * Z) }.       (* self.bucket_keys *)

Definition pw_init : pwstate := mkPw [] [] [].

Definition prow_event (r : perow) : event :=
  mkEvent (Some (pe_id r)) (pe_ts r) (pe_dur r) (pe_data r).

(* observation through the tables (not through the cache) *)
Definition pw_view (c : pwstate) (b : Z) : option (meta * list event) :=
  match find (fun r => pb_id r =? b) (pw_buckets c) with
  | Some r => Some (pb_meta r,
                    map prow_event (filter (fun e => pe_bucket e =? pb_key r) (pw_events c)))
  | None => None
  end.

(* rowid of an INSERT into a table without AUTOINCREMENT *)
Definition new_rowid (ids : list Z) : Z :=
  match ids with
  | [] => 1
  | x :: t => list_max x t + 1
  end.

(* update_bucket_keys(): {bucket.id: bucket.key for bucket in BucketModel.select()}
   (ids are UNIQUE in the table, so the dict comprehension never overwrites) *)
Definition refresh_keys (c : pwstate) : pwstate :=
  mkPw (pw_buckets c) (pw_events c) (map (fun r => (pb_id r, pb_key r)) (pw_buckets c)).

Definition pw_with_events (c : pwstate) (es : list perow) : pwstate :=
  mkPw (pw_buckets c) es (pw_keys c).
Definition pw_with_buckets (c : pwstate) (bs : list pbrow) : pwstate :=
  mkPw bs (pw_events c) (pw_keys c).

(* BucketModel.create(...): INSERT; id is UNIQUE *)
Definition pw_insert_bucket (c : pwstate) (b : Z) (m : meta) : res pwstate :=
  if existsb (fun r => pb_id r =? b) (pw_buckets c) then Err IntegrityError
  else Ok (pw_with_buckets c
             (pw_buckets c ++ [mkPbrow (new_rowid (map pb_key (pw_buckets c))) b m])).

(* BucketModel.get(BucketModel.key == k) *)
Definition pw_get_bucket (c : pwstate) (k : Z) : option pbrow :=
  find (fun r => pb_key r =? k) (pw_buckets c).

(* bucket.save() with key set: UPDATE bucketmodel SET id=?, created=?, ... WHERE key = ? *)
Definition pw_save_bucket (c : pwstate) (row : pbrow) : pwstate :=
  pw_with_buckets c
    (update_where (fun r => pb_key r =? pb_key row)
                  (fun r => mkPbrow (pb_key r) (pb_id row) (pb_meta row)) (pw_buckets c)).

(* EventModel.delete().where(EventModel.bucket == k) *)
Definition pw_delete_events_of (c : pwstate) (k : Z) : pwstate :=
  pw_with_events c (delete_where (fun e => pe_bucket e =? k) (pw_events c)).
(* BucketModel.delete().where(BucketModel.key == k) *)
Definition pw_delete_bucket_row (c : pwstate) (k : Z) : pwstate :=
  pw_with_buckets c (delete_where (fun r => pb_key r =? k) (pw_buckets c)).

(* e.save() without id / EventModel.insert_many row: INSERT with a fresh rowid *)
Definition pw_insert_event (c : pwstate) (k : Z) (e : event) : pwstate * Z :=
  let i := new_rowid (map pe_id (pw_events c)) in
  (pw_with_events c (pw_events c ++ [mkPerow i k (ts e) (dur e) (data e)]), i).

(* e.save() with id set: UPDATE eventmodel SET bucket_id=?, timestamp=?, duration=?, datastr=?
   WHERE id = ? *)
Definition pw_save_event (c : pwstate) (row : perow) : pwstate :=
  pw_with_events c
    (update_where (fun r => pe_id r =? pe_id row)
                  (fun r => mkPerow (pe_id r) (pe_bucket row) (pe_ts row) (pe_dur row) (pe_data row))
                  (pw_events c)).

(* _get_event: SELECT ... WHERE id = ? AND bucket_id = ? .get()  (None on DoesNotExist) *)
Definition pw_select_event (c : pwstate) (k i : Z) : option perow :=
  find (fun r => (pe_id r =? i) && (pe_bucket r =? k)) (pw_events c).

(* ORDER BY timestamp DESC : stable w.r.t. rowid order *)
Definition pw_order_ts_desc (rows : list perow) : list perow := sort_by (fun r => - pe_ts r) rows.

(* _get_last: WHERE bucket_id = ? ORDER BY timestamp DESC .get() *)
Definition pw_select_last (c : pwstate) (k : Z) : option perow :=
  match pw_order_ts_desc (select_where (fun r => pe_bucket r =? k) (pw_events c)) with
  | r :: _ => Some r
  | [] => None
  end.

(* DELETE FROM eventmodel WHERE id = ? AND bucket_id = ?  -> rowcount *)
Definition pw_delete_event (c : pwstate) (k i : Z) : pwstate * Z :=
  let p := fun r => (pe_id r =? i) && (pe_bucket r =? k) in
  (pw_with_events c (delete_where p (pw_events c)), rowcount p (pw_events c)).

(* _where_range, named so that C03 can refine the edge arithmetic (julianday/strftime
   text comparison is taken as exact here) *)
Definition DAY_US : Z := 24 * 3600 * 1000000.
Definition pw_prefilter (ws : Z) (r : perow) : bool := ws - DAY_US <=? pe_ts r.
Definition pw_window_start (ws : Z) (r : perow) : bool := ws <=? pe_ts r + pe_dur r.
Definition pw_window_end (we : Z) (r : perow) : bool := pe_ts r <=? we.
Definition pw_in_range (st en : option Z) (r : perow) : bool :=
  (match st with Some ws => pw_prefilter ws r && pw_window_start ws r | None => true end) &&
  (match en with Some we => pw_window_end we r | None => true end).

(* the trimming loop of get_events; `e.timestamp = starttime` floors to the millisecond;
   the start-clipped duration is clamped at zero (fc100f3) *)
Definition pw_clip (st en : option Z) (e : event) : event :=
  let e1 := match st with
            | Some ws => if ts e <? ws
                         then let e_end := ts e + dur e in
                              let t' := floor_ms ws in
                              set_dur (set_ts e t') (Z.max 0 (e_end - t'))
                         else e
            | None => e
            end in
  match en with
  | Some we => if we <? ts e1 + dur e1 then set_dur e1 (we - ts e1) else e1
  | None => e1
  end.

(* self.bucket_keys[bucket_id] *)
Definition pw_key (c : pwstate) (b : Z) : option Z := aget b (pw_keys c).

(* replace(bucket_id, event_id, event) -> event with id *)
Definition pw_replace (c : pwstate) (b i : Z) (e : event) : pwstate * res out :=
  match pw_key c b with
  | None => (c, Err KeyError)
  | Some k =>
      match pw_select_event c k i with
      | None => (c, Err AttributeError)           (* None.timestamp = ... *)
      | Some r =>
          (pw_save_event c (mkPerow (pe_id r) (pe_bucket r) (ts e) (dur e) (data e)),
           Ok (OEvent (Some (set_eid e (Some (pe_id r))))))
      end
  end.

(* for e in events_updates: self.replace(bucket_id, e.id, e) *)
Fixpoint pw_upserts (c : pwstate) (b : Z) (es : list event) : pwstate * res out :=
  match es with
  | [] => (c, Ok ONone)
  | e :: t =>
      match eid e with
      | Some i => match pw_replace c b i e with
                  | (c', Ok _) => pw_upserts c' b t
                  | (c', r) => (c', r)
                  end
      | None => pw_upserts c b t
      end
  end.

Definition pw_insert_rows (c : pwstate) (k : Z) (es : list event) : pwstate :=
  fold_left (fun c e => fst (pw_insert_event c k e)) es c.

Definition pno_id (e : event) : bool := match eid e with None => true | Some _ => false end.

Definition pw_step (c : pwstate) (o : op) : pwstate * res out :=
  match o with
  | CreateBucket b m =>
      match pw_insert_bucket c b m with
      | Ok c' => (refresh_keys c', Ok ONone)
      | Err k => (c, Err k)
      | OutOfFuel => (c, OutOfFuel)
      end
  | UpdateBucket b ty cl ho na da =>
      match pw_key c b with
      | Some k =>
          match pw_get_bucket c k with
          | Some r =>
              (pw_save_bucket c (mkPbrow (pb_key r) (pb_id r)
                                   (update_meta not_none ty cl ho na da (pb_meta r))),
               Ok ONone)
          | None => (c, Err OtherError)           (* DoesNotExist: unreachable under Inv *)
          end
      | None => (c, Err ValueError)
      end
  | DeleteBucket b =>
      match pw_key c b with
      | Some k => (refresh_keys (pw_delete_bucket_row (pw_delete_events_of c k) k), Ok ONone)
      | None => (c, Err ValueError)
      end
  | Buckets => (c, Ok (OBuckets (map (fun r => (pb_id r, pb_meta r)) (pw_buckets c))))
  | GetMetadata b =>
      match pw_key c b with
      | Some k =>
          match pw_get_bucket c k with
          | Some r => (c, Ok (OMeta (pb_id r) (pb_meta r)))
          | None => (c, Err OtherError)
          end
      | None => (c, Err ValueError)
      end
  | InsertOne b e =>
      match eid e with
      | Some i => pw_replace c b i e
      | None =>
          match pw_key c b with
          | Some k => let '(c', i) := pw_insert_event c k e in
                      (c', Ok (OEvent (Some (set_eid e (Some i)))))
          | None => (c, Err KeyError)
          end
      end
  | InsertMany b es =>
      match pw_upserts c b es with
      | (c1, Ok _) =>
          match filter pno_id es with
          | [] => (c1, Ok ONone)
          | news =>
              match pw_key c1 b with
              | Some k =>
                  (* for chunk in chunks(events_dictlist, 100): insert_many(chunk).execute() *)
                  (fold_left (fun c chunk => pw_insert_rows c k chunk) (chunks 100 news) c1, Ok ONone)
              | None => (c1, Err KeyError)
              end
          end
      | (c1, r) => (c1, r)
      end
  | Replace b i e => pw_replace c b i e
  | ReplaceLast b e =>
      match pw_key c b with
      | Some k =>
          match pw_select_last c k with
          | Some r =>
              (pw_save_event c (mkPerow (pe_id r) (pe_bucket r) (ts e) (dur e) (data e)),
               Ok (OEvent (Some (set_eid e (Some (pe_id r))))))
          | None => (c, Err OtherError)           (* EventModelDoesNotExist *)
          end
      | None => (c, Err KeyError)
      end
  | Delete b i =>
      match pw_key c b with
      | Some k => let '(c', n) := pw_delete_event c k i in (c', Ok (OBool (0 <? n)))
      | None => (c, Err KeyError)
      end
  | GetEvent b i =>
      match pw_key c b with
      | Some k => (c, Ok (OEvent (option_map prow_event (pw_select_event c k i))))
      | None => (c, Err KeyError)
      end
  | GetEvents b limit st en =>
      if limit =? 0 then (c, Ok (OEvents []))
      else
        match pw_key c b with
        | Some k =>
            let rows := select_where (fun r => (pe_bucket r =? k) && pw_in_range st en r) (pw_events c) in
            (c, Ok (OEvents (map (fun r => pw_clip st en (prow_event r))
                                 (sql_limit limit (pw_order_ts_desc rows)))))
        | None => (c, Err KeyError)
        end
  | GetEventCount b st en =>
      match pw_key c b with
      | Some k => (c, Ok (OCount (rowcount (fun r => (pe_bucket r =? k) && pw_in_range st en r) (pw_events c))))
      | None => (c, Err KeyError)
      end
  end.

Definition pw_run (c : pwstate) (h : list op) : pwstate := fold_left (fun c o => fst (pw_step c o)) h c.
