(* The JSON form of an Event (aw_core/models.py: to_json_dict / to_json_str) as a JSON value of
   Model/Json.v.  Event.__init__ assigns id, timestamp, duration, data in that order, so the
   underlying dict (and its copy in to_json_dict) has these four keys in this order;
   to_json_dict replaces the timestamp by its isoformat text and the duration by total_seconds().
   The timestamp text is the [list ascii] of Model/EventModel.v (j_ts); the duration is the token
   floatstr writes for the float total_seconds() returned (Model/Json.v's convention for floats). *)
From AwVerif Require Import Base.Prelude Model.Json.
From Coq Require Import Ascii.
Open Scope Z_scope.

Definition ascii_cps (l : list ascii) : list Z := map (fun a => Z.of_N (N_of_ascii a)) l.

Definition k_id : list Z := [105; 100].
Definition k_timestamp : list Z := [116; 105; 109; 101; 115; 116; 97; 109; 112].
Definition k_duration : list Z := [100; 117; 114; 97; 116; 105; 111; 110].
Definition k_data : list Z := [100; 97; 116; 97].

Definition id_json (i : option Z) : jvalue := match i with None => JNull | Some n => JInt n end.

Definition event_json_form (i : option Z) (ts_text : list ascii) (dur_tok : list Z) (data : jvalue) : jvalue :=
  JDict [(k_id, id_json i); (k_timestamp, JStr (ascii_cps ts_text)); (k_duration, JFloat dur_tok); (k_data, data)].
