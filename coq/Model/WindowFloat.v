(* C03 -- the float-carrying parts of the window path, on Model/PyFloat.v (binary64 =
   Coq primitive floats).  Definitions only; never extracted: the harness evaluates them
   inside Coq (harness/floatcases.py).

   1. Bucket.get's rounding written with the float expressions the code uses
      (PyFloat.bucket_start_us / bucket_end_parts) on a reading (utc, off), and as the code
      applies them: on the UTC reading of the edge (bucket_round_*_f); Proofs/WindowFloat.v
      proves them equal to the integer arithmetic of Model/Window.v.
   2. sqlite.py's window parameters `t.timestamp() * 1000000` as the integers SQLite's
      exact INTEGER-vs-REAL comparison makes of them: ceiling for `endtime >= ?`, floor
      for `starttime <= ?`. *)
From Coq Require Import ZArith Bool List PrimFloat SpecFloat FloatOps.
From AwVerif Require Import Base.Prelude Model.PyFloat Model.PyFloatWire Model.Window.
Open Scope Z_scope.

(* starttime.replace(microsecond=1000 * int(starttime.microsecond / 1000)) *)
Definition round_start_f (utc off : Z) : res Z :=
  bind (bucket_start_us (us_field utc off)) (fun m => Ok (replace_us utc off m)).

(* endtime.replace(microsecond=microseconds) + timedelta(seconds=second_offset) *)
Definition round_end_f (utc off : Z) : res Z :=
  bind (bucket_end_parts (us_field utc off)) (fun p =>
    Ok (replace_us utc off (snd p) + fst p * 1000000)).

(* Bucket.get on an aware edge (utc, off), since 49e3288: converted to UTC first
   (Window.astimezone_utc), then the float expressions above on the fields of that reading *)
Definition bucket_round_start_f (utc off : Z) : res Z :=
  let d := astimezone_utc utc off in round_start_f (fst d) (snd d).
Definition bucket_round_end_f (utc off : Z) : res Z :=
  let d := astimezone_utc utc off in round_end_f (fst d) (snd d).

(* floor and ceiling of a finite binary64 as exact integers *)
Definition float_floor (f : float) : res Z :=
  match Prim2SF f with
  | S754_zero _ => Ok 0
  | S754_finite s m e =>
      let n := if s then Zneg m else Zpos m in
      Ok (if 0 <=? e then Z.shiftl n e else Z.shiftr n (- e))          (* shiftr floors *)
  | S754_nan => Err ValueError
  | S754_infinity _ => Err OtherError
  end.
Definition float_ceil (f : float) : res Z :=
  match Prim2SF f with
  | S754_zero _ => Ok 0
  | S754_finite s m e =>
      let n := if s then Zpos m else Zneg m in                         (* -f *)
      Ok (- (if 0 <=? e then Z.shiftl n e else Z.shiftr n (- e)))
  | S754_nan => Err ValueError
  | S754_infinity _ => Err OtherError
  end.

(* least INTEGER cell c with  c >= t.timestamp() * 1000000 *)
Definition sq_param_ceil (t : Z) : res Z := bind (sqlite_float_param t) float_ceil.
(* greatest INTEGER cell c with  c <= t.timestamp() * 1000000 *)
Definition sq_param_floor (t : Z) : res Z := bind (sqlite_float_param t) float_floor.

(* what the correspondence run asks for: the two parameters of a query whose edges are
   st / en (already rounded by Bucket.get for reads, raw for counts) *)
Definition enc_opt_res (o : option Z) (f : Z -> res Z) : list Z :=
  match o with
  | None => [0]
  | Some t => 1 :: enc_res enc_Z (f t)
  end.
Definition sq_params (st en : option Z) : list Z :=
  enc_opt_res st sq_param_ceil ++ enc_opt_res en sq_param_floor.
Definition sq_params_read (ws we : option Z) : list Z :=
  let r := bucket_get_round ws we in sq_params (fst r) (snd r).

(* the rounding as the floats compute it, for a correspondence case:
   [ok?; start'] ++ [ok?; end'] *)
Definition round_f_case (utc off : Z) : list Z :=
  enc_res enc_Z (bucket_round_start_f utc off) ++ enc_res enc_Z (bucket_round_end_f utc off).
