(* Flat integer encodings of float-carrying results, for the in-Coq correspondence route
   (harness/floatcases.py): every case of a cases_N.v file is one
   [Eval vm_compute in (<term> : list Z).] whose normal form prints on one line.
   Definitions only. *)
From Coq Require Import ZArith Bool List PrimFloat SpecFloat FloatOps.
From AwVerif Require Import Base.Prelude Model.PyFloat.
Open Scope Z_scope.

(* a binary64 as [class; sign; mantissa; exponent]:
   class 0 = zero, 1 = finite non-zero (value = (-1)^sign * mantissa * 2^exponent, the
   mantissa normalised as Prim2SF gives it), 2 = infinity, 3 = NaN *)
Definition enc_float (f : float) : list Z :=
  match Prim2SF f with
  | S754_zero s => [0; if s then 1 else 0; 0; 0]
  | S754_finite s m e => [1; if s then 1 else 0; Zpos m; e]
  | S754_infinity s => [2; if s then 1 else 0; 0; 0]
  | S754_nan => [3; 0; 0; 0]
  end.

(* res: Ok -> 0 :: payload, Err c -> [1; code], OutOfFuel -> [2] *)
Definition enc_res {A} (enc : A -> list Z) (r : res A) : list Z :=
  match r with
  | Ok a => 0 :: enc a
  | Err c => [1; errclass_code c]
  | OutOfFuel => [2]
  end.

Definition enc_Z (z : Z) : list Z := [z].
Definition enc_pairZ (p : Z * Z) : list Z := [fst p; snd p].
Definition enc_optZ (o : option Z) : list Z := match o with Some z => [1; z] | None => [0] end.
Definition enc_bool (b : bool) : list Z := [if b then 1 else 0].
