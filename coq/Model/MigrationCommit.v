(* What SqliteStorage.__init__ does to the connection's transaction on the migration path,
   in the vocabulary of Model/Commit.v (C06/C18): write statements are opaque tokens, the
   database is the list of committed tokens plus the open transaction.  Definitions only.

   Per legacy bucket the copy loop calls create_bucket (one INSERT, then self.commit(), then
   the get_metadata read) and insert_many of id-less events (no upserts, one executemany,
   then conditional_commit(len rows)); after check_for_migration(self) returns, __init__
   calls self.commit() (sqlite.py, since 655795e) -- the migration is never re-run once the
   v1 file exists, so what is not committed here would be lost by a crash for good. *)
From AwVerif Require Import Base.Prelude.
From AwVerif Require Model.Commit.

(* a migrated bucket: the token of its INSERT INTO buckets, the tokens of its event rows *)
Definition bucket_micro (b : Z * list Z) : list Commit.micro :=
  Commit.expand (Commit.CreateBucket (fst b)) ++ Commit.expand (Commit.InsertMany [] (snd b)).

(* does __init__ call self.commit() right after check_for_migration(self)?  (re-read from
   sqlite.py by translate/k_migration.py) *)
Definition INIT_COMMITS_AFTER_MIGRATION : bool := true.

Definition migration_micro (bs : list (Z * list Z)) : list Commit.micro :=
  flat_map bucket_micro bs ++ (if INIT_COMMITS_AFTER_MIGRATION then [Commit.Commit] else []).

Definition all_writes (bs : list (Z * list Z)) : list Z := flat_map (fun b => fst b :: snd b) bs.
