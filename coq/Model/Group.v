(* Model of aw_transform/merge_events_by_keys.py, chunk_events_by_key.py, sort_by.py and
   filter_keyvals.py (filter_keyvals only) as they are now in /repo (after 1d0534b).
   Definitions only.

   Event data has structure here: a dict is an association list from key labels to value
   labels (one label per key string; one label per Python-== class of hashable-ised
   values: a list value is labelled through its tuple form, as the code does before it
   uses the value in a dict key).  Lookup takes the first binding; dicts built by the
   model (dset) keep keys unique and in insertion order, like a Python dict. *)
From AwVerif Require Import Base.Prelude.

Definition dict := list (Z * Z).

Record gev := mkG { gid : option Z; gts : Z; gdur : Z; gdata : dict }.

Definition floor_ms (t : Z) : Z := 1000 * (t / 1000).

(* `key in d` / `d[key]` *)
Fixpoint lookup (k : Z) (d : dict) : option Z :=
  match d with
  | [] => None
  | (k', v) :: t => if k' =? k then Some v else lookup k t
  end.

(* `d[key] = v`: overwrite in place, otherwise append (insertion order) *)
Fixpoint dset (k v : Z) (d : dict) : dict :=
  match d with
  | [] => [(k, v)]
  | (k', v') :: t => if k' =? k then (k', v) :: t else (k', v') :: dset k v t
  end.

(* ---------------------------------------------------------------- merge_events_by_keys *)

(* composite_key: the tuple of (key, value) pairs of the keys the event has, in the order
   of `keys` *)
Definition composite_key (keys : list Z) (d : dict) : list (Z * Z) :=
  flat_map (fun k => match lookup k d with Some v => [(k, v)] | None => [] end) keys.

Definition pair_eqb (a b : Z * Z) : bool := (fst a =? fst b) && (snd a =? snd b).

Fixpoint ckey_eqb (a b : list (Z * Z)) : bool :=
  match a, b with
  | [], [] => true
  | x :: a', y :: b' => pair_eqb x y && ckey_eqb a' b'
  | _, _ => false
  end.

(* the data of a freshly created group: `for key in keys: if key in event.data:
   merged.data[key] = event.data[key]` *)
Definition select_keys (keys : list Z) (d : dict) : dict :=
  fold_left (fun acc k => match lookup k d with Some v => dset k v acc | None => acc end) keys [].

(* Event(timestamp=event.timestamp, duration=event.duration, data={...}): the constructor
   floors the timestamp to the millisecond; id is None *)
Definition new_group (keys : list Z) (e : gev) : gev :=
  mkG None (floor_ms (gts e)) (gdur e) (select_keys keys (gdata e)).

Definition add_dur (g : gev) (d : Z) : gev := mkG (gid g) (gts g) (gdur g + d) (gdata g).

(* merged_events is an insertion-ordered dict: update the group in place when the
   composite key is already there, otherwise append a new group at the end *)
Fixpoint madd (keys : list Z) (ck : list (Z * Z)) (e : gev) (m : list (list (Z * Z) * gev))
  : list (list (Z * Z) * gev) :=
  match m with
  | [] => [(ck, new_group keys e)]
  | (c, g) :: t =>
      if ckey_eqb c ck then (c, add_dur g (gdur e)) :: t
      else (c, g) :: madd keys ck e t
  end.

Definition merge_step (keys : list Z) (m : list (list (Z * Z) * gev)) (e : gev) :=
  madd keys (composite_key keys (gdata e)) e m.

(* result.append(Event( **merged_events[key])): a second pass through the constructor *)
Definition rebuild (g : gev) : gev := mkG (gid g) (floor_ms (gts g)) (gdur g) (gdata g).

Definition merge_events_by_keys (events : list gev) (keys : list Z) : list gev :=
  if (Z.of_nat (length keys) <? 1) then events
  else map (fun cg => rebuild (snd cg)) (fold_left (merge_step keys) events []).

(* ---------------------------------------------------------------- chunk_events_by_key *)

(* a chunk event: data = {key: cval, "subevents": csub}; id None *)
Record chunk := mkChunk { cts : Z; cdur : Z; cval : Z; csub : list gev }.

Definition new_chunk (e : gev) (v : Z) : chunk := mkChunk (floor_ms (gts e)) (gdur e) v [e].
Definition chunk_add (c : chunk) (e : gev) : chunk :=
  mkChunk (cts c) (cdur c + gdur e) (cval c) (csub c ++ [e]).

(* acc_rev is chunked_events reversed (head = chunked_events[-1]); last_end is
   events[-1].timestamp + events[-1].duration of the *whole input list*; pulse is
   timedelta(seconds=pulsetime) in microseconds.  A missing key is `break`. *)
Fixpoint chunk_loop (key pulse last_end : Z) (events : list gev) (acc_rev : list chunk) : list chunk :=
  match events with
  | [] => rev acc_rev
  | e :: rest =>
      match lookup key (gdata e) with
      | None => rev acc_rev
      | Some v =>
          match acc_rev with
          | [] => chunk_loop key pulse last_end rest [new_chunk e v]
          | c :: older =>
              let timediff := gts e - last_end in
              if (cval c =? v) && (timediff <? pulse)
              then chunk_loop key pulse last_end rest (chunk_add c e :: older)
              else chunk_loop key pulse last_end rest (new_chunk e v :: c :: older)
          end
      end
  end.

Definition chunk_events_by_key (events : list gev) (key pulse : Z) : list chunk :=
  match rev events with
  | [] => []
  | l :: _ => chunk_loop key pulse (gts l + gdur l) events []
  end.

(* ---------------------------------------------------------------- sort_by.py *)

Definition sort_by_timestamp (events : list gev) : list gev := sort_by gts events.

(* sorted(..., reverse=True) keeps equal keys in input order: a stable ascending sort on
   the negated key *)
Definition sort_by_duration (events : list gev) : list gev := sort_by (fun e => - gdur e) events.

(* events[:count] with Python's slice semantics for a negative count *)
Definition limit_events (events : list gev) (count : Z) : list gev :=
  if count <? 0 then firstn (Z.to_nat (Z.of_nat (length events) + count)) events
  else firstn (Z.to_nat count) events.

(* exact sum; the code goes through floats (total_seconds() summed, then
   timedelta(seconds=...)): that rounding is outside this model *)
Definition sum_durations (events : list gev) : Z := sumZ (map gdur events).

Definition concat_events (events1 events2 : list gev) : list gev := events1 ++ events2.

(* ---------------------------------------------------------------- filter_keyvals *)

Fixpoint memZ (v : Z) (vals : list Z) : bool :=
  match vals with
  | [] => false
  | x :: t => (x =? v) || memZ v t
  end.

(* key in event.data and event.data[key] in vals *)
Definition kv_predicate (key : Z) (vals : list Z) (e : gev) : bool :=
  match lookup key (gdata e) with
  | Some v => memZ v vals
  | None => false
  end.

Definition filter_keyvals (events : list gev) (key : Z) (vals : list Z) (exclude : bool) : list gev :=
  if exclude then filter (fun e => negb (kv_predicate key vals e)) events
  else filter (kv_predicate key vals) events.
