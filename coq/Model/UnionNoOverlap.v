(* Model of aw_transform/union_no_overlap.py as it is now in /repo (after the commit
   "fix: union_no_overlap trims every list-two event under a list-one event").
   Definitions only.

   _split_event(e, dt): splits only when ts e < dt < end e (both strict); the first half
   keeps the start and gets duration dt - ts e; the second half gets `timestamp = dt`
   through the Event setter (floors to the millisecond) and duration end e - dt (computed
   from the original e).  Otherwise (e, None).

   union_no_overlap: the two deep copies are functional no-ops.  The loop state is
   (events1[e1_i:], events2[e2_i:], events_union); `events2[e2_i] = x` replaces the head of
   the remaining list two.  One iteration is [uno_step]; it returns what is appended to
   events_union and the two remaining lists.  In the overlap branch e2_end is computed
   before the split and the local e2 is rebound to the second half returned by
   _split_event, which may be None: `_split_event(None, ...)` then raises AttributeError
   (None.timestamp) — modelled, and proved unreachable in Proofs/UnionNoOverlapProofs.v.
   `e2_after if e2_after else e2`: an Event is a non-empty dict, hence truthy, so this is
   "e2_after unless it is None". *)
From AwVerif Require Import Base.Prelude.

Definition floor_ms (t : Z) : Z := 1000 * (t / 1000).

Definition split_event (e : event) (dt : Z) : event * option event :=
  if (ts e <? dt) && (dt <? ts e + dur e) then
    let e1 := set_dur e (dt - ts e) in
    let e2 := set_dur (set_ts e (floor_ms dt)) ((ts e + dur e) - dt) in
    (e1, Some e2)
  else (e, None).

Inductive step_result :=
  | Next (emit : list event) (l1 l2 : list event)
  | Raise (c : errclass).

(* one iteration of the while loop with events1[e1_i:] = e1 :: r1, events2[e2_i:] = e2 :: r2 *)
Definition uno_step (e1 : event) (r1 : list event) (e2 : event) (r2 : list event) : step_result :=
  let e1_end := ts e1 + dur e1 in
  let e2_end := ts e2 + dur e2 in
  if e2_end <=? ts e1 then
    Next [e2] (e1 :: r1) r2
  else if e1_end <=? ts e2 then
    Next [e1] r1 (e2 :: r2)
  else
    let '(emit, e2') :=
      if ts e2 <? ts e1 then
        let '(e2_before, e2') := split_event e2 (ts e1) in ([e2_before], e2')
      else ([], Some e2) in
    if e2_end >? e1_end then
      match e2' with
      | None => Raise AttributeError
      | Some e2' =>
          let '(_, e2_after) := split_event e2' e1_end in
          let head := match e2_after with Some a => a | None => e2' end in
          Next (emit ++ [e1]) r1 (head :: r2)
      end
    else
      Next emit (e1 :: r1) r2.

Fixpoint uno_loop (fuel : nat) (l1 l2 : list event) (out : list event) : res (list event) :=
  match l1, l2 with
  | e1 :: r1, e2 :: r2 =>
      match fuel with
      | O => OutOfFuel
      | S fuel' =>
          match uno_step e1 r1 e2 r2 with
          | Next emit l1' l2' => uno_loop fuel' l1' l2' (out ++ emit)
          | Raise c => Err c
          end
      end
  | _, _ => Ok (out ++ l1 ++ l2)
  end.

Definition union_no_overlap (events1 events2 : list event) : res (list event) :=
  uno_loop (length events1 + length events2) events1 events2 [].
