(* Executable model of aw_datastore/datastore.py: the Datastore class (the
   `bucket_instances` cache, __getitem__, create_bucket, update_bucket, delete_bucket,
   buckets) and the Bucket class (metadata, get, get_by_id, get_eventcount, insert, delete,
   replace_last, replace), as a wrapper over ANY storage model `step` of Model/StoreBase.v.
   Definitions only.

   A Bucket object holds nothing but (its datastore and) its `bucket_id`; every method
   passes `self.bucket_id` to the storage.  A handle is therefore a name.  To make the
   cache observable (did `ds[b]` build a new Bucket or return the cached one?) handles carry
   the serial number of the Bucket object: the n-th Bucket the Datastore ever built has
   serial n.  `bucket_instances` is the insertion-ordered dict  bucket id -> serial. *)
From AwVerif Require Import Base.Prelude Model.StoreBase.

Record handle := mkHandle { h_serial : Z; h_bucket : Z }.

(* the methods of a Bucket object *)
Inductive hop :=
  | HMetadata
  | HGet (limit : Z) (starttime endtime : option Z)
  | HGetById (id : Z)
  | HCount (starttime endtime : option Z)
  | HInsert (e : event)                 (* insert(Event) *)
  | HInsertMany (es : list event)       (* insert([Event, ...]) *)
  | HDelete (id : Z)
  | HReplaceLast (e : event)
  | HReplace (id : Z) (e : event).

(* Bucket.get rounds the window outwards to whole milliseconds before it calls get_events:
   starttime.replace(microsecond = 1000 * int(us / 1000));  endtime: 1 + int(us / 1000)
   milliseconds, carrying into the seconds.  (A datetime is always truthy, so `if starttime:`
   is `is not None`.)  Since 49e3288 an aware edge is converted to UTC before that arithmetic:
   a window edge is its INSTANT here, and the rounding is a function of the instant for every
   utcoffset and either `fold` (Model/Window.v: bucket_round_start_tz / bucket_round_end_tz). *)
Definition get_round_start (t : Z) : Z := floor_ms t.
Definition get_round_end (t : Z) : Z := floor_ms t + 1000.

(* the storage call a Bucket method issues *)
Definition hop_op (b : Z) (h : hop) : op :=
  match h with
  | HMetadata => GetMetadata b
  | HGet limit st en => GetEvents b limit (option_map get_round_start st) (option_map get_round_end en)
  | HGetById i => GetEvent b i
  | HCount st en => GetEventCount b st en
  | HInsert e => InsertOne b e
  | HInsertMany es => InsertMany b es
  | HDelete i => Delete b i
  | HReplaceLast e => ReplaceLast b e
  | HReplace i e => Replace b i e
  end.

Inductive dsop :=
  | DsCreate (b : Z) (m : meta)                               (* ds.create_bucket(b, type, client, hostname, created, name, data) *)
  | DsUpdate (b : Z) (type client hostname name data : option Z)   (* ds.update_bucket(b, type_id=, client=, ...) *)
  | DsDelete (b : Z)                                          (* ds.delete_bucket(b) *)
  | DsBuckets                                                 (* ds.buckets() *)
  | DsGetItem (b : Z)                                         (* ds[b] *)
  | DsVia (h : handle) (o : hop)                              (* a method of a Bucket object whose bucket_id is h_bucket h *)
  | DsRaw (o : op).                                           (* a call on ds.storage_strategy, bypassing the Datastore *)

Inductive dsout :=
  | DOut (o : out)
  | DHandle (h : handle).

Record dstate (S : Type) := mkDs {
  ds_store : S;
  ds_cache : list (Z * Z);      (* self.bucket_instances : bucket id -> serial of the cached Bucket *)
  ds_next : Z }.                (* number of Bucket objects built so far *)
Arguments mkDs {S} _ _ _.
Arguments ds_store {S} _.
Arguments ds_cache {S} _.
Arguments ds_next {S} _.

Definition ds_init {S} (s : S) : dstate S := mkDs s [] 0.

Definition lift_out (r : res out) : res dsout :=
  match r with
  | Ok o => Ok (DOut o)
  | Err k => Err k
  | OutOfFuel => OutOfFuel
  end.

Section Datastore.
  Context {S : Type} (step : S -> op -> S * res out).

  Definition with_store (d : dstate S) (s : S) : dstate S := mkDs s (ds_cache d) (ds_next d).

  (* `bucket_id in self.buckets()`: membership among the keys of the returned dict *)
  Definition listed (b : Z) (l : list (Z * meta)) : bool := existsb (fun kv => fst kv =? b) l.

  (* __getitem__ *)
  Definition ds_getitem (d : dstate S) (b : Z) : dstate S * res dsout :=
    match aget b (ds_cache d) with
    | Some n => (d, Ok (DHandle (mkHandle n b)))
    | None =>
        match step (ds_store d) Buckets with
        | (s', Ok (OBuckets l)) =>
            if listed b l
            then (mkDs s' (aset b (ds_next d) (ds_cache d)) (ds_next d + 1),
                  Ok (DHandle (mkHandle (ds_next d) b)))
            else (with_store d s', Err KeyError)
        | (s', Ok _) => (with_store d s', Err OtherError)   (* buckets() returned no dict: no back end does (Lifecycle: ok_buckets) *)
        | (s', Err k) => (with_store d s', Err k)
        | (s', OutOfFuel) => (with_store d s', OutOfFuel)
        end
    end.

  Definition ds_call (d : dstate S) (o : op) : dstate S * res dsout :=
    let '(s', r) := step (ds_store d) o in (with_store d s', lift_out r).

  Definition ds_step (d : dstate S) (o : dsop) : dstate S * res dsout :=
    match o with
    | DsCreate b m =>
        (* storage.create_bucket(...); return self[bucket_id] *)
        match step (ds_store d) (CreateBucket b m) with
        | (s', Ok _) => ds_getitem (with_store d s') b
        | (s', Err k) => (with_store d s', Err k)
        | (s', OutOfFuel) => (with_store d s', OutOfFuel)
        end
    | DsUpdate b ty cl ho na da => ds_call d (UpdateBucket b ty cl ho na da)
    | DsDelete b =>
        (* the cached handle is dropped first, whatever the storage then does *)
        ds_call (mkDs (ds_store d) (adel b (ds_cache d)) (ds_next d)) (DeleteBucket b)
    | DsBuckets => ds_call d Buckets
    | DsGetItem b => ds_getitem d b
    | DsVia h o => ds_call d (hop_op (h_bucket h) o)
    | DsRaw o => ds_call d o
    end.

  Definition ds_run (d : dstate S) (h : list dsop) : dstate S :=
    fold_left (fun d o => fst (ds_step d o)) h d.
End Datastore.
