(* Model of aw_core/config.py as it is now in /repo (after a606824, e3aa5a3 and baead4f):
   _merge, _comment_out_toml, load_config_toml.  Definitions only.  Since baead4f
   load_config_toml hands _merge the unwrapped plain dicts, which is what this model always
   merged (a tree of association lists); [parse] below stands for tomlkit.parse + unwrap.

   Values.  A TOML value as _merge sees it is either a dict (tomlkit Container, Table,
   InlineTable, OutOfOrderTableProxy: all dict subclasses) or not.  Keys are integer labels
   (one per key string).  A non-dict value that the code only ever moves around (scalar,
   inline array) is a [Leaf] carrying a harness label, one label per exact (type, value),
   so 1, 1.0, true and "1" are four different leaves.  An array of tables written with
   [[header]] lines is [Aot]: for _merge it is a non-dict exactly like a leaf (tomlkit AoT is
   a list), but the line model has to build it, so it has structure.

   A table is an association list in the iteration order of the Python dict. *)
From AwVerif Require Import Base.Prelude.

Inductive toml :=
  | Leaf (label : Z)
  | Tab (entries : list (Z * toml))
  | Aot (elems : list toml).

Definition table := list (Z * toml).

Fixpoint lookup (k : Z) (t : table) : option toml :=
  match t with
  | [] => None
  | (k', v) :: t' => if k' =? k then Some v else lookup k t'
  end.

Definition keys (t : table) : list Z := map fst t.

Definition mem (k : Z) (t : table) : bool :=
  match lookup k t with Some _ => true | None => false end.

(* ------------------------------------------------------------------------------------ *)
(* _merge                                                                                 *)

(* a[key] = f(a.get(key)): an existing key keeps its position, a new key goes last
   (Python dict insertion order). *)
Fixpoint upsert (k : Z) (f : option toml -> toml) (a : table) : table :=
  match a with
  | [] => [(k, f None)]
  | (k', v) :: a' => if k' =? k then (k', f (Some v)) :: a' else (k', v) :: upsert k f a'
  end.

(* for key in b: a[key] = ov b[key] (a.get key) *)
Definition merge_list (ov : toml -> option toml -> toml) : table -> table -> table :=
  fix go (b a : table) {struct b} : table :=
    match b with
    | [] => a
    | (k, vb) :: b' => go b' (upsert k (ov vb) a)
    end.

(* What a[key] becomes for one key of b, given what a held before:
     key in a, both dicts  -> _merge(a[key], b[key])   (in place)
     key in a, otherwise   -> a[key] = b[key]
     key not in a          -> a[key] = b[key]                                             *)
Fixpoint overlay (vb : toml) (va : option toml) {struct vb} : toml :=
  match vb with
  | Tab tb =>
      match va with
      | Some (Tab ta) => Tab (merge_list overlay tb ta)
      | _ => vb
      end
  | _ => vb
  end.

(* _merge(a, b): b is folded into a, key by key, in b's order. *)
Definition merge (a b : table) : table := merge_list overlay b a.

(* ------------------------------------------------------------------------------------ *)
(* line model of a TOML document, for _comment_out_toml                                   *)

(* One physical line ("\n"-separated piece) of the text.
   [Other kept] is a line that belongs to a value spread over several lines (multi-line
   array or string); [kept] records what the code's test says about its raw text: true when
   line.strip() is empty or starts with "[" but not "[[" (the code leaves such a line
   alone), false otherwise (the code puts "#" in front). *)
Inductive line :=
  | Blank
  | Comment
  | Header (path : list Z)
  | ArrayHeader (path : list Z)
  | KeyVal (kpath : list Z) (v : toml)
  | Other (kept : bool).

(* The test the code performs on the raw text of a line, read off the classification:
     "#" + line if line.strip() and (not line.strip().startswith("[")
                                     or line.strip().startswith("[[")) else line
   Blank: strip() is empty -> kept.  Header: starts with "[" and not "[[" -> kept.
   ArrayHeader starts with "[["; Comment starts with "#"; a key starts with a bare-key
   character or a quote: all get "#" in front, which makes them comment lines. *)
Definition line_kept (l : line) : bool :=
  match l with
  | Blank | Header _ | Other true => true
  | Comment | ArrayHeader _ | KeyVal _ _ | Other false => false
  end.

(* "#" + text is a comment line whatever the text was *)
Definition comment_line (l : line) : line := if line_kept l then l else Comment.

Definition comment_out (doc : list line) : list line := map comment_line doc.

(* ------------------------------------------------------------------------------------ *)
(* reading a document of the line model (the subset: key/values under the current [table]
   header, dotted paths creating nested tables, [[array]] headers appending an element).
   tomlkit is the real parser; this reading is checked against it on every generated
   document (tie A) and is otherwise an oracle. *)

Fixpoint set_key (k : Z) (v : toml) (t : table) : table :=
  match t with
  | [] => []
  | (k', v') :: t' => if k' =? k then (k', v) :: t' else (k', v') :: set_key k v t'
  end.

Fixpoint split_last {X} (l : list X) : option (list X * X) :=
  match l with
  | [] => None
  | [x] => Some ([], x)
  | x :: l' => match split_last l' with Some (i, y) => Some (x :: i, y) | None => None end
  end.

(* Apply f to the table at path p below t.  Missing tables on the way are created (TOML's
   implicit super-tables), an array of tables on the way stands for its last element, a
   leaf on the way is a parse error. *)
Fixpoint at_path (p : list Z) (f : table -> res table) (t : table) : res table :=
  match p with
  | [] => f t
  | k :: p' =>
      match lookup k t with
      | None => bind (at_path p' f []) (fun t' => Ok (t ++ [(k, Tab t')]))
      | Some (Tab t1) => bind (at_path p' f t1) (fun t' => Ok (set_key k (Tab t') t))
      | Some (Aot xs) =>
          match split_last xs with
          | Some (init, Tab t1) =>
              bind (at_path p' f t1) (fun t' => Ok (set_key k (Aot (init ++ [Tab t'])) t))
          | _ => Err ParseError
          end
      | Some (Leaf _) => Err ParseError
      end
  end.

Definition put_new (k : Z) (v : toml) (t : table) : res table :=
  if mem k t then Err ParseError else Ok (t ++ [(k, v)]).

Definition push_aot (k : Z) (t : table) : res table :=
  match lookup k t with
  | None => Ok (t ++ [(k, Aot [Tab []])])
  | Some (Aot xs) => Ok (set_key k (Aot (xs ++ [Tab []])) t)
  | Some _ => Err ParseError
  end.

(* parser state: the root table and the path of the current [table] / [[array]] header *)
Definition pstate := (table * list Z)%type.

Definition parse_step (st : pstate) (l : line) : res pstate :=
  let '(root, cur) := st in
  match l with
  | Blank | Comment => Ok st
  | Header p =>
      match p with
      | [] => Err ParseError
      | _ => bind (at_path p (fun t => Ok t) root) (fun r => Ok (r, p))
      end
  | ArrayHeader p =>
      match split_last p with
      | None => Err ParseError
      | Some (q, k) => bind (at_path q (push_aot k) root) (fun r => Ok (r, p))
      end
  | KeyVal kp v =>
      match split_last kp with
      | None => Err ParseError
      | Some (q, k) => bind (at_path (cur ++ q) (put_new k v) root) (fun r => Ok (r, cur))
      end
  | Other _ => Err OtherError   (* outside the modelled subset *)
  end.

Fixpoint parse_from (st : pstate) (doc : list line) : res pstate :=
  match doc with
  | [] => Ok st
  | l :: doc' => bind (parse_step st l) (fun st' => parse_from st' doc')
  end.

Definition parse_lines (doc : list line) : res table :=
  bind (parse_from ([], []) doc) (fun st => Ok (fst st)).

(* ------------------------------------------------------------------------------------ *)
(* load_config_toml as an I/O script.  The file system is reduced to the one file the
   function addresses: None = no such file, Some text = its content.  The parser and the
   commenting function are parameters, so the script speaks about raw text and the real
   tomlkit as well as about the line model. *)

Inductive io_event (text : Type) :=
  | EvIsFile (present : bool)
  | EvRead
  | EvWrite (content : text).
Arguments EvIsFile {text} present.
Arguments EvRead {text}.
Arguments EvWrite {text} content.

Record load_result (text : Type) := mkLoad {
  lr_value : res table;           (* returned dict, or the exception class *)
  lr_file : option text;          (* the file afterwards *)
  lr_trace : list (io_event text) (* file operations performed, in order *)
}.
Arguments mkLoad {text} _ _ _.
Arguments lr_value {text} _.
Arguments lr_file {text} _.
Arguments lr_trace {text} _.

Section Load.
  Context {text : Type}.
  Variable parse : text -> res table.          (* tomlkit.parse, to a plain table *)
  Variable comment : text -> text.             (* _comment_out_toml *)

  Definition load_config (default : text) (file : option text) : load_result text :=
    (* default_config_toml = tomlkit.parse(default_config)  -- before any file access *)
    match parse default with
    | Ok d =>
        match file with
        | Some user =>
            (* isfile -> open/read -> parse -> merge; nothing is written *)
            match parse user with
            | Ok u => mkLoad (Ok (merge d u)) file [EvIsFile true; EvRead]
            | Err c => mkLoad (Err c) file [EvIsFile true; EvRead]
            | OutOfFuel => mkLoad OutOfFuel file [EvIsFile true; EvRead]
            end
        | None =>
            let w := comment default in
            mkLoad (Ok (merge d [])) (Some w) [EvIsFile false; EvWrite w]
        end
    | Err c => mkLoad (Err c) file []
    | OutOfFuel => mkLoad OutOfFuel file []
    end.
End Load.

(* the script on the line model *)
Definition load_lines : list line -> option (list line) -> load_result (list line) :=
  load_config parse_lines comment_out.
