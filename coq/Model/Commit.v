(* Commit bookkeeping of aw_datastore/storages/sqlite.py (commit, conditional_commit and
   the per-method sequence of SQL statements / commit calls) and the autocommit
   discipline of aw_datastore/storages/peewee.py.  Definitions only.

   The database is abstract: an elementary write (one INSERT / UPDATE / DELETE statement
   execution, one row of an executemany) is an opaque token, the database is the list of
   tokens applied so far, in order.  That is all the crash-prefix property needs.

   SQLite's transaction semantics is the oracle of this model, stated here and sampled by
   the harness: a write statement opens (or continues) the connection's single implicit
   transaction; the rows of an executemany run inside it; conn.commit() makes everything
   since the previous commit durable at once; a process death loses exactly the open
   transaction (rollback to the last COMMIT, WAL durability). *)
From AwVerif Require Import Base.Prelude.

(* constants of conditional_commit (re-read from the source by translate/k_commit.py and
   bridged in Bridge/BridgeCommit.v) *)
Definition THRESHOLD : Z := 50.            (* `self.num_uncommitted_statements > 50` *)
Definition MAX_AGE : Z := 10000000.        (* `> timedelta(seconds=10)`, microseconds *)
Definition PW_CHUNK : nat := 100.          (* peewee insert_many: chunks(..., 100) *)

Record cstate := mkC {
  committed : list Z;      (* what a fresh connection / a reopen after a crash sees *)
  pending : list Z;        (* writes of the open transaction *)
  n_unc : Z;               (* self.num_uncommitted_statements *)
  last_commit : Z          (* self.last_commit, microseconds *)
}.

(* The wall clock is an input.  One micro-step can read it up to three times; the
   readings are positional along the longest path through conditional_commit:
     r1  datetime.now() inside the commit() of `if n > 50`   (or of the non-lazy branch,
         or of a plain self.commit(); for Exec/ExecMany/Read nothing reads the clock and
         r1 is the instant the statement is issued — a ghost used by the C18 statements)
     r2  datetime.now() of the age test
     r3  datetime.now() inside the commit() of the age branch *)
Record clk := mkClk { r1 : Z; r2 : Z; r3 : Z }.

Inductive micro :=
  | Exec (w : Z)               (* conn.execute / cursor.execute of a write statement *)
  | ExecMany (ws : list Z)     (* conn.executemany: one row after the other, same transaction *)
  | Read                       (* a SELECT: no effect on the bookkeeping *)
  | Commit                     (* self.commit() *)
  | CondCommit (k : Z).        (* self.conditional_commit(k) *)

Definition flush (s : cstate) : cstate :=
  mkC (committed s ++ pending s) [] (n_unc s) (last_commit s).
Definition set_last (s : cstate) (t : Z) : cstate :=
  mkC (committed s) (pending s) (n_unc s) t.
Definition set_n (s : cstate) (n : Z) : cstate :=
  mkC (committed s) (pending s) n (last_commit s).
Definition add_pending (s : cstate) (ws : list Z) : cstate :=
  mkC (committed s) (pending s ++ ws) (n_unc s) (last_commit s).

(* def commit(self): self.conn.commit(); self.last_commit = datetime.now();
                     self.num_uncommitted_statements = 0 *)
Definition do_commit (now : Z) (s : cstate) : cstate :=
  set_n (set_last (flush s) now) 0.

(* def conditional_commit(self, num_statements):
       if self.enable_lazy_commit:
           self.num_uncommitted_statements += num_statements
           if self.num_uncommitted_statements > 50: self.commit()
           if (datetime.now() - self.last_commit) > timedelta(seconds=10): self.commit()
       else: self.commit() *)
Definition cond_commit (lazy : bool) (k : Z) (c : clk) (s : cstate) : cstate :=
  if lazy then
    let s := set_n s (n_unc s + k) in
    let s := if n_unc s >? THRESHOLD then do_commit (r1 c) s else s in
    let s := if r2 c - last_commit s >? MAX_AGE then do_commit (r3 c) s else s in
    s
  else do_commit (r1 c) s.

Definition micro_step (lazy : bool) (s : cstate) (mc : micro * clk) : cstate :=
  match fst mc with
  | Exec w => add_pending s [w]
  | ExecMany ws => add_pending s ws
  | Read => s
  | Commit => do_commit (r1 (snd mc)) s
  | CondCommit k => cond_commit lazy k (snd mc) s
  end.

Definition run (lazy : bool) (s : cstate) (tr : list (micro * clk)) : cstate :=
  fold_left (micro_step lazy) tr s.

(* the state after __init__ (tables created, self.commit(), last_commit = now, n = 0) on a
   database that already holds the writes c0 *)
Definition init (c0 : list Z) (t0 : Z) : cstate := mkC c0 [] 0 t0.

(* a crash loses the open transaction *)
Definition recover (s : cstate) : list Z := committed s.

(* ---- API calls and their scripts (SqliteStorage) ---- *)

Inductive op :=
  | CreateBucket (w : Z)
  | UpdateBucket (w : Z)
  | DeleteBucket (w1 w2 : Z)          (* DELETE FROM events ...; DELETE FROM buckets ... *)
  | InsertOne (w : Z)
  | InsertMany (ups rows : list Z)    (* events with an id (upserts), events without *)
  | ReplaceLast (w : Z)
  | Replace (w : Z)
  | Delete (w : Z)
  | GetEvent
  | GetEvents (limit0 : bool)         (* limit == 0 returns before the commit *)
  | GetEventCount
  | Buckets
  | GetMetadata
  (* calls that raise: the engine rejects the first write statement (duplicate bucket id,
     unknown bucket -> NOT NULL bucketrow), or update_bucket is given no field *)
  | Rejected
  (* insert_many whose bulk statement raises on row |done|+1 of |done|+rest: the upserts
     ran, the rows before the failing one stay in the open transaction, and (try/finally,
     since ec39c3d) conditional_commit still runs with the number of ALL statements of the
     call — an over-count, which is safe.  done = []: unknown bucket (NOT NULL bucketrow on
     the first row).  done <> []: a row whose start/end does not fit SQLite's 64-bit INTEGER
     (OverflowError at bind time) after rows that were fine.
     Since a00ceb1 the upsert loop is inside the same try: an insert_many whose (|ups|+1)-th
     UPDATE raises at bind time is [InsertManyFailed ups [] rest] with rest = the upserts
     that did not run + all id-less rows (no bulk statement is issued then; [ExecMany []]
     writes nothing). *)
  | InsertManyFailed (ups done : list Z) (rest : nat).

(* def _replace(...): the UPDATE alone (the helper insert_many's upsert loop calls since
   a00ceb1);  def replace(...): self._replace(...); self.conditional_commit(1) *)
Definition script__replace (w : Z) : list micro := [Exec w].
Definition script_replace (w : Z) : list micro := script__replace w ++ [CondCommit 1].
Definition script_get_metadata : list micro := [Read].

Definition expand (o : op) : list micro :=
  match o with
  | CreateBucket w => [Exec w; Commit] ++ script_get_metadata
  | UpdateBucket w => [Exec w; Commit] ++ script_get_metadata
  | DeleteBucket w1 w2 => [Exec w1; Exec w2; Commit]
  | InsertOne w => [Exec w; CondCommit 1]
  (* try: the upserts, then the bulk INSERT;  finally: ONE conditional_commit for the whole
     batch (a00ceb1; before it every upsert was a [script_replace] block of its own) *)
  | InsertMany ups rows =>
      flat_map script__replace ups ++
      [ExecMany rows; CondCommit (Z.of_nat (length ups + length rows))]
  | ReplaceLast w => [Exec w; CondCommit 1]
  | Replace w => script_replace w
  | Delete w => [Exec w; CondCommit 1]
  | GetEvent => [Commit; Read]
  | GetEvents limit0 => if limit0 then [] else [Commit; Read]
  | GetEventCount => [Commit; Read]
  | Buckets => [Read]
  | GetMetadata => script_get_metadata
  | Rejected => []
  | InsertManyFailed ups done rest =>
      flat_map script__replace ups ++
      [ExecMany done; CondCommit (Z.of_nat (length ups + (length done + rest)))]
  end.

Definition expand_all (h : list op) : list micro := flat_map expand h.

(* the writes a micro-step sequence issues, in issue order *)
Definition writes_of_micro (m : micro) : list Z :=
  match m with Exec w => [w] | ExecMany ws => ws | _ => [] end.
Definition writes_of (ms : list micro) : list Z := flat_map writes_of_micro ms.

(* ---- peewee: autocommit, bulk insert in chunks ---- *)

(* def chunks(ls, n): for i in range(0, len(ls), n): yield ls[i : i + n] *)
Fixpoint chunks_aux (n : nat) (cur_rev : list Z) (room : nat) (l : list Z) : list (list Z) :=
  match l with
  | [] => match cur_rev with [] => [] | _ => [rev cur_rev] end
  | x :: t =>
      match room with
      | O => rev cur_rev :: chunks_aux n [x] (Nat.pred n) t
      | S r => chunks_aux n (x :: cur_rev) r t
      end
  end.
(* n >= 1 (the code's constant is 100); for n = 0 Python's range() raises *)
Definition chunks (n : nat) (l : list Z) : list (list Z) :=
  match l with [] => [] | x :: t => chunks_aux n [x] (Nat.pred n) t end.

(* the write statements of a PeeweeStorage call, in order (SELECTs left out); every
   statement is its own transaction *)
Definition pw_expand (o : op) : list micro :=
  match o with
  | CreateBucket w => [Exec w]
  | UpdateBucket w => [Exec w]
  | DeleteBucket w1 w2 => [Exec w1; Exec w2]
  | InsertOne w => [Exec w]
  | InsertMany ups rows => map Exec ups ++ map ExecMany (chunks PW_CHUNK rows)
  | ReplaceLast w => [Exec w]
  | Replace w => [Exec w]
  | Delete w => [Exec w]
  (* reads issue no write; a rejected call (KeyError on the unknown bucket, before any
     statement) neither *)
  | _ => []
  end.

Definition pw_step (db : list Z) (m : micro) : list Z := db ++ writes_of_micro m.
Definition pw_run (db : list Z) (ms : list micro) : list Z := fold_left pw_step ms db.
