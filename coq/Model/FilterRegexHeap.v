(* aw_transform/filter_keyvals.py: filter_keyvals_regex as it is in /repo - the functional
   model on Model/Group.v's events and the heap-level program (objects as in
   Model/GroupHeap.v, data dicts with structure: Model/DictHeap.v).  Definitions only;
   theorems in Proofs/FilterRegexHeapProofs.v, statements in Props/C12transforms.v (the
   function is not part of C16's statement; C12 needs its confinement: it is the built-in
   q2_filter_keyvals_regex of aw_query/functions.py).

       r = re.compile(regex)
       def predicate(event): return key in event.data and bool(r.findall(event.data[key]))
       return [e for e in events if predicate(e)]

   The regex engine is outside the model (Section variables, as in Model/Classify.v):
     compiled     re.compile(regex) returned (an invalid pattern raises re.error before
                  anything is read);
     findall q    bool(r.findall(v)) for a value v with label q: Ok b for a str, Err
                  TypeError for anything else ("expected string or bytes-like object": int,
                  float, bool, None, list, dict; a bytes value under a str pattern as well).
                  Labels are per Python-== class, and a str is == to strs only, so the
                  outcome is a function of the label.
   What the program does to the heap: it allocates ONE cell, the returned list, whose
   elements are the caller's own Event objects (a comprehension); nothing that existed is
   written.  The predicates run in list order, so the first event whose value is not a str
   raises and no list is returned. *)
From AwVerif Require Import Base.Prelude Model.MemHeap Model.TransformHeap Model.DictHeap Model.Group
  Model.GroupHeap.
From Coq Require Import Arith.

Section FilterRegex.
  Variable compiled : bool.
  Variable findall : Z -> res bool.

  (* ---- functional model ---- *)
  Definition rx_predicate (key : Z) (e : gev) : res bool :=
    match Group.lookup key (gdata e) with
    | Some v => findall v
    | None => Ok false
    end.

  Definition filter_keyvals_regex (events : list gev) (key : Z) : res (list gev) :=
    if compiled then filter_res (rx_predicate key) events else Err OtherError.

  (* ---- heap program ---- *)
  Definition rx_predicate_h (h : heap) (key : Z) (e : loc) : res bool :=
    bind (ev_dict h e) (fun z =>
    match zget key z with
    | None => Ok false
    | Some v => bind (val_label h v) findall
    end).

  Definition filter_keyvals_regex_h (h : heap) (L : loc) (key : Z) : res (heap * loc) :=
    if compiled then
      bind (list_elems h L) (fun ks =>
      bind (filter_res (rx_predicate_h h key) ks) (fun out =>
      Ok (new_list h out)))
    else Err OtherError.
End FilterRegex.
