(* C03 -- time-window reads.  Executable model of
     aw_datastore/datastore.py  Bucket.get (aware window edges converted to UTC -- since
                                 49e3288 --, rounding of the window, then storage.get_events)
                                 and Bucket.get_eventcount (NO rounding, storage.get_eventcount),
   composed with the three storage models of Model/{Mem,Sqlite,Peewee}Store.v.
   Definitions only; everything here is on exact Z microseconds and extracts without
   floats.  The float expressions of Bucket.get (`1000 * int(us / 1000)` ...) are tied to
   the integer arithmetic below by Proofs/WindowFloat.v (finite theorems of
   Proofs/PyFloatFinite.v); the float query parameters of sqlite.py
   (`t.timestamp() * 1000000`) and SQLite's julianday/strftime end-instant arithmetic used
   by peewee.py enter as parameters ([plo]/[phi], [sql_end_ms]) whose concrete values the
   correspondence run obtains from Model/WindowFloat.v (evaluated inside Coq) and from the
   SQLite engine itself. *)
From AwVerif Require Import Base.Prelude Model.StoreBase Model.MemStore Model.SqliteStore
  Model.PeeweeStore.

(* ------------------------------------------------------------------------- *)
(* Bucket.get: rounding of the window.

   An aware datetime is (utc, off): the UTC instant and the utcoffset, both in microseconds.
   `.microsecond` is the field of the local wall clock. *)

Definition us_field (utc off : Z) : Z := (utc + off) mod 1000000.

(* dt.replace(microsecond=m): same wall-clock second, same offset *)
Definition replace_us (utc off m : Z) : Z := utc - us_field utc off + m.

(* starttime.replace(microsecond=1000 * int(starttime.microsecond / 1000)) *)
Definition round_start_tz (utc off : Z) : Z :=
  replace_us utc off (1000 * (us_field utc off / 1000)).

(* milliseconds = 1 + int(endtime.microsecond / 1000)
   second_offset = int(milliseconds / 1000)
   microseconds = (1000 * milliseconds) % 1000000
   endtime.replace(microsecond=microseconds) + timedelta(seconds=second_offset) *)
Definition round_end_tz (utc off : Z) : Z :=
  let milliseconds := 1 + us_field utc off / 1000 in
  let second_offset := milliseconds / 1000 in
  let microseconds := (1000 * milliseconds) mod 1000000 in
  replace_us utc off microseconds + second_offset * 1000000.

(* x.astimezone(timezone.utc): the same instant, read at utcoffset 0 *)
Definition astimezone_utc (utc off : Z) : Z * Z := (utc, 0).

(* Bucket.get on an aware edge (utc, off), since 49e3288:
     if x is not None and x.utcoffset() is not None: x = x.astimezone(timezone.utc)
   and then the rounding above, i.e. on the fields of the UTC reading.  The edge handed to the
   storage is therefore a function of the INSTANT alone, for every utcoffset (whole minutes,
   seconds, or not even a whole millisecond: the microsecond field used is the one of the UTC
   reading, utc mod 10^6, so the result is a whole millisecond of the epoch clock -- the clock
   on which Event floors its timestamps) and for either value of `fold`.
   Before that commit the rounding ran on the local reading: round_start_tz utc off /
   round_end_tz utc off, equal to the present result only for whole-millisecond offsets
   (Proofs/WindowRound.round_tz_whole_ms), and the `+ timedelta` of the end rounding dropped
   fold = 1 ([old_round_end_fold] below).  Naive datetimes are outside the model. *)
Definition bucket_round_start_tz (utc off : Z) : Z :=
  let d := astimezone_utc utc off in round_start_tz (fst d) (snd d).
Definition bucket_round_end_tz (utc off : Z) : Z :=
  let d := astimezone_utc utc off in round_end_tz (fst d) (snd d).

(* the same as functions of the instant; the compositions below are written with these *)
Definition round_start (t : Z) : Z := round_start_tz t 0.
Definition round_end (t : Z) : Z := round_end_tz t 0.

(* The end rounding BEFORE 49e3288 on an edge given with fold = 1, in a zone where that wall
   time has utcoffset off1 in its second reading (fold = 1) and off0 in its first (fold = 0):
   replace() + timedelta computes on the wall clock and returns fold = 0, i.e. the wall time
   (round_end_tz utc off1 + off1) re-read at offset off0.  Kept for the sensitivity example of
   Props/C03.v (the repaired defect C03:window-end-in-fold); not part of the model of the code. *)
Definition old_round_end_fold (utc off1 off0 : Z) : Z := round_end_tz utc off1 + off1 - off0.

(* `if starttime:` / `if endtime:` -- a datetime is always truthy, so the test is `is not None` *)
Definition bucket_get_round (ws we : option Z) : option Z * option Z :=
  (option_map round_start ws, option_map round_end we).

(* ------------------------------------------------------------------------- *)
(* the two entry points, over any storage read / count function *)

Definition read {S} (get_events : S -> Z -> Z -> option Z -> option Z -> res out)
    (c : S) (b limit : Z) (ws we : option Z) : res out :=
  let r := bucket_get_round ws we in
  get_events c b limit (fst r) (snd r).

Definition count {S} (get_eventcount : S -> Z -> option Z -> option Z -> res out)
    (c : S) (b : Z) (ws we : option Z) : res out :=
  get_eventcount c b ws we.

(* ------------------------------------------------------------------------- *)
(* memory *)

Definition mem_get (c : mstate) (b limit : Z) (st en : option Z) : res out :=
  snd (mem_step c (GetEvents b limit st en)).
Definition mem_getcount (c : mstate) (b : Z) (st en : option Z) : res out :=
  snd (mem_step c (GetEventCount b st en)).

Definition mem_read := read mem_get.
Definition mem_readcount := count mem_getcount.

(* ------------------------------------------------------------------------- *)
(* sqlite: the window parameters are floats, `t.timestamp() * 1000000`, compared by SQLite
   with INTEGER cells exactly (sqlite3IntFloatCompare), so
       endtime >= p    <->   plo <= endtime      with plo = ceiling p
       starttime <= p  <->   starttime <= phi    with phi = floor p.
   [plo]/[phi] map the (exact) instant of the datetime to those integers; the identity
   gives back Model/SqliteStore.v's sq_step.  A missing edge is the int 0 / MAX_TIMESTAMP. *)
Section SqliteWindow.
  Variables plo phi : Z -> Z.

  Definition sqx_lo (st : option Z) : Z := match st with Some w => plo w | None => 0 end.
  Definition sqx_hi (en : option Z) : Z := match en with Some w => phi w | None => MAX_TIMESTAMP end.

  Definition sqx_get (c : sqstate) (b limit : Z) (st en : option Z) : res out :=
    if limit =? 0 then Ok (OEvents [])
    else let limit := if limit <? 0 then -1 else limit in
         Ok (OEvents (map row_event (sql_select_events c b (sqx_lo st) (sqx_hi en) limit))).

  Definition sqx_getcount (c : sqstate) (b : Z) (st en : option Z) : res out :=
    Ok (OCount (sql_count_events c b (sqx_lo st) (sqx_hi en))).

  Definition sq_read := read sqx_get.
  Definition sq_readcount := count sqx_getcount.
End SqliteWindow.

(* ------------------------------------------------------------------------- *)
(* peewee: `starttime <= strftime('%Y-%m-%d %H:%M:%f+00:00', (julianday(timestamp) -
   2440587.5) * 86400.0 + duration, 'unixepoch')` compares two TEXT values.
   [sql_end_ms ts dur] is the instant (microseconds, a whole millisecond) that SQLite's
   strftime prints for a row.  The left side is the parameter datetime as the sqlite3 module
   adapts it, datetime.isoformat(" "): "...:SS+00:00" when the microsecond field is 0,
   "...:SS.ffffff+00:00" otherwise; the right side is "...:SS.mmm+00:00".  In ASCII
   '+' < '.' < '0'..'9', hence, in the same second,
     field = 0 :  "+00:00" < ".mmm+00:00"                       -> true
     field > 0 :  "ffffff+.." vs "mmm+..": decided by fff vs mmm, and on fff = mmm the next
                  characters are a digit against '+'             -> false
   and different seconds are decided by the (zero-padded) prefix. *)
Definition text_le_iso_ms (ws end_ms : Z) : bool :=
  if ws mod 1000000 =? 0 then ws <=? end_ms else floor_ms ws <? end_ms.

Section PeeweeWindow.
  Variable sql_end_ms : Z -> Z -> Z.

  Definition pwx_window_start (ws : Z) (r : perow) : bool :=
    text_le_iso_ms ws (sql_end_ms (pe_ts r) (pe_dur r)).

  (* _where_range: 24 h prefilter and end-instant test when a start is given, start test when
     an end is given (TEXT comparisons of two isoformat(" ") strings are exact) *)
  Definition pwx_in_range (st en : option Z) (r : perow) : bool :=
    (match st with Some ws => pw_prefilter ws r && pwx_window_start ws r | None => true end) &&
    (match en with Some we => pw_window_end we r | None => true end).

  Definition pwx_get (c : pwstate) (b limit : Z) (st en : option Z) : res out :=
    if limit =? 0 then Ok (OEvents [])
    else
      match pw_key c b with
      | Some k =>
          let rows := select_where (fun r => (pe_bucket r =? k) && pwx_in_range st en r) (pw_events c) in
          Ok (OEvents (map (fun r => pw_clip st en (prow_event r))
                           (sql_limit limit (pw_order_ts_desc rows))))
      | None => Err KeyError
      end.

  Definition pwx_getcount (c : pwstate) (b : Z) (st en : option Z) : res out :=
    match pw_key c b with
    | Some k => Ok (OCount (rowcount (fun r => (pe_bucket r =? k) && pwx_in_range st en r) (pw_events c)))
    | None => Err KeyError
    end.

  Definition pw_read := read pwx_get.
  Definition pw_readcount := count pwx_getcount.
End PeeweeWindow.

(* what the code reads through its bucket_keys cache (under the store invariant the same
   list as pw_view's) *)
Definition pw_stored (c : pwstate) (b : Z) : option (list event) :=
  match pw_key c b with
  | Some k => Some (map prow_event (filter (fun e => pe_bucket e =? k) (pw_events c)))
  | None => None
  end.

(* an idealised SQLite: the end instant rounded to the nearest millisecond (used for
   examples and refutation witnesses only; the real engine adds float noise) *)
Definition sql_end_nearest (ts dur : Z) : Z := 1000 * ((ts + dur + 500) / 1000).

(* ------------------------------------------------------------------------- *)
(* specification vocabulary (decidable, so that it can also be run) *)

(* e reaches into [ws, we] (closed interval against closed window), each edge optional, with a
   margin m: m > 0 shrinks the window (certainly inside), m < 0 widens it (possibly inside) *)
Definition meets (m : Z) (ws we : option Z) (e : event) : bool :=
  (match ws with Some w => w + m <=? eend e | None => true end) &&
  (match we with Some w => ts e <=? w - m | None => true end).

Definition DELTA : Z := 2000.
