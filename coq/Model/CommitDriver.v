(* Wire format and driver entry of the commit-bookkeeping model (shared by C06 and C18;
   Extract/ExC06.v and Extract/ExC18.v only extract [driver_entry]).  Definitions only.

   micro on the wire:  (0 w) Exec | (1 (ws)) ExecMany | (2) Read | (3) Commit | (4 k) CondCommit
   clk:                (r1 r2 r3)
   op:                 (0 w) CreateBucket | (1 w) UpdateBucket | (2 w1 w2) DeleteBucket
                       (3 w) InsertOne | (4 (ups) (rows)) InsertMany | (5 w) ReplaceLast
                       (6 w) Replace | (7 w) Delete | (8) GetEvent | (9 b) GetEvents
                       (10) GetEventCount | (11) Buckets | (12) GetMetadata | (13) Rejected
                       (14 (ups) (done) rest) InsertManyFailed
   cases:
     (0 lazy t0 ((micro clk) ...))  run from [init [] t0]; answer: one
                                    (|committed| |pending| n last_commit) per micro-step,
                                    then (committed) (pending) of the final state
     (1 op)                         the script [expand op]
     (2 (op ...))                   peewee: per op its write statements [pw_expand op] and
                                    the database (as a length) after each of them; then the
                                    final database *)
From AwVerif Require Import Base.Prelude Base.Sexp Model.Commit.

Definition sMicro (s : sexp) : option micro :=
  match s with
  | L [A 0; A w] => Some (Exec w)
  | L [A 1; ws] => match sZs ws with Some ws => Some (ExecMany ws) | None => None end
  | L [A 2] => Some Read
  | L [A 3] => Some Commit
  | L [A 4; A k] => Some (CondCommit k)
  | _ => None
  end.

Definition micro_s (m : micro) : sexp :=
  match m with
  | Exec w => L [A 0; A w]
  | ExecMany ws => L [A 1; L (map A ws)]
  | Read => L [A 2]
  | Commit => L [A 3]
  | CondCommit k => L [A 4; A k]
  end.

Definition sClk (s : sexp) : option clk :=
  match s with L [A a; A b; A c] => Some (mkClk a b c) | _ => None end.

Definition sTimed (s : sexp) : option (micro * clk) :=
  match s with
  | L [m; c] => match sMicro m, sClk c with Some m, Some c => Some (m, c) | _, _ => None end
  | _ => None
  end.

Definition sOp (s : sexp) : option op :=
  match s with
  | L [A 0; A w] => Some (CreateBucket w)
  | L [A 1; A w] => Some (UpdateBucket w)
  | L [A 2; A w1; A w2] => Some (DeleteBucket w1 w2)
  | L [A 3; A w] => Some (InsertOne w)
  | L [A 4; ups; rows] =>
      match sZs ups, sZs rows with Some u, Some r => Some (InsertMany u r) | _, _ => None end
  | L [A 5; A w] => Some (ReplaceLast w)
  | L [A 6; A w] => Some (Replace w)
  | L [A 7; A w] => Some (Delete w)
  | L [A 8] => Some GetEvent
  | L [A 9; b] => match sBool b with Some b => Some (GetEvents b) | None => None end
  | L [A 10] => Some GetEventCount
  | L [A 11] => Some Buckets
  | L [A 12] => Some GetMetadata
  | L [A 13] => Some Rejected
  | L [A 14; ups; done; A rest] =>
      match sZs ups, sZs done with
      | Some u, Some d => if rest <? 0 then None else Some (InsertManyFailed u d (Z.to_nat rest))
      | _, _ => None
      end
  | _ => None
  end.

Definition state_summary (s : cstate) : sexp :=
  L [A (Z.of_nat (length (committed s))); A (Z.of_nat (length (pending s)));
     A (n_unc s); A (last_commit s)].

(* states after each micro-step, in order *)
Fixpoint run_states (lazy : bool) (s : cstate) (tr : list (micro * clk)) : list cstate * cstate :=
  match tr with
  | [] => ([], s)
  | mc :: rest =>
      let s' := micro_step lazy s mc in
      let '(l, fin) := run_states lazy s' rest in
      (s' :: l, fin)
  end.

Fixpoint pw_states (db : list Z) (ms : list micro) : list Z * list Z :=
  match ms with
  | [] => ([], db)
  | m :: rest =>
      let db' := pw_step db m in
      let '(l, fin) := pw_states db' rest in
      (Z.of_nat (length db') :: l, fin)
  end.

Fixpoint pw_ops (db : list Z) (h : list op) : list sexp * list Z :=
  match h with
  | [] => ([], db)
  | o :: rest =>
      let ms := pw_expand o in
      let '(lens, db') := pw_states db ms in
      let '(l, fin) := pw_ops db' rest in
      (L [L (map micro_s ms); L (map A lens)] :: l, fin)
  end.

Definition driver_entry (s : sexp) : sexp :=
  match s with
  | L [A 0; lz; A t0; tr] =>
      match sBool lz, sList sTimed tr with
      | Some lz, Some tr =>
          let '(states, fin) := run_states lz (init [] t0) tr in
          L [L (map state_summary states); L (map A (committed fin)); L (map A (pending fin))]
      | _, _ => bad_case
      end
  | L [A 1; o] =>
      match sOp o with Some o => L (map micro_s (expand o)) | None => bad_case end
  | L [A 2; h] =>
      match sList sOp h with
      | Some h => let '(l, fin) := pw_ops [] h in L [L l; L (map A fin)]
      | None => bad_case
      end
  | _ => bad_case
  end.
