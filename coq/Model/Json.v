(* The JSON data path of aw-core: CPython 3.12's json.dumps (default arguments) and
   json.loads (default arguments) over lists of code points.  Definitions only.

   Code modelled
     aw_datastore/storages/sqlite.py   json.dumps(event.data) ... json.loads(row[3])
     aw_datastore/storages/peewee.py   datastr = json.dumps(event.data) ... json.loads(self.datastr)
     aw_core/models.py                 to_json_str: json.dumps(self.to_json_dict())
     Lib/json/encoder.py               JSONEncoder(ensure_ascii=True, allow_nan=True, separators ', ' ': '),
                                       py_encode_basestring_ascii, floatstr, int.__repr__
     Lib/json/decoder.py, scanner.py   JSONDecoder(strict=True): loads' BOM test, decode, scan_once, JSONObject,
                                       JSONArray, scanstring (as Modules/_json.c implements it: exactly four hex
                                       digits after \u - py_scanstring's int(esc, 16) would also take "\u+123"),
                                       NUMBER_RE, dict(pairs)

   Conventions
   * a str is [list Z], one Z per code point (0..0x10FFFF; lone surrogates are legal in a Python str);
   * a float is its JSON token: float.__repr__(x) for finite x, NaN / Infinity / -Infinity otherwise
     (floatstr).  json.loads applies float() to the token it scanned; the model keeps the token.
     `float(repr(x)) == x` is CPython's guarantee and stays outside the model (oracle);
   * an int is a Z.  int.__repr__ and int(str) refuse more than 4300 decimal digits
     (sys.get_int_max_str_digits()): ValueError, modelled;
   * dict keys are str (JSON data); a Python dict has distinct keys in insertion order;
   * error classes: JSONDecodeError -> Err ParseError, the plain ValueError of the digit limit ->
     Err ValueError (both are ValueError subclasses in Python; the harness maps them apart);
   * positions (line/column of the error message) are not modelled: the scanners work on the
     remaining suffix of the text;
   * RecursionError of the C encoder/decoder beyond the interpreter's recursion limit (nesting
     depth ~1000) is outside the model. *)
From AwVerif Require Import Base.Prelude.
Open Scope Z_scope.

Inductive jvalue :=
  | JNull
  | JBool (b : bool)
  | JInt (n : Z)
  | JFloat (tok : list Z)
  | JStr (s : list Z)
  | JList (l : list jvalue)
  | JDict (kvs : list (list Z * jvalue)).

(* --- code points ---------------------------------------------------------------- *)
Definition c_dq : Z := 34.      (* double quote *)
Definition c_plus : Z := 43.    (* +  *)
Definition c_comma : Z := 44.   (* ,  *)
Definition c_minus : Z := 45.   (* -  *)
Definition c_dot : Z := 46.     (* .  *)
Definition c_slash : Z := 47.   (* /  *)
Definition c_0 : Z := 48.
Definition c_colon : Z := 58.   (* :  *)
Definition c_E : Z := 69.
Definition c_lbrk : Z := 91.    (* [  *)
Definition c_bs : Z := 92.      (* \  *)
Definition c_rbrk : Z := 93.    (* ]  *)
Definition c_e : Z := 101.
Definition c_u : Z := 117.
Definition c_lbrc : Z := 123.   (* {  *)
Definition c_rbrc : Z := 125.   (* }  *)
Definition t_null : list Z := [110; 117; 108; 108].
Definition t_true : list Z := [116; 114; 117; 101].
Definition t_false : list Z := [102; 97; 108; 115; 101].
Definition t_NaN : list Z := [78; 97; 78].
Definition t_Infinity : list Z := [73; 110; 102; 105; 110; 105; 116; 121].
Definition t_mInfinity : list Z := 45 :: t_Infinity.
Definition t_itemsep : list Z := [44; 32].   (* ", " *)
Definition t_keysep : list Z := [58; 32].    (* ": " *)

Fixpoint str_eqb (a b : list Z) : bool :=
  match a, b with
  | [], [] => true
  | x :: a', y :: b' => (x =? y) && str_eqb a' b'
  | _, _ => false
  end.

(* --- int.__repr__ / int(str): decimal digits through the standard library's Decimal ---- *)
Fixpoint uint_chars (u : Decimal.uint) : list Z :=
  match u with
  | Decimal.Nil => []
  | Decimal.D0 r => 48 :: uint_chars r
  | Decimal.D1 r => 49 :: uint_chars r
  | Decimal.D2 r => 50 :: uint_chars r
  | Decimal.D3 r => 51 :: uint_chars r
  | Decimal.D4 r => 52 :: uint_chars r
  | Decimal.D5 r => 53 :: uint_chars r
  | Decimal.D6 r => 54 :: uint_chars r
  | Decimal.D7 r => 55 :: uint_chars r
  | Decimal.D8 r => 56 :: uint_chars r
  | Decimal.D9 r => 57 :: uint_chars r
  end.

Definition int_chars (i : Decimal.int) : list Z :=
  match i with
  | Decimal.Pos u => uint_chars u
  | Decimal.Neg u => c_minus :: uint_chars u
  end.

(* int.__repr__(n) *)
Definition int_repr (n : Z) : list Z := int_chars (Z.to_int n).

Definition max_str_digits : nat := 4300.
Definition int_abs (i : Decimal.int) : Decimal.uint :=
  match i with Decimal.Pos u => u | Decimal.Neg u => u end.
(* number of decimal digits of |n| <= 4300 *)
Definition int_ok (n : Z) : bool :=
  Nat.leb (length (uint_chars (int_abs (Z.to_int n)))) max_str_digits.

Definition digit_cons (c : Z) (u : Decimal.uint) : Decimal.uint :=
  if c =? 48 then Decimal.D0 u else if c =? 49 then Decimal.D1 u
  else if c =? 50 then Decimal.D2 u else if c =? 51 then Decimal.D3 u
  else if c =? 52 then Decimal.D4 u else if c =? 53 then Decimal.D5 u
  else if c =? 54 then Decimal.D6 u else if c =? 55 then Decimal.D7 u
  else if c =? 56 then Decimal.D8 u else Decimal.D9 u.

Fixpoint chars_uint (l : list Z) : Decimal.uint :=
  match l with
  | [] => Decimal.Nil
  | c :: r => digit_cons c (chars_uint r)
  end.

(* int(text) for a text -?digits (what NUMBER_RE's first group hands to int) *)
Definition parse_int (l : list Z) : Z :=
  match l with
  | c :: r => if c =? c_minus then Z.of_int (Decimal.Neg (chars_uint r))
              else Z.of_int (Decimal.Pos (chars_uint l))
  | [] => 0
  end.

(* --- py_encode_basestring_ascii --------------------------------------------------- *)
Definition hexdigit (d : Z) : Z := if d <? 10 then 48 + d else 87 + d.   (* '{0:04x}': lower case *)
Definition hex4 (n : Z) : list Z :=
  [hexdigit (n / 4096 mod 16); hexdigit (n / 256 mod 16); hexdigit (n / 16 mod 16); hexdigit (n mod 16)].
Definition uescape (n : Z) : list Z := c_bs :: c_u :: hex4 n.

(* ESCAPE_ASCII: a backslash, a double quote, or anything outside space..tilde; ESCAPE_DCT; the replace() closure *)
Definition escape_char (c : Z) : list Z :=
  if c =? 34 then [c_bs; 34]
  else if c =? 92 then [c_bs; 92]
  else if c =? 10 then [c_bs; 110]
  else if c =? 13 then [c_bs; 114]
  else if c =? 9 then [c_bs; 116]
  else if c =? 8 then [c_bs; 98]
  else if c =? 12 then [c_bs; 102]
  else if (32 <=? c) && (c <=? 126) then [c]
  else if c <? 65536 then uescape c
  else let n := c - 65536 in
       uescape (55296 + (n / 1024) mod 1024) ++ uescape (56320 + n mod 1024).

Definition escape_str (s : list Z) : list Z := flat_map escape_char s.
Definition quote (s : list Z) : list Z := c_dq :: escape_str s ++ [c_dq].

(* --- JSONEncoder.encode / iterencode (c_make_encoder), default separators ---------- *)
Fixpoint dumps_text (v : jvalue) : list Z :=
  match v with
  | JNull => t_null
  | JBool true => t_true
  | JBool false => t_false
  | JInt n => int_repr n
  | JFloat t => t
  | JStr s => quote s
  | JList l =>
      c_lbrk ::
      (fix items (l : list jvalue) : list Z :=
         match l with
         | [] => [c_rbrk]
         | x :: t =>
             dumps_text x ++ match t with [] => [c_rbrk] | _ :: _ => t_itemsep ++ items t end
         end) l
  | JDict kvs =>
      c_lbrc ::
      (fix items (l : list (list Z * jvalue)) : list Z :=
         match l with
         | [] => [c_rbrc]
         | (k, x) :: t =>
             quote k ++ t_keysep ++ dumps_text x ++
             match t with [] => [c_rbrc] | _ :: _ => t_itemsep ++ items t end
         end) kvs
  end.

Fixpoint ints_ok (v : jvalue) : bool :=
  match v with
  | JInt n => int_ok n
  | JList l => forallb ints_ok l
  | JDict kvs => forallb (fun kv => ints_ok (snd kv)) kvs
  | _ => true
  end.

(* json.dumps(v): the text, or ValueError when an int has more than 4300 digits *)
Definition dumps (v : jvalue) : res (list Z) :=
  if ints_ok v then Ok (dumps_text v) else Err ValueError.

(* --- scanstring (strict) ---------------------------------------------------------- *)
Definition hexval (c : Z) : option Z :=
  if (48 <=? c) && (c <=? 57) then Some (c - 48)
  else if (97 <=? c) && (c <=? 102) then Some (c - 87)
  else if (65 <=? c) && (c <=? 70) then Some (c - 55)
  else None.

Definition hex4val (a b c d : Z) : option Z :=
  match hexval a, hexval b, hexval c, hexval d with
  | Some x, Some y, Some z, Some w => Some (4096 * x + 256 * y + 16 * z + w)
  | _, _, _, _ => None
  end.

Definition is_high (u : Z) : bool := (55296 <=? u) && (u <=? 56319).   (* D800..DBFF *)
Definition is_low (u : Z) : bool := (56320 <=? u) && (u <=? 57343).    (* DC00..DFFF *)
(* Py_UNICODE_JOIN_SURROGATES *)
Definition join_surrogates (h l : Z) : Z := 65536 + ((h - 55296) * 1024 + (l - 56320)).

(* BACKSLASH *)
Definition backslash (e : Z) : option Z :=
  if e =? 34 then Some 34 else if e =? 92 then Some 92 else if e =? 47 then Some 47
  else if e =? 98 then Some 8 else if e =? 102 then Some 12 else if e =? 110 then Some 10
  else if e =? 114 then Some 13 else if e =? 116 then Some 9 else None.

Definition cons_res (c : Z) (r : res (list Z * list Z)) : res (list Z * list Z) :=
  match r with
  | Ok (s, rest) => Ok (c :: s, rest)
  | Err e => Err e
  | OutOfFuel => OutOfFuel
  end.

(* [s] is the text after the opening quote; result: the decoded string and the text after
   the closing quote *)
Fixpoint scanstring (s : list Z) : res (list Z * list Z) :=
  match s with
  | [] => Err ParseError                                  (* Unterminated string *)
  | c :: r =>
      if c =? c_dq then Ok ([], r)
      else if c =? c_bs then
        match r with
        | [] => Err ParseError                            (* Unterminated string *)
        | e :: r1 =>
            if e =? c_u then
              match r1 with
              | h1 :: h2 :: h3 :: h4 :: r2 =>
                  match hex4val h1 h2 h3 h4 with
                  | None => Err ParseError                (* Invalid \uXXXX escape *)
                  | Some u =>
                      if is_high u then
                        match r2 with
                        | b :: u' :: g1 :: g2 :: g3 :: g4 :: r3 =>
                            if (b =? c_bs) && (u' =? c_u) then
                              match hex4val g1 g2 g3 g4 with
                              | None => Err ParseError    (* Invalid \uXXXX escape *)
                              | Some u2 =>
                                  if is_low u2 then cons_res (join_surrogates u u2) (scanstring r3)
                                  else cons_res u (scanstring r2)
                              end
                            else cons_res u (scanstring r2)
                        | _ => cons_res u (scanstring r2)
                        end
                      else cons_res u (scanstring r2)
                  end
              | _ => Err ParseError                       (* Invalid \uXXXX escape *)
              end
            else
              match backslash e with
              | Some ch => cons_res ch (scanstring r1)
              | None => Err ParseError                    (* Invalid \escape *)
              end
        end
      else if c <? 32 then Err ParseError                 (* Invalid control character *)
      else cons_res c (scanstring r)
  end.

(* --- NUMBER_RE = (-?(?:0|[1-9]\d* ))(\.\d+)?([eE][-+]?\d+)? -------------------------- *)
Definition is_digit (c : Z) : bool := (48 <=? c) && (c <=? 57).

Fixpoint span_digits (s : list Z) : list Z * list Z :=
  match s with
  | [] => ([], [])
  | c :: r => if is_digit c then let (d, r') := span_digits r in (c :: d, r') else ([], s)
  end.

Definition scan_digits1 (s : list Z) : option (list Z * list Z) :=   (* 0|[1-9]\d*  *)
  match s with
  | [] => None
  | c :: r =>
      if c =? c_0 then Some ([c], r)
      else if is_digit c then let (d, r') := span_digits r in Some (c :: d, r')
      else None
  end.

Definition scan_intpart (s : list Z) : option (list Z * list Z) :=
  match s with
  | [] => None
  | c :: r =>
      if c =? c_minus then
        match scan_digits1 r with Some (d, r') => Some (c :: d, r') | None => None end
      else scan_digits1 s
  end.

Definition scan_frac (s : list Z) : list Z * list Z :=                (* (\.\d+)? *)
  match s with
  | c :: d :: r =>
      if (c =? c_dot) && is_digit d then let (ds, r') := span_digits (d :: r) in (c :: ds, r')
      else ([], s)
  | _ => ([], s)
  end.

Definition scan_exp (s : list Z) : list Z * list Z :=                 (* ([eE][-+]?\d+)? *)
  match s with
  | c :: r =>
      if (c =? c_e) || (c =? c_E) then
        let '(sg, r1) :=
          match r with
          | x :: r0 => if (x =? c_plus) || (x =? c_minus) then ([x], r0) else ([], r)
          | [] => ([], r)
          end in
        let (ds, r2) := span_digits r1 in
        match ds with
        | [] => ([], s)
        | _ :: _ => (c :: sg ++ ds, r2)
        end
      else ([], s)
  | [] => ([], s)
  end.

(* match_number: the three groups and the text after the match *)
Definition match_number (s : list Z) : option (list Z * list Z * list Z * list Z) :=
  match scan_intpart s with
  | None => None
  | Some (i, r) =>
      let (f, r1) := scan_frac r in
      let (e, r2) := scan_exp r1 in
      Some (i, f, e, r2)
  end.

Definition is_nil {A} (l : list A) : bool := match l with [] => true | _ => false end.

(* number of digits of the integer group (without the sign) *)
Definition int_group_digits (i : list Z) : nat :=
  match i with
  | c :: r => if c =? c_minus then length r else length i
  | [] => O
  end.

Fixpoint strip_prefix (p s : list Z) : option (list Z) :=
  match p with
  | [] => Some s
  | a :: p' =>
      match s with
      | b :: s' => if a =? b then strip_prefix p' s' else None
      | [] => None
      end
  end.

(* the scalar branches of _scan_once other than strings *)
Definition scan_scalar (s : list Z) : res (jvalue * list Z) :=
  match strip_prefix t_null s with
  | Some r => Ok (JNull, r)
  | None =>
  match strip_prefix t_true s with
  | Some r => Ok (JBool true, r)
  | None =>
  match strip_prefix t_false s with
  | Some r => Ok (JBool false, r)
  | None =>
  match match_number s with
  | Some (i, f, e, r) =>
      if is_nil f && is_nil e then
        if Nat.leb (int_group_digits i) max_str_digits then Ok (JInt (parse_int i), r)
        else Err ValueError                               (* Exceeds the limit (4300 digits) *)
      else Ok (JFloat (i ++ f ++ e), r)
  | None =>
  match strip_prefix t_NaN s with
  | Some r => Ok (JFloat t_NaN, r)
  | None =>
  match strip_prefix t_Infinity s with
  | Some r => Ok (JFloat t_Infinity, r)
  | None =>
  match strip_prefix t_mInfinity s with
  | Some r => Ok (JFloat t_mInfinity, r)
  | None => Err ParseError                                (* Expecting value *)
  end end end end end end end.

(* --- WHITESPACE = [ \t\n\r]* ------------------------------------------------------- *)
Definition is_ws (c : Z) : bool := (c =? 32) || (c =? 9) || (c =? 10) || (c =? 13).
Fixpoint skip_ws (s : list Z) : list Z :=
  match s with
  | [] => []
  | c :: r => if is_ws c then skip_ws r else s
  end.

(* --- dict(pairs): a later pair with an existing key replaces the value in place ------- *)
Fixpoint dict_set (d : list (list Z * jvalue)) (k : list Z) (v : jvalue) : list (list Z * jvalue) :=
  match d with
  | [] => [(k, v)]
  | (k', v') :: t => if str_eqb k' k then (k', v) :: t else (k', v') :: dict_set t k v
  end.
Definition dict_of_pairs (pairs : list (list Z * jvalue)) : list (list Z * jvalue) :=
  fold_left (fun d kv => dict_set d (fst kv) (snd kv)) pairs [].

(* --- _scan_once, JSONArray, JSONObject --------------------------------------------- *)
Definition bind2 {A B} (r : res (A * list Z)) (f : A -> list Z -> res B) : res B :=
  match r with
  | Ok (a, rest) => f a rest
  | Err c => Err c
  | OutOfFuel => OutOfFuel
  end.

Fixpoint scan_value (fuel : nat) (s : list Z) : res (jvalue * list Z) :=
  match fuel with
  | O => OutOfFuel
  | S f =>
      match s with
      | [] => Err ParseError                              (* Expecting value *)
      | c :: r =>
          if c =? c_dq then bind2 (scanstring r) (fun str r' => Ok (JStr str, r'))
          else if c =? c_lbrc then
            match skip_ws r with
            | [] => Err ParseError                        (* Expecting property name *)
            | d :: r2 =>
                if d =? c_rbrc then Ok (JDict [], r2)
                else if d =? c_dq then
                  bind2 (obj_loop f r2) (fun pairs r' => Ok (JDict (dict_of_pairs pairs), r'))
                else Err ParseError                       (* Expecting property name *)
            end
          else if c =? c_lbrk then
            match skip_ws r with
            | [] => Err ParseError                        (* Expecting value *)
            | d :: r2 =>
                if d =? c_rbrk then Ok (JList [], r2)
                else bind2 (arr_loop f (d :: r2)) (fun vs r' => Ok (JList vs, r'))
            end
          else scan_scalar s
      end
  end

(* [s] starts at a value *)
with arr_loop (fuel : nat) (s : list Z) : res (list jvalue * list Z) :=
  match fuel with
  | O => OutOfFuel
  | S f =>
      bind2 (scan_value f s) (fun v r =>
        match skip_ws r with
        | [] => Err ParseError                            (* Expecting ',' delimiter *)
        | d :: r2 =>
            if d =? c_rbrk then Ok ([v], r2)
            else if d =? c_comma then
              bind2 (arr_loop f (skip_ws r2)) (fun vs r' => Ok (v :: vs, r'))
            else Err ParseError                           (* Expecting ',' delimiter *)
        end)
  end

(* [s] is the text after the opening quote of a key *)
with obj_loop (fuel : nat) (s : list Z) : res (list (list Z * jvalue) * list Z) :=
  match fuel with
  | O => OutOfFuel
  | S f =>
      bind2 (scanstring s) (fun key r =>
        match skip_ws r with
        | [] => Err ParseError                            (* Expecting ':' delimiter *)
        | d :: r2 =>
            if d =? c_colon then
              bind2 (scan_value f (skip_ws r2)) (fun v r3 =>
                match skip_ws r3 with
                | [] => Err ParseError                    (* Expecting ',' delimiter *)
                | d2 :: r4 =>
                    if d2 =? c_rbrc then Ok ([(key, v)], r4)
                    else if d2 =? c_comma then
                      match skip_ws r4 with
                      | [] => Err ParseError              (* Expecting property name *)
                      | d3 :: r5 =>
                          if d3 =? c_dq then
                            bind2 (obj_loop f r5) (fun kvs r' => Ok ((key, v) :: kvs, r'))
                          else Err ParseError             (* Expecting property name *)
                      end
                    else Err ParseError                   (* Expecting ',' delimiter *)
                end)
            else Err ParseError                           (* Expecting ':' delimiter *)
        end)
  end.

(* json.loads(s) for a str s: BOM test, JSONDecoder.decode *)
Definition loads_fuel (s : list Z) : nat := S (2 * length s).

Definition loads (s : list Z) : res jvalue :=
  match s with
  | c :: _ => if c =? 65279 then Err ParseError else      (* Unexpected UTF-8 BOM *)
      let s1 := skip_ws s in
      bind2 (scan_value (loads_fuel s1) s1) (fun v r =>
        match skip_ws r with
        | [] => Ok v
        | _ :: _ => Err ParseError                        (* Extra data *)
        end)
  | [] => Err ParseError                                  (* Expecting value *)
  end.

(* --- the domain: Python values that are JSON data ----------------------------------- *)
(* code points of a str; no high surrogate immediately followed by a low surrogate (such a
   str is escaped as a surrogate-pair escape (backslash-u d83d, backslash-u de00) and read back as ONE code point, see Props/C01Json.v) *)
Fixpoint str_ok (s : list Z) : bool :=
  match s with
  | [] => true
  | c :: r =>
      (0 <=? c) && (c <=? 1114111)
      && match r with d :: _ => negb (is_high c && is_low d) | [] => true end
      && str_ok r
  end.

(* what floatstr can produce: NaN, Infinity, -Infinity, or a full match of NUMBER_RE with a
   fraction or an exponent (every float.__repr__ of a finite float has that shape) *)
Definition float_tok_ok (t : list Z) : bool :=
  str_eqb t t_NaN || str_eqb t t_Infinity || str_eqb t t_mInfinity ||
  match match_number t with
  | Some (i, f, e, r) => is_nil r && negb (is_nil f && is_nil e)
  | None => false
  end.

Fixpoint keys_distinct (ks : list (list Z)) : bool :=
  match ks with
  | [] => true
  | k :: t => negb (existsb (str_eqb k) t) && keys_distinct t
  end.

Fixpoint wfb (v : jvalue) : bool :=
  match v with
  | JNull => true
  | JBool _ => true
  | JInt n => int_ok n
  | JFloat t => float_tok_ok t
  | JStr s => str_ok s
  | JList l => forallb wfb l
  | JDict kvs =>
      forallb (fun kv => str_ok (fst kv) && wfb (snd kv)) kvs && keys_distinct (map fst kvs)
  end.

Definition wf (v : jvalue) : Prop := wfb v = true.
