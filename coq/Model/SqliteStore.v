(* Executable model of aw_datastore/storages/sqlite.py (SqliteStorage), every method of
   the AbstractStorage interface, as the code is now: integer-microsecond cells,
   get_events ORDER BY starttime DESC, id DESC, bucket-scoped replace / replace_last /
   delete.  Definitions only.

   Tables are lists of rows kept in rowid order (a new row is appended; AUTOINCREMENT
   ids grow).  Each SQL statement of the source is one relational function below
   (named sql_...), and each method issues them in the order the Python code does.
   The lazy-commit bookkeeping (commit / conditional_commit) does not change what the
   connection itself reads and is modelled separately (C06/C18). *)
From AwVerif Require Import Base.Prelude Model.StoreBase.

Record brow := mkBrow { br_rowid : Z; br_id : Z; br_meta : meta }.
Record erow := mkErow { er_id : Z; er_bucket : Z; er_start : Z; er_end : Z; er_data : Z }.

Record sqstate := mkSq {
  sq_buckets : list brow;
  sq_events : list erow;
  sq_seq_b : Z;      (* sqlite_sequence row of `buckets` (0 while absent) *)
  sq_seq_e : Z }.    (* sqlite_sequence row of `events` *)

Definition sq_init : sqstate := mkSq [] [] 0 0.

Definition with_buckets (c : sqstate) (bs : list brow) (seq : Z) : sqstate :=
  mkSq bs (sq_events c) seq (sq_seq_e c).
Definition with_events (c : sqstate) (es : list erow) (seq : Z) : sqstate :=
  mkSq (sq_buckets c) es (sq_seq_b c) seq.

(* _event_to_us / _rows_to_events: exact integers both ways *)
Definition row_event (r : erow) : event :=
  mkEvent (Some (er_id r)) (er_start r) (er_end r - er_start r) (er_data r).

(* (SELECT rowid FROM buckets WHERE id = ?)  -- scalar sub-select, NULL when no row *)
Definition sql_bucket_rowid (c : sqstate) (b : Z) : option Z :=
  match find (fun r => br_id r =? b) (sq_buckets c) with
  | Some r => Some (br_rowid r)
  | None => None
  end.

(* observation: metadata and events (table order) of bucket b *)
Definition sq_view (c : sqstate) (b : Z) : option (meta * list event) :=
  match find (fun r => br_id r =? b) (sq_buckets c) with
  | Some r => Some (br_meta r,
                    map row_event (filter (fun e => er_bucket e =? br_rowid r) (sq_events c)))
  | None => None
  end.

(* INSERT INTO buckets(id, name, type, client, hostname, created, datastr) VALUES (...) *)
Definition sql_insert_bucket (c : sqstate) (b : Z) (m : meta) : res sqstate :=
  if existsb (fun r => br_id r =? b) (sq_buckets c) then Err IntegrityError   (* id TEXT UNIQUE *)
  else let rid := sq_seq_b c + 1 in
       Ok (with_buckets c (sq_buckets c ++ [mkBrow rid b m]) rid).

(* UPDATE buckets SET <the non-None fields> WHERE id = ? *)
Definition sql_update_bucket (c : sqstate) (b : Z) (ty cl ho na da : option Z) : sqstate :=
  with_buckets c
    (update_where (fun r => br_id r =? b)
       (fun r => mkBrow (br_rowid r) (br_id r) (update_meta not_none ty cl ho na da (br_meta r)))
       (sq_buckets c))
    (sq_seq_b c).

(* DELETE FROM events WHERE bucketrow IN (SELECT rowid FROM buckets WHERE id = ?) *)
Definition sql_delete_events_of (c : sqstate) (b : Z) : sqstate :=
  let rids := map br_rowid (filter (fun r => br_id r =? b) (sq_buckets c)) in
  with_events c
    (delete_where (fun e => existsb (fun rid => er_bucket e =? rid) rids) (sq_events c))
    (sq_seq_e c).

(* DELETE FROM buckets WHERE id = ?   -> (state, cursor.rowcount) *)
Definition sql_delete_bucket (c : sqstate) (b : Z) : sqstate * Z :=
  (with_buckets c (delete_where (fun r => br_id r =? b) (sq_buckets c)) (sq_seq_b c),
   rowcount (fun r => br_id r =? b) (sq_buckets c)).

(* SELECT id, name, type, ... FROM buckets WHERE id = ?   fetchone() *)
Definition sql_select_bucket (c : sqstate) (b : Z) : option brow :=
  find (fun r => br_id r =? b) (sq_buckets c).

(* INSERT INTO events(bucketrow, starttime, endtime, datastr)
   VALUES ((SELECT rowid FROM buckets WHERE id = ?), ?, ?, ?)    -> (state, lastrowid)
   bucketrow INTEGER NOT NULL: a NULL sub-select aborts the statement (nothing is
   written, the sequence is not advanced). *)
Definition sql_insert_event (c : sqstate) (b : Z) (e : event) : res (sqstate * Z) :=
  match sql_bucket_rowid c b with
  | None => Err IntegrityError
  | Some rid =>
      let i := sq_seq_e c + 1 in
      Ok (with_events c (sq_events c ++ [mkErow i rid (ts e) (ts e + dur e) (data e)]) i, i)
  end.

Definition set_cells (r : erow) (e : event) : erow :=
  mkErow (er_id r) (er_bucket r) (ts e) (ts e + dur e) (data e).

(* UPDATE events SET starttime = ?, endtime = ?, datastr = ?
   WHERE id = ? AND bucketrow = (SELECT rowid FROM buckets WHERE id = ?) *)
Definition sql_update_event (c : sqstate) (b : Z) (i : Z) (e : event) : sqstate :=
  let rid := sql_bucket_rowid c b in
  with_events c
    (update_where (fun r => (er_id r =? i) && eq_nullable (er_bucket r) rid)
                  (fun r => set_cells r e) (sq_events c))
    (sq_seq_e c).

(* ORDER BY starttime DESC, id DESC : stable sort on the minor key, then on the major *)
Definition sql_order_start_desc_id_desc (rows : list erow) : list erow :=
  sort_by (fun r => - er_start r) (sort_by (fun r => - er_id r) rows).

(* SELECT id FROM events WHERE bucketrow = (SELECT rowid ...) ORDER BY starttime DESC, id DESC LIMIT 1 *)
Definition sql_newest_id (c : sqstate) (b : Z) : option Z :=
  let rid := sql_bucket_rowid c b in
  match sql_order_start_desc_id_desc
          (select_where (fun r => eq_nullable (er_bucket r) rid) (sq_events c)) with
  | r :: _ => Some (er_id r)
  | [] => None
  end.

(* UPDATE events SET ... WHERE id = (that sub-select) *)
Definition sql_update_newest (c : sqstate) (b : Z) (e : event) : sqstate :=
  let target := sql_newest_id c b in
  with_events c
    (update_where (fun r => eq_nullable (er_id r) target) (fun r => set_cells r e) (sq_events c))
    (sq_seq_e c).

(* DELETE FROM events WHERE id = ? AND bucketrow = (SELECT b.rowid FROM buckets b WHERE b.id = ?) *)
Definition sql_delete_event (c : sqstate) (b : Z) (i : Z) : sqstate * Z :=
  let rid := sql_bucket_rowid c b in
  let p := fun r => (er_id r =? i) && eq_nullable (er_bucket r) rid in
  (with_events c (delete_where p (sq_events c)) (sq_seq_e c), rowcount p (sq_events c)).

(* SELECT ... FROM events WHERE bucketrow = (...) AND id = ? LIMIT 1 *)
Definition sql_select_event (c : sqstate) (b : Z) (i : Z) : list erow :=
  let rid := sql_bucket_rowid c b in
  sql_limit 1 (select_where (fun r => eq_nullable (er_bucket r) rid && (er_id r =? i)) (sq_events c)).

(* window predicate of get_events / get_eventcount: endtime >= ? AND starttime <= ?
   (named so that C03 can refine the float parameters) *)
Definition MAX_TIMESTAMP : Z := 2 ^ 63 - 1.
Definition sq_window_lo (st : option Z) : Z := match st with Some w => w | None => 0 end.
Definition sq_window_hi (en : option Z) : Z := match en with Some w => w | None => MAX_TIMESTAMP end.
Definition sq_in_window (lo hi : Z) (r : erow) : bool := (lo <=? er_end r) && (er_start r <=? hi).

(* SELECT ... WHERE bucketrow = (...) AND endtime >= ? AND starttime <= ?
   ORDER BY starttime DESC, id DESC LIMIT ? *)
Definition sql_select_events (c : sqstate) (b : Z) (lo hi limit : Z) : list erow :=
  let rid := sql_bucket_rowid c b in
  sql_limit limit
    (sql_order_start_desc_id_desc
       (select_where (fun r => eq_nullable (er_bucket r) rid && sq_in_window lo hi r) (sq_events c))).

(* SELECT count( * ) ... *)
Definition sql_count_events (c : sqstate) (b : Z) (lo hi : Z) : Z :=
  let rid := sql_bucket_rowid c b in
  rowcount (fun r => eq_nullable (er_bucket r) rid && sq_in_window lo hi r) (sq_events c).

(* ---- methods ---- *)

Definition sq_get_metadata (c : sqstate) (b : Z) : res out :=
  match sql_select_bucket c b with
  | Some r => Ok (OMeta (br_id r) (br_meta r))
  | None => Err ValueError
  end.

(* replace: the UPDATE, then `return True` *)
Definition sq_replace (c : sqstate) (b i : Z) (e : event) : sqstate := sql_update_event c b i e.

(* for e in events_upsert: self.replace(bucket_id, e.id, e) *)
Fixpoint sq_upserts (c : sqstate) (b : Z) (es : list event) : sqstate :=
  match es with
  | [] => c
  | e :: t => match eid e with
              | Some i => sq_upserts (sq_replace c b i e) b t
              | None => sq_upserts c b t
              end
  end.

(* executemany(INSERT ...): row after row; the first failing row raises *)
Fixpoint sq_executemany_insert (c : sqstate) (b : Z) (es : list event) : sqstate * res out :=
  match es with
  | [] => (c, Ok ONone)
  | e :: t => match sql_insert_event c b e with
              | Ok (c', _) => sq_executemany_insert c' b t
              | Err k => (c, Err k)
              | OutOfFuel => (c, OutOfFuel)
              end
  end.

Definition no_id (e : event) : bool := match eid e with None => true | Some _ => false end.

Definition sq_step (c : sqstate) (o : op) : sqstate * res out :=
  match o with
  | CreateBucket b m =>
      match sql_insert_bucket c b m with
      | Ok c' => (c', sq_get_metadata c' b)
      | Err k => (c, Err k)
      | OutOfFuel => (c, OutOfFuel)
      end
  | UpdateBucket b ty cl ho na da =>
      (* updates, values = zip( *[...]) raises ValueError when every field is None *)
      if negb (not_none ty || not_none cl || not_none ho || not_none na || not_none da)
      then (c, Err ValueError)
      else let c' := sql_update_bucket c b ty cl ho na da in (c', sq_get_metadata c' b)
  | DeleteBucket b =>
      let c1 := sql_delete_events_of c b in
      let '(c2, n) := sql_delete_bucket c1 b in
      (c2, if n =? 1 then Ok ONone else Err ValueError)
  | Buckets => (c, Ok (OBuckets (map (fun r => (br_id r, br_meta r)) (sq_buckets c))))
  | GetMetadata b => (c, sq_get_metadata c b)
  | InsertOne b e =>
      (* the event's own id, if any, is ignored: always a new row *)
      match sql_insert_event c b e with
      | Ok (c', i) => (c', Ok (OEvent (Some (set_eid e (Some i)))))
      | Err k => (c, Err k)
      | OutOfFuel => (c, OutOfFuel)
      end
  | InsertMany b es =>
      let c1 := sq_upserts c b es in
      sq_executemany_insert c1 b (filter no_id es)
  | Replace b i e => (sq_replace c b i e, Ok (OBool true))
  | ReplaceLast b e => (sql_update_newest c b e, Ok (OBool true))
  | Delete b i =>
      let '(c', n) := sql_delete_event c b i in (c', Ok (OBool (n =? 1)))
  | GetEvent b i =>
      (c, Ok (OEvent (match map row_event (sql_select_event c b i) with
                      | e :: _ => Some e
                      | [] => None
                      end)))
  | GetEvents b limit st en =>
      if limit =? 0 then (c, Ok (OEvents []))
      else let limit := if limit <? 0 then -1 else limit in
           (c, Ok (OEvents (map row_event
                              (sql_select_events c b (sq_window_lo st) (sq_window_hi en) limit))))
  | GetEventCount b st en =>
      (c, Ok (OCount (sql_count_events c b (sq_window_lo st) (sq_window_hi en))))
  end.

Definition sq_run (c : sqstate) (h : list op) : sqstate := fold_left (fun c o => fst (sq_step c o)) h c.
