(* Queries over the MemHeap model (C12).  Definitions only.

   (1) Window plumbing: Bucket.get's conversion of the window edges to UTC and their rounding
       (datastore.py), and
       q2_query_bucket / q2_query_bucket_eventcount (aw_query/functions.py) reading the
       window back from the namespace strings that query2.query wrote with isoformat().
       iso8601.parse_date and datetime.isoformat are Section variables.
   (2) A query as a sequence of steps over a state of Model/MemHeap.v: datastore reads
       (fresh copies handed to the namespace = caller-held roots) and built-in calls.  A
       built-in is an arbitrary Section variable [builtin]: given the locations of its
       arguments and the heap it returns a new heap and either the roots of its results or
       None (it raised, possibly after having mutated its arguments). *)
From AwVerif Require Import Base.Prelude Model.MemHeap.
From Coq Require Import Arith.

(* an aware datetime: (instant in us since the epoch, UTC offset in us) *)
Definition adt := (Z * Z)%type.
Definition us_field (d : adt) : Z := (fst d + snd d) mod 1000000.   (* .microsecond *)

(* x.astimezone(timezone.utc): since 49e3288 Bucket.get converts an aware window edge to UTC
   before the rounding arithmetic (same instant, utcoffset 0) *)
Definition to_utc (d : adt) : adt := (fst d, 0).

(* starttime.replace(microsecond=1000 * int(starttime.microsecond / 1000)) *)
Definition round_start (d : adt) : Z :=
  let d := to_utc d in
  let us := us_field d in fst d - us + 1000 * (us / 1000).

(* milliseconds = 1 + int(us/1000); second_offset = int(milliseconds/1000);
   microseconds = (1000*milliseconds) % 1000000;
   endtime.replace(microsecond=microseconds) + timedelta(seconds=second_offset) *)
Definition round_end (d : adt) : Z :=
  let d := to_utc d in
  let us := us_field d in
  let ms := 1 + us / 1000 in
  let so := ms / 1000 in
  let mic := (1000 * ms) mod 1000000 in
  fst d - us + mic + so * 1000000.

(* Bucket.get / Bucket.get_eventcount (get_eventcount does not round) *)
Definition bucket_get (s : state) (b : Z) (limit : Z) (st en : option adt) : res (state * ret) :=
  get_events s b limit (option_map round_start st) (option_map round_end en).

Definition bucket_get_eventcount (s : state) (b : Z) (st en : option adt) : res (state * ret) :=
  get_eventcount s b (option_map fst st) (option_map fst en).

Section Plumbing.
  Variable str : Type.
  Variable isoformat : adt -> str.
  Variable parse_date : str -> option adt.       (* None: iso8601.ParseError *)

  Record namespace := mkNs { ns_start : str; ns_end : str }.

  (* query2.query: namespace["STARTTIME"] = starttime.isoformat(), likewise ENDTIME *)
  Definition query_namespace (st en : adt) : namespace := mkNs (isoformat st) (isoformat en).

  (* _verify_bucket_exists (QueryFunctionException), parse both instants, datastore[b].get.
     The buckets() dicts that _verify_bucket_exists and Datastore.__getitem__ build are
     dropped at once: unreachable garbage is not modelled. *)
  Definition q2_query_bucket (s : state) (ns : namespace) (b : Z) : res (state * ret) :=
    match find_bucket (store s) b with
    | None => Err FunctionError
    | Some _ =>
        match parse_date (ns_start ns), parse_date (ns_end ns) with
        | Some st, Some en => bucket_get s b (-1) (Some st) (Some en)
        | _, _ => Err FunctionError
        end
    end.

  Definition q2_query_bucket_eventcount (s : state) (ns : namespace) (b : Z) : res (state * ret) :=
    match find_bucket (store s) b with
    | None => Err FunctionError
    | Some _ =>
        match parse_date (ns_start ns), parse_date (ns_end ns) with
        | Some st, Some en => bucket_get_eventcount s b (Some st) (Some en)
        | _, _ => Err OtherError          (* iso8601.ParseError is not caught here *)
        end
    end.

  (* ----------------------------------------------------------------------- *)
  Variable builtin : Z -> list loc -> heap -> heap * option (list loc).

  Inductive qstep :=
    | QBuckets                          (* datastore.buckets() *)
    | QMetadata (b : Z)                 (* datastore[b].metadata()  (find_bucket) *)
    | QQueryBucket (b : Z)              (* query_bucket(b) *)
    | QEventcount (b : Z)               (* query_bucket_eventcount(b) *)
    | QBuiltin (f : Z) (args : list nat)  (* f(namespace values ...), literals included *)
    | QRaise.                           (* parse error, unknown name, wrong type: raises
                                           before anything is touched *)

  Fixpoint resolve (held : list loc) (args : list nat) : option (list loc) :=
    match args with
    | [] => Some []
    | a :: t =>
        match nth_error held a, resolve held t with
        | Some l, Some ls => Some (l :: ls)
        | _, _ => None
        end
    end.

  Definition of_read (s : state) (o : res (state * ret)) : state * bool :=
    match o with Ok sr => (fst sr, true) | _ => (s, false) end.

  (* the new state and whether the query goes on *)
  Definition run_qstep (ns : namespace) (s : state) (q : qstep) : state * bool :=
    match q with
    | QBuckets => of_read s (buckets s)
    | QMetadata b => of_read s (get_metadata s b)
    | QQueryBucket b => of_read s (q2_query_bucket s ns b)
    | QEventcount b => of_read s (q2_query_bucket_eventcount s ns b)
    | QBuiltin f args =>
        match resolve (held s) args with
        | None => (s, false)
        | Some ls =>
            let hr := builtin f ls (heap_of s) in
            match snd hr with
            | Some outs => (mkState (fst hr) (store s) (held s ++ outs), true)
            | None => (set_heap s (fst hr), false)
            end
        end
    | QRaise => (s, false)
    end.

  Fixpoint run_query (ns : namespace) (prog : list qstep) (s : state) : state :=
    match prog with
    | [] => s
    | q :: t =>
        let sb := run_qstep ns s q in
        if snd sb then run_query ns t (fst sb) else fst sb
    end.

  (* A program may assign STARTTIME / ENDTIME itself (`ENDTIME = "...";` is an ordinary
     assignment to a namespace entry): the statements that follow run under the new
     namespace.  Such a query is a list of segments, each with the namespace in force;
     it stops at the first step that raises, whichever segment that is in.
     [run_query_b] is [run_query] that also tells whether the end was reached. *)
  Fixpoint run_query_b (ns : namespace) (prog : list qstep) (s : state) : state * bool :=
    match prog with
    | [] => (s, true)
    | q :: t =>
        let sb := run_qstep ns s q in
        if snd sb then run_query_b ns t (fst sb) else (fst sb, false)
    end.

  Fixpoint run_windows (segs : list (namespace * list qstep)) (s : state) : state :=
    match segs with
    | [] => s
    | seg :: t =>
        let sb := run_query_b (fst seg) (snd seg) s in
        if snd sb then run_windows t (fst sb) else fst sb
    end.
End Plumbing.

(* A concrete built-in, for the extracted driver and the non-vacuity example: it
   overwrites the payload of each argument cell with f (keeping the references), then
   either raises (f < 0) or returns a new list cell referring to its arguments. *)
Definition retag (f : Z) (h : heap) (l : loc) : heap :=
  match lookup h l with
  | Some (Cell (TEv i t d) ks) => update h l (Cell (TEv i t (d + f)) ks)
  | Some (Cell (TNode _) ks) => update h l (Cell (TNode f) ks)
  | None => h
  end.

Definition demo_builtin (f : Z) (args : list loc) (h : heap) : heap * option (list loc) :=
  let h1 := fold_left (retag f) args h in
  if f <? 0 then (h1, None)
  else (h1 ++ [Cell (TNode f) args], Some [length h1]).
