(* Model/GroupHash.v - round 2 (seed class "the make-it-hashable step conflates values").

   merge_events_by_keys with the step that turns a value into something a dict key can hold made
   explicit: `h` is applied to the value on its way into the composite key only; the data of the
   group still holds the value itself.  In /repo the step is `tuple(val)` for a list and the
   identity otherwise; on the value domain (str / int / float / bool / None / flat lists of those)
   it is injective on the ==-classes, i.e. on the model's value labels, which is why Model/Group.v
   has no such step.  Definitions only. *)
From AwVerif Require Import Base.Prelude Model.Group.

Definition composite_key_h (h : Z -> Z) (keys : list Z) (d : dict) : list (Z * Z) :=
  flat_map (fun k => match lookup k d with Some v => [(k, h v)] | None => [] end) keys.

Definition merge_step_h (h : Z -> Z) (keys : list Z) (m : list (list (Z * Z) * gev)) (e : gev) :=
  madd keys (composite_key_h h keys (gdata e)) e m.

Definition merge_events_by_keys_h (h : Z -> Z) (events : list gev) (keys : list Z) : list gev :=
  if (Z.of_nat (length keys) <? 1) then events
  else map (fun cg => rebuild (snd cg)) (fold_left (merge_step_h h keys) events []).
