(* The commit model (Model/Commit.v) composed with the relational model of every SQL
   statement of aw_datastore/storages/sqlite.py (Model/SqliteStore.v).  Definitions only.

   State: the tables a reopen after a crash would find ([durable]), the tables the store's
   own connection reads ([live] = durable + the open transaction), and the two bookkeeping
   fields of SqliteStorage.  Every storage method is a script of micro-steps: its SQL
   statements WITH their arguments (meaning = the [sql_*] functions of Model/SqliteStore.v,
   applied to [live]) and its commit()/conditional_commit(k) calls in the order of the
   source (the same shapes as [Commit.expand]; Proofs/CrashStoreProofs.v proves that
   forgetting the arguments gives exactly [Commit.expand]).  A crash at any micro-step
   boundary leaves [durable].

   SQLite's transaction semantics is the oracle, as in Model/Commit.v: a write statement
   changes only the connection's own view until conn.commit() makes that view the durable
   one, atomically; a statement the engine rejects writes nothing; process death loses
   exactly the open transaction. *)
From AwVerif Require Import Base.Prelude Model.Commit.
From AwVerif Require Import Model.StoreBase Model.SqliteStore.
(* [op], [CreateBucket], ... now name the storage interface of Model/StoreBase.v; the token
   model's are written [Commit.op], [Commit.CreateBucket], ... *)

(* ---- the write statements of sqlite.py ---- *)

Inductive stmt :=
  | QInsertBucket (b : Z) (m : meta)                       (* create_bucket *)
  | QUpdateBucket (b : Z) (ty cl ho na da : option Z)      (* update_bucket *)
  | QDeleteEventsOf (b : Z)                                (* delete_bucket, 1st statement *)
  | QDeleteBucket (b : Z)                                  (* delete_bucket, 2nd statement *)
  | QInsertEvent (b : Z) (e : event)                       (* insert_one; one row of insert_many's executemany *)
  | QUpdateEvent (b i : Z) (e : event)                     (* replace *)
  | QUpdateNewest (b : Z) (e : event)                      (* replace_last *)
  | QDeleteEvent (b i : Z).                                (* delete *)

(* what the engine does with one statement: Err = rejected (constraint), nothing written *)
Definition stmt_apply (c : sqstate) (q : stmt) : res sqstate :=
  match q with
  | QInsertBucket b m => sql_insert_bucket c b m
  | QUpdateBucket b ty cl ho na da => Ok (sql_update_bucket c b ty cl ho na da)
  | QDeleteEventsOf b => Ok (sql_delete_events_of c b)
  | QDeleteBucket b => Ok (fst (sql_delete_bucket c b))
  | QInsertEvent b e =>
      match sql_insert_event c b e with
      | Ok (c', _) => Ok c'
      | Err k => Err k
      | OutOfFuel => OutOfFuel
      end
  | QUpdateEvent b i e => Ok (sql_update_event c b i e)
  | QUpdateNewest b e => Ok (sql_update_newest c b e)
  | QDeleteEvent b i => Ok (fst (sql_delete_event c b i))
  end.

(* the tables after the statement (a rejected statement leaves them as they were) *)
Definition stmt_step (c : sqstate) (q : stmt) : sqstate :=
  match stmt_apply c q with Ok c' => c' | _ => c end.

Definition apply_stmts (c : sqstate) (qs : list stmt) : sqstate := fold_left stmt_step qs c.

(* ---- micro-steps with contents ---- *)

Inductive smicro :=
  | SExec (q : stmt)               (* conn.execute / cursor.execute of a write statement *)
  | SExecMany (qs : list stmt)     (* conn.executemany: the rows that went through, in order *)
  | SRead                          (* a SELECT *)
  | SCommit                        (* self.commit() *)
  | SCondCommit (k : Z).           (* self.conditional_commit(k) *)

Record crstate := mkCr {
  durable : sqstate;       (* what a fresh connection / a reopen after a crash reads *)
  live : sqstate;          (* what the store's own connection reads *)
  cr_n : Z;                (* self.num_uncommitted_statements *)
  cr_last : Z }.           (* self.last_commit, microseconds *)

(* def commit(self): self.conn.commit(); self.last_commit = datetime.now();
                     self.num_uncommitted_statements = 0 *)
Definition cr_commit (now : Z) (s : crstate) : crstate := mkCr (live s) (live s) 0 now.

Definition cr_set_n (s : crstate) (n : Z) : crstate := mkCr (durable s) (live s) n (cr_last s).
Definition cr_set_live (s : crstate) (c : sqstate) : crstate := mkCr (durable s) c (cr_n s) (cr_last s).

(* conditional_commit: same text as [Commit.cond_commit], same constants, same clock slots *)
Definition cr_cond_commit (lazy : bool) (k : Z) (c : clk) (s : crstate) : crstate :=
  if lazy then
    let s := cr_set_n s (cr_n s + k) in
    let s := if cr_n s >? THRESHOLD then cr_commit (r1 c) s else s in
    let s := if r2 c - cr_last s >? MAX_AGE then cr_commit (r3 c) s else s in
    s
  else cr_commit (r1 c) s.

Definition cr_step (lazy : bool) (s : crstate) (mc : smicro * clk) : crstate :=
  match fst mc with
  | SExec q => cr_set_live s (stmt_step (live s) q)
  | SExecMany qs => cr_set_live s (apply_stmts (live s) qs)
  | SRead => s
  | SCommit => cr_commit (r1 (snd mc)) s
  | SCondCommit k => cr_cond_commit lazy k (snd mc) s
  end.

Definition cr_run (lazy : bool) (s : crstate) (tr : list (smicro * clk)) : crstate :=
  fold_left (cr_step lazy) tr s.

(* after __init__ on a database file holding the tables d0 (the constructor commits) *)
Definition cr_init (d0 : sqstate) (t0 : Z) : crstate := mkCr d0 d0 0 t0.

(* process death + reopen: the open transaction is gone *)
Definition reopen (s : crstate) : sqstate := durable s.

(* ---- calls and their scripts ---- *)

(* A call of the storage interface, or an insert_many whose bulk statement raises at bind
   time on row number [k] (0-based) of its id-less rows (a start/end that does not fit
   SQLite's 64-bit INTEGER: OverflowError).  [Model/SqliteStore.v] keeps cells in Z and
   has no such row, so the overflowing call is its own constructor; [es] are the events
   of the call without the offending one. *)
Inductive cop :=
  | Std (o : op)
  | BulkOverflow (b : Z) (es : list event) (k : nat)
  (* an insert_many whose UPSERT loop raises at bind time (same OverflowError) on the
     id-carrying event number [k] (0-based among the id-carrying events): the [k] UPDATEs
     before it have run, the bulk statement is never reached, the finally clause counts
     every id-carrying event and every row.  [es] are the events of the call without the
     offending one. *)
  | UpsertOverflow (b : Z) (es : list event) (k : nat).

(* replace / insert_one / replace_last / delete: the statement, then conditional_commit(1) *)
Definition single (q : stmt) : list smicro := [SExec q; SCondCommit 1].

(* for e in events_upsert: self._replace(bucket_id, e.id, e)     (the UPDATE alone: since
   a00ceb1 the upserts are counted by insert_many's one conditional_commit, below) *)
Definition upsert_script (b : Z) (es : list event) : list smicro :=
  flat_map (fun e => match eid e with
                     | Some i => [SExec (QUpdateEvent b i e)]
                     | None => []
                     end) es.

(* events_upsert = [e for e in events if e.id is not None];  len(events_upsert) *)
Definition with_id (es : list event) : list event := filter (fun e => negb (no_id e)) es.
Definition n_upserts (es : list event) : nat := length (filter (fun e => negb (no_id e)) es).

(* try: <the upserts>; executemany(INSERT ..., event_rows)
   finally: conditional_commit(len(events_upsert) + len(event_rows)).
   [nups] = len(events_upsert), [rows] = all rows handed to executemany, [sent] = those before
   the row that raises at bind time (all of them in a normal call).  With an unknown bucket
   the very first row is rejected (NOT NULL bucketrow) and nothing goes through. *)
Definition bulk_script (c : sqstate) (b : Z) (nups : nat) (rows sent : list event) : list smicro :=
  let done := match sql_bucket_rowid c b with Some _ => sent | None => [] end in
  [SExecMany (map (QInsertEvent b) done); SCondCommit (Z.of_nat (nups + length rows))].

(* the micro-steps of a call issued when the connection reads the tables [c] *)
Definition sscript (c : sqstate) (o : cop) : list smicro :=
  match o with
  | Std (CreateBucket b m) =>
      match sql_insert_bucket c b m with
      | Ok _ => [SExec (QInsertBucket b m); SCommit; SRead]
      | _ => []                                   (* duplicate id: IntegrityError, nothing written *)
      end
  | Std (UpdateBucket b ty cl ho na da) =>
      if negb (not_none ty || not_none cl || not_none ho || not_none na || not_none da)
      then []                                     (* ValueError before any statement *)
      else [SExec (QUpdateBucket b ty cl ho na da); SCommit; SRead]
  | Std (DeleteBucket b) => [SExec (QDeleteEventsOf b); SExec (QDeleteBucket b); SCommit]
  | Std Buckets => [SRead]
  | Std (GetMetadata _) => [SRead]
  | Std (InsertOne b e) =>
      match sql_bucket_rowid c b with
      | Some _ => single (QInsertEvent b e)
      | None => []                                (* NOT NULL bucketrow: IntegrityError *)
      end
  | Std (InsertMany b es) =>
      upsert_script b es ++ bulk_script c b (n_upserts es) (filter no_id es) (filter no_id es)
  | Std (Replace b i e) => single (QUpdateEvent b i e)
  | Std (ReplaceLast b e) => single (QUpdateNewest b e)
  | Std (Delete b i) => single (QDeleteEvent b i)
  | Std (GetEvent _ _) => [SCommit; SRead]
  | Std (GetEvents _ limit _ _) => if limit =? 0 then [] else [SCommit; SRead]
  | Std (GetEventCount _ _ _) => [SCommit; SRead]
  | BulkOverflow b es k =>
      (* the offending row is counted: len(event_rows) = the good rows + 1; so are the upserts *)
      upsert_script b es ++
      [SExecMany (map (QInsertEvent b)
                      (match sql_bucket_rowid c b with
                       | Some _ => firstn k (filter no_id es)
                       | None => []
                       end));
       SCondCommit (Z.of_nat (n_upserts es + S (length (filter no_id es))))]
  | UpsertOverflow b es k =>
      (* the UPDATEs of the first k id-carrying events (an UPDATE addressed to an unknown bucket
         matches no row, it is not rejected); no executemany ([SExecMany []] = the token model's
         [ExecMany []], nothing is issued); the offending event is counted *)
      upsert_script b (firstn k (with_id es)) ++
      [SExecMany []; SCondCommit (Z.of_nat (S (n_upserts es) + length (filter no_id es)))]
  end.

(* the connection's own view after a micro-step / a script / a call (commits do not change it) *)
Definition live_micro (c : sqstate) (m : smicro) : sqstate :=
  match m with
  | SExec q => stmt_step c q
  | SExecMany qs => apply_stmts c qs
  | _ => c
  end.
Definition live_after (c : sqstate) (ms : list smicro) : sqstate := fold_left live_micro ms c.
Definition cop_live (c : sqstate) (o : cop) : sqstate := live_after c (sscript c o).
Definition hist_live (c : sqstate) (h : list cop) : sqstate := fold_left cop_live h c.

(* what the call returns to the process: computed from the connection's own view *)
Definition cop_out (c : sqstate) (o : cop) : res out :=
  match o with
  | Std o => snd (sq_step c o)
  | BulkOverflow b es k =>
      match sql_bucket_rowid c b, firstn k (filter no_id es) with
      | None, _ :: _ => Err IntegrityError        (* unknown bucket: the first row is rejected first *)
      | _, _ => Err OtherError                    (* OverflowError when the offending row is bound *)
      end
  | UpsertOverflow _ _ _ => Err OtherError        (* OverflowError when the offending UPDATE is bound *)
  end.

(* the micro-steps of a whole history issued from the tables [c] *)
Fixpoint hist_script (c : sqstate) (h : list cop) : list smicro :=
  match h with
  | [] => []
  | o :: t => sscript c o ++ hist_script (cop_live c o) t
  end.

(* the statements a micro-step sequence issues, in issue order *)
Definition stmts_of_micro (m : smicro) : list stmt :=
  match m with SExec q => [q] | SExecMany qs => qs | _ => [] end.
Definition stmts_of (ms : list smicro) : list stmt := flat_map stmts_of_micro ms.

(* ---- forgetting the contents: the token model of Model/Commit.v ---- *)

Section Forget.
  Variable tokf : stmt -> Z.          (* any naming of statements by tokens *)

  Definition forget_micro (m : smicro) : micro :=
    match m with
    | SExec q => Exec (tokf q)
    | SExecMany qs => ExecMany (map tokf qs)
    | SRead => Read
    | SCommit => Commit
    | SCondCommit k => CondCommit k
    end.

  Definition forget_tr (tr : list (smicro * clk)) : list (micro * clk) :=
    map (fun mc => (forget_micro (fst mc), snd mc)) tr.

  Definition upsert_toks (b : Z) (es : list event) : list Z :=
    flat_map (fun e => match eid e with Some i => [tokf (QUpdateEvent b i e)] | None => [] end) es.

  (* the call of the token model that a call issued on the tables [c] is *)
  Definition forget_op (c : sqstate) (o : cop) : Commit.op :=
    match o with
    | Std (CreateBucket b m) =>
        match sql_insert_bucket c b m with
        | Ok _ => Commit.CreateBucket (tokf (QInsertBucket b m))
        | _ => Commit.Rejected
        end
    | Std (UpdateBucket b ty cl ho na da) =>
        if negb (not_none ty || not_none cl || not_none ho || not_none na || not_none da)
        then Commit.Rejected
        else Commit.UpdateBucket (tokf (QUpdateBucket b ty cl ho na da))
    | Std (DeleteBucket b) => Commit.DeleteBucket (tokf (QDeleteEventsOf b)) (tokf (QDeleteBucket b))
    | Std Buckets => Commit.Buckets
    | Std (GetMetadata _) => Commit.GetMetadata
    | Std (InsertOne b e) =>
        match sql_bucket_rowid c b with
        | Some _ => Commit.InsertOne (tokf (QInsertEvent b e))
        | None => Commit.Rejected
        end
    | Std (InsertMany b es) =>
        match sql_bucket_rowid c b with
        | Some _ => Commit.InsertMany (upsert_toks b es) (map tokf (map (QInsertEvent b) (filter no_id es)))
        | None => Commit.InsertManyFailed (upsert_toks b es) [] (length (filter no_id es))
        end
    | Std (Replace b i e) => Commit.Replace (tokf (QUpdateEvent b i e))
    | Std (ReplaceLast b e) => Commit.ReplaceLast (tokf (QUpdateNewest b e))
    | Std (Delete b i) => Commit.Delete (tokf (QDeleteEvent b i))
    | Std (GetEvent _ _) => Commit.GetEvent
    | Std (GetEvents _ limit _ _) => Commit.GetEvents (limit =? 0)
    | Std (GetEventCount _ _ _) => Commit.GetEventCount
    | BulkOverflow b es k =>
        let done := match sql_bucket_rowid c b with
                    | Some _ => firstn k (filter no_id es)
                    | None => []
                    end in
        Commit.InsertManyFailed (upsert_toks b es) (map tokf (map (QInsertEvent b) done))
                                (S (length (filter no_id es)) - length done)
    | UpsertOverflow b es k =>
        let done := firstn k (with_id es) in
        Commit.InsertManyFailed (upsert_toks b done) []
                                (S (n_upserts es) - length done + length (filter no_id es))
    end.

  Fixpoint forget_hist (c : sqstate) (h : list cop) : list Commit.op :=
    match h with
    | [] => []
    | o :: t => forget_op c o :: forget_hist (cop_live c o) t
    end.
End Forget.
