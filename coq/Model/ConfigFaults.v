(* load_config_toml as an I/O script when the operating system may refuse the READ of the
   existing file (round 5).  Model/Config.v's script has a file system that always answers:
   isfile -> open -> read succeed whenever the file is there.  Here the answer to the
   read-mode open / read of the existing file is a parameter of the run (`read_outcome`):
   EIO on a flaky disk or network home, EACCES on a file the process may write but not read,
   a decoding error.  Everything else is Model/Config.v's script unchanged
   (`load_config_f_faultless`).  Definitions only. *)
From AwVerif Require Import Base.Prelude Model.Config.

Inductive read_outcome :=
  | ReadOk                      (* open(path) and f.read() return the content *)
  | ReadFails (c : errclass).   (* one of them raises; c = class of the exception *)

Inductive io_event_f (text : Type) :=
  | FIsFile (present : bool)
  | FRead                       (* successful open + read *)
  | FReadFailed (c : errclass)  (* open for reading attempted, raised *)
  | FWrite (content : text).
Arguments FIsFile {text} present.
Arguments FRead {text}.
Arguments FReadFailed {text} c.
Arguments FWrite {text} content.

Record load_result_f (text : Type) := mkLoadF {
  lf_value : res table;
  lf_file : option text;
  lf_trace : list (io_event_f text)
}.
Arguments mkLoadF {text} _ _ _.
Arguments lf_value {text} _.
Arguments lf_file {text} _.
Arguments lf_trace {text} _.

Definition lift_event {text} (e : io_event text) : io_event_f text :=
  match e with
  | EvIsFile b => FIsFile b
  | EvRead => FRead
  | EvWrite w => FWrite w
  end.

Definition lift_result {text} (r : load_result text) : load_result_f text :=
  mkLoadF (lr_value r) (lr_file r) (map lift_event (lr_trace r)).

Section LoadF.
  Context {text : Type}.
  Variable parse : text -> res table.
  Variable comment : text -> text.

  (* config.py as it is: `if os.path.isfile(p): with open(p) as f: config = f.read()`; an
     exception of open/read is not caught anywhere in load_config_toml: it leaves the
     function, nothing after it runs. *)
  Definition load_config_f (default : text) (file : option text) (ro : read_outcome)
    : load_result_f text :=
    match parse default with
    | Ok d =>
        match file with
        | Some user =>
            match ro with
            | ReadFails c => mkLoadF (Err c) file [FIsFile true; FReadFailed c]
            | ReadOk =>
                match parse user with
                | Ok u => mkLoadF (Ok (merge d u)) file [FIsFile true; FRead]
                | Err c => mkLoadF (Err c) file [FIsFile true; FRead]
                | OutOfFuel => mkLoadF OutOfFuel file [FIsFile true; FRead]
                end
            end
        | None =>
            let w := comment default in
            mkLoadF (Ok (merge d [])) (Some w) [FIsFile false; FWrite w]
        end
    | Err c => mkLoadF (Err c) file []
    | OutOfFuel => mkLoadF OutOfFuel file []
    end.

  (* NOT the code: the "just try to open it" variant that takes every failure of the read
     for "no file yet" (the class of a seeded change).  Kept to show what the theorem about
     load_config_f excludes (Props/C20Faults.v, C20_read_fault_eafp_variant_breaks). *)
  Definition load_config_eafp (default : text) (file : option text) (ro : read_outcome)
    : load_result_f text :=
    match parse default with
    | Ok d =>
        let first_run :=
          let w := comment default in
          mkLoadF (Ok (merge d [])) (Some w) in
        match file, ro with
        | Some user, ReadOk =>
            match parse user with
            | Ok u => mkLoadF (Ok (merge d u)) file [FRead]
            | Err c => mkLoadF (Err c) file [FRead]
            | OutOfFuel => mkLoadF OutOfFuel file [FRead]
            end
        | Some _, ReadFails c => first_run [FReadFailed c; FWrite (comment default)]
        | None, _ => first_run [FReadFailed OtherError; FWrite (comment default)]
        end
    | Err c => mkLoadF (Err c) file []
    | OutOfFuel => mkLoadF OutOfFuel file []
    end.
End LoadF.

Definition load_lines_f : list line -> option (list line) -> read_outcome -> load_result_f (list line) :=
  load_config_f parse_lines comment_out.
