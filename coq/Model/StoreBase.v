(* Shared vocabulary of the three storage-backend models (MemStore, SqliteStore,
   PeeweeStore) and of the reference model (StoreSpec).  Definitions only.

   Bucket ids, strings (type, client, hostname, name) and data dicts are Z labels.
   Label 0 is reserved for the falsy value of its kind ("" for strings, {} for data):
   memory.py tests `if type_id:` / `if not name:` / `if data`, the SQL back ends test
   `is not None`, so falsiness is the one piece of structure the models need.
   Instants and durations are exact Z microseconds; the time codec is the identity here
   (C01 treats the float / text codecs separately). *)
From AwVerif Require Import Base.Prelude.

Record meta := mkMeta {
  m_type : Z; m_client : Z; m_hostname : Z; m_created : Z;
  m_name : option Z;            (* None = Python None / SQL NULL *)
  m_data : Z }.

Inductive op :=
  | CreateBucket (b : Z) (m : meta)           (* m_name = the name argument, m_data = label of (data or {}) *)
  | UpdateBucket (b : Z) (type client hostname name data : option Z)
  | DeleteBucket (b : Z)
  | Buckets
  | GetMetadata (b : Z)
  | InsertOne (b : Z) (e : event)
  | InsertMany (b : Z) (es : list event)
  | Replace (b : Z) (id : Z) (e : event)
  | ReplaceLast (b : Z) (e : event)
  | Delete (b : Z) (id : Z)
  | GetEvent (b : Z) (id : Z)
  | GetEvents (b : Z) (limit : Z) (starttime endtime : option Z)
  | GetEventCount (b : Z) (starttime endtime : option Z).

(* What a storage method returns.  OMeta carries the "id" entry of the metadata dict. *)
Inductive out :=
  | ONone
  | OEvent (e : option event)
  | OEvents (l : list event)
  | OCount (n : Z)
  | OBool (b : bool)
  | OMeta (b : Z) (m : meta)
  | OBuckets (l : list (Z * meta)).

(* The bucket an operation addresses (Buckets addresses none). *)
Definition target (o : op) : option Z :=
  match o with
  | CreateBucket b _ | UpdateBucket b _ _ _ _ _ | DeleteBucket b | GetMetadata b
  | InsertOne b _ | InsertMany b _ | Replace b _ _ | ReplaceLast b _ | Delete b _
  | GetEvent b _ | GetEvents b _ _ _ | GetEventCount b _ _ => Some b
  | Buckets => None
  end.

Definition is_read (o : op) : bool :=
  match o with
  | Buckets | GetMetadata _ | GetEvent _ _ | GetEvents _ _ _ _ | GetEventCount _ _ _ => true
  | _ => false
  end.

(* Python truthiness of a labelled str / dict *)
Definition truthy (z : Z) : bool := negb (z =? 0).
Definition opt_truthy (o : option Z) : bool :=
  match o with Some z => truthy z | None => false end.

Definition set_type (m : meta) (v : Z) : meta :=
  mkMeta v (m_client m) (m_hostname m) (m_created m) (m_name m) (m_data m).
Definition set_client (m : meta) (v : Z) : meta :=
  mkMeta (m_type m) v (m_hostname m) (m_created m) (m_name m) (m_data m).
Definition set_hostname (m : meta) (v : Z) : meta :=
  mkMeta (m_type m) (m_client m) v (m_created m) (m_name m) (m_data m).
Definition set_name (m : meta) (v : option Z) : meta :=
  mkMeta (m_type m) (m_client m) (m_hostname m) (m_created m) v (m_data m).
Definition set_mdata (m : meta) (v : Z) : meta :=
  mkMeta (m_type m) (m_client m) (m_hostname m) (m_created m) (m_name m) v.

(* "assign when the guard accepts the argument": guard = truthy (memory) or
   is-not-None (SQL back ends) *)
Definition upd_if (guard : option Z -> bool) (o : option Z) (set : meta -> Z -> meta) (m : meta) : meta :=
  match o with
  | Some v => if guard o then set m v else m
  | None => m
  end.
Definition not_none (o : option Z) : bool := match o with Some _ => true | None => false end.

Definition update_meta (guard : option Z -> bool) (ty cl ho na da : option Z) (m : meta) : meta :=
  let m := upd_if guard ty set_type m in
  let m := upd_if guard cl set_client m in
  let m := upd_if guard ho set_hostname m in
  let m := upd_if guard na (fun m v => set_name m (Some v)) m in
  upd_if guard da set_mdata m.

(* ---- association lists keyed by Z (Python dicts in insertion order) ---- *)
Section AList.
  Context {V : Type}.
  Fixpoint aget (k : Z) (l : list (Z * V)) : option V :=
    match l with
    | [] => None
    | (k', v) :: t => if k' =? k then Some v else aget k t
    end.
  (* d[k] = v : an existing key keeps its position, a new key goes last *)
  Fixpoint aset (k : Z) (v : V) (l : list (Z * V)) : list (Z * V) :=
    match l with
    | [] => [(k, v)]
    | (k', v') :: t => if k' =? k then (k, v) :: t else (k', v') :: aset k v t
    end.
  (* del d[k] *)
  Definition adel (k : Z) (l : list (Z * V)) : list (Z * V) :=
    filter (fun kv => negb (fst kv =? k)) l.
  Definition akeys (l : list (Z * V)) : list Z := map fst l.
End AList.

(* ---- relational combinators for the SQL models (tables are lists of rows in
        rowid order) ---- *)
Section Rel.
  Context {R : Type}.
  Definition update_where (p : R -> bool) (f : R -> R) (rows : list R) : list R :=
    map (fun r => if p r then f r else r) rows.
  Definition delete_where (p : R -> bool) (rows : list R) : list R :=
    filter (fun r => negb (p r)) rows.
  Definition select_where (p : R -> bool) (rows : list R) : list R := filter p rows.
  Definition rowcount (p : R -> bool) (rows : list R) : Z :=
    Z.of_nat (length (filter p rows)).
  (* SQL LIMIT n: a negative n means no limit *)
  Definition sql_limit (n : Z) (rows : list R) : list R :=
    if n <? 0 then rows else firstn (Z.to_nat n) rows.
End Rel.

(* `x = (scalar sub-select)`: comparison with NULL is never true *)
Definition eq_nullable (x : Z) (o : option Z) : bool :=
  match o with Some y => x =? y | None => false end.

Definition list_max (x : Z) (t : list Z) : Z := fold_right Z.max x t.

(* last element, scanning structurally *)
Fixpoint last_opt {A} (l : list A) : option A :=
  match l with
  | [] => None
  | [x] => Some x
  | _ :: t => last_opt t
  end.

(* last element satisfying p (the code scans `reversed(list(enumerate(...)))`) *)
Fixpoint find_last {A} (p : A -> bool) (l : list A) : option A :=
  match l with
  | [] => None
  | x :: t => match find_last p t with
              | Some y => Some y
              | None => if p x then Some x else None
              end
  end.

(* remove the last element satisfying p; None when there is none *)
Fixpoint remove_last {A} (p : A -> bool) (l : list A) : option (list A) :=
  match l with
  | [] => None
  | x :: t => match remove_last p t with
              | Some t' => Some (x :: t')
              | None => if p x then Some t else None
              end
  end.

Definition has_id (i : Z) (e : event) : bool :=
  match eid e with Some j => j =? i | None => false end.

(* successive chunks of n elements (peewee's `chunks(ls, 100)`), structurally *)
Fixpoint chunks_aux {A} (n k : nat) (cur : list A) (l : list A) : list (list A) :=
  match l with
  | [] => match cur with [] => [] | _ => [rev cur] end
  | x :: t => match k with
              | S O | O => rev (x :: cur) :: chunks_aux n n [] t
              | S k' => chunks_aux n k' (x :: cur) t
              end
  end.
Definition chunks {A} (n : nat) (l : list A) : list (list A) := chunks_aux n n [] l.

(* ms floor applied by Event's timestamp setter *)
Definition floor_ms (t : Z) : Z := 1000 * (t / 1000).
