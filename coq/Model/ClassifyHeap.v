(* Heap-level (imperative) model of the C19 transforms: aw_transform/classify.py (categorize,
   tag), split_url_events.py and simplify.py as they are in /repo.  Definitions only;
   theorems in Proofs/ClassifyHeap*.v, statements in Props/C19own.v.

   Objects as in Model/TransformHeap.v / Model/DictHeap.v.  Scalar values in a data dict
   carry the label  2*s  for the string with label s  and  2*l+1  for any other immutable
   value with label l (Model/ClassifyBase.v's VStr / VOther); a list of strings
   (`$category`, `$tags`, a rule's category) is a list object without mutable members whose
   payload is [lenc] of the string labels.

   What each function does to the heap:
   categorize / tag       ANNOTATE IN PLACE: e.data["$category"] / e.data["$tags"] = ... is a
                          write into the data dict OBJECT of each listed event; the Event
                          objects, the argument list and the rules are not written; the
                          returned list is a NEW list object of the SAME Event objects.
                          `$category` becomes a reference to the winning rule's category
                          list OBJECT (shared between all events it wins for, and with the
                          caller's rule list) or to a new ["Uncategorized"] list; `$tags` a
                          new list per event.
   split_url_events       in place, six keys of the data dict of every event that has
                          "url"; returns the ARGUMENT LIST OBJECT itself.
   simplify_string        deep-copies the argument first (copy.deepcopy with its memo:
                          [pdeepcopy]) and rewrites data[key] of the COPIES; returns the
                          copied list: nothing that existed is written.
   An exception in the middle of a loop leaves the events handled so far annotated: the
   in-place functions return the heap they reached together with the outcome.
   One iteration either raises before it writes or performs its writes (nothing can raise
   between the six assignments of split_url_events or the three of simplify_string), so an
   iteration is one [wr_dict].

   Outside the model (answered with an error where Python would go on): a category that
   is not a list without mutable members, or that is the very dict it would be stored in
   (Python would build cyclic data; acyclicity is part of the heap invariant). *)
From AwVerif Require Import Base.Prelude Model.MemHeap Model.TransformHeap Model.DictHeap
  Model.ClassifyBase Model.Classify.
From Coq Require Import Arith.
Local Notation lookup := MemHeap.lookup.

(* ------------------------------------------------------------------------- *)
(* values *)

Definition sval (v : Z) : value := if Z.even v then VStr (v / 2) else VOther ((v - 1) / 2).
Definition zs_of_value (v : value) : zval :=
  match v with
  | VStr s => ZS (2 * s)
  | VOther l => ZS (2 * l + 1)
  | VList _ => ZS 1                  (* not produced by urlparse / the substitutions *)
  end.

Definition value_of (h : heap) (v : zval) : res value :=
  match v with
  | ZS x => Ok (sval x)
  | ZK l =>
      match lookup h l with
      | Some (Cell (TNode q) []) => Ok (VList (ldec q))
      | Some (Cell (TNode q) (_ :: _)) => Ok (VOther q)
      | Some (Cell (TEv _ _ _) _) => Ok (VOther (-1))
      | None => Err KeyError
      end
  end.

Fixpoint cdict_of (h : heap) (z : zdict) : res ClassifyBase.dict :=
  match z with
  | [] => Ok []
  | (k, v) :: t => bind (value_of h v) (fun x => bind (cdict_of h t) (fun r => Ok ((k, x) :: r)))
  end.

(* a loop that mutates in place: the heap reached and the outcome *)
Fixpoint each_h (f : heap -> loc -> res heap) (h : heap) (ks : list loc) : heap * res unit :=
  match ks with
  | [] => (h, Ok tt)
  | k :: t =>
      match f h k with
      | Ok h' => each_h f h' t
      | Err c => (h, Err c)
      | OutOfFuel => (h, OutOfFuel)
      end
  end.

Section ClassifyHeap.
  Variable re_search : Z -> bool -> Z -> bool.

  (* len(category) *)
  Definition cat_len (h : heap) (c : loc) : res nat :=
    match lookup h c with
    | Some (Cell (TNode q) []) => Ok (length (ldec q))
    | Some _ => Err TypeError
    | None => Err KeyError
    end.

  (* reduce(_pick_deepest_cat, tags, ["Uncategorized"]) on list objects:
     t2 if len(t2) >= len(t1) else t1 *)
  Fixpoint pick_h (h : heap) (cats : list loc) (acc : loc) : res loc :=
    match cats with
    | [] => Ok acc
    | c :: t =>
        bind (cat_len h c) (fun n2 => bind (cat_len h acc) (fun n1 =>
        pick_h h t (if Z.of_nat n2 >=? Z.of_nat n1 then c else acc)))
    end.

  (* _categorize_one; classes = [(category list object, Rule)] *)
  Definition categorize_one_h (classes : list (loc * rule)) (h : heap) (e : loc) : res heap :=
    bind (rd_data h e) (fun dl => bind (rd_dict h dl) (fun z =>
    bind (cdict_of h z) (fun d =>
    let hu := alloc h (Cell (TNode (lenc [S_uncategorized])) []) in     (* ["Uncategorized"] *)
    bind (pick_h (fst hu) (matching re_search classes d) (snd hu)) (fun c =>
    if Nat.eqb c dl then Err ValueError
    else wr_dict (fst hu) dl (zset K_category (ZK c) z))))).

  Definition categorize_h (h : heap) (L : loc) (classes : list (loc * rule)) : heap * res loc :=
    match list_elems h L with
    | Ok ks =>
        let r := each_h (categorize_one_h classes) h ks in
        match snd r with
        | Ok _ => (fst (new_list (fst r) ks), Ok (snd (new_list (fst r) ks)))
        | Err c => (fst r, Err c)
        | OutOfFuel => (fst r, OutOfFuel)
        end
    | Err c => (h, Err c)
    | OutOfFuel => (h, OutOfFuel)
    end.

  (* _tag_one; classes = [(tag string label, Rule)] *)
  Definition tag_one_h (classes : list (Z * rule)) (h : heap) (e : loc) : res heap :=
    bind (rd_data h e) (fun dl => bind (rd_dict h dl) (fun z =>
    bind (cdict_of h z) (fun d =>
    let ht := alloc h (Cell (TNode (lenc (matching re_search classes d))) []) in
    wr_dict (fst ht) dl (zset K_tags (ZK (snd ht)) z)))).

  Definition tag_h (h : heap) (L : loc) (classes : list (Z * rule)) : heap * res loc :=
    match list_elems h L with
    | Ok ks =>
        let r := each_h (tag_one_h classes) h ks in
        match snd r with
        | Ok _ => (fst (new_list (fst r) ks), Ok (snd (new_list (fst r) ks)))
        | Err c => (fst r, Err c)
        | OutOfFuel => (fst r, OutOfFuel)
        end
    | Err c => (h, Err c)
    | OutOfFuel => (h, OutOfFuel)
    end.
End ClassifyHeap.

Section SplitUrlHeap.
  Variable urlparse : value -> res urlparts.
  Variable starts_www : value -> bool.
  Variable drop4 : value -> value.

  Definition split_zdict (p : urlparts) (z : zdict) : zdict :=
    let z1 := zset K_protocol (zs_of_value (u_scheme p)) z in
    let z2 := zset K_domain (zs_of_value (if starts_www (u_netloc p) then drop4 (u_netloc p)
                                          else u_netloc p)) z1 in
    let z3 := zset K_path (zs_of_value (u_path p)) z2 in
    let z4 := zset K_params (zs_of_value (u_params p)) z3 in
    let z5 := zset K_options (zs_of_value (u_query p)) z4 in
    zset K_identifier (zs_of_value (u_fragment p)) z5.

  Definition split_one_h (h : heap) (e : loc) : res heap :=
    bind (rd_data h e) (fun dl => bind (rd_dict h dl) (fun z =>
    match zget K_url z with
    | None => Ok h
    | Some u =>
        bind (value_of h u) (fun url => bind (urlparse url) (fun p =>
        wr_dict h dl (split_zdict p z)))
    end)).

  (* returns the argument list itself *)
  Definition split_url_events_h (h : heap) (L : loc) : heap * res loc :=
    match list_elems h L with
    | Ok ks =>
        let r := each_h split_one_h h ks in
        match snd r with
        | Ok _ => (fst r, Ok L)
        | Err c => (fst r, Err c)
        | OutOfFuel => (fst r, OutOfFuel)
        end
    | Err c => (h, Err c)
    | OutOfFuel => (h, OutOfFuel)
    end.
End SplitUrlHeap.

Section SimplifyHeap.
  Variable sub_parens : Z -> Z.
  Variable sub_fps : Z -> Z.
  Variable sub_dot : Z -> Z.

  (* e.data[key] = rx.sub(repl, e.data[key]) *)
  Definition zsub (f : Z -> Z) (key : Z) (z : zdict) : res zdict :=
    match zget key z with
    | None => Err KeyError
    | Some (ZS v) => if Z.even v then Ok (zset key (ZS (2 * f (v / 2))) z) else Err TypeError
    | Some (ZK _) => Err TypeError
    end.

  Definition zhas (k : Z) (z : zdict) : bool :=
    match zget k z with Some _ => true | None => false end.

  Definition simplify_zdict (key : Z) (z : zdict) : res zdict :=
    bind (zsub sub_parens key z) (fun z1 =>
    if (key =? K_title) && zhas K_app z1
    then bind (zsub sub_fps key z1) (fun z2 => zsub sub_dot key z2)
    else Ok z1).

  Definition simplify_one_h (key : Z) (h : heap) (e : loc) : res heap :=
    bind (rd_data h e) (fun dl => bind (rd_dict h dl) (fun z =>
    bind (simplify_zdict key z) (fun z' => wr_dict h dl z'))).

  (* events = deepcopy(events); ...; return events.  An exception leaves only copies
     (garbage) behind: all or nothing as far as the caller can see *)
  Definition simplify_string_h (h : heap) (L : loc) (key : Z) : res (heap * loc) :=
    bind (pdeepcopy h L) (fun r1 =>
    bind (list_elems (fst r1) (snd r1)) (fun ks =>
    let r := each_h (simplify_one_h key) (fst r1) ks in
    bind (snd r) (fun _ => Ok (fst r, snd r1)))).
End SimplifyHeap.

(* ------------------------------------------------------------------------- *)
(* Reading a heap back into Model/ClassifyBase.v's events *)

Definition cev_at (h : heap) (l : loc) : option cevent :=
  match lookup h l with
  | Some (Cell (TEv i t d) [dl]) =>
      match rd_dict h dl with
      | Ok z => match cdict_of h z with Ok cd => Some (mkCE i t d cd) | _ => None end
      | _ => None
      end
  | _ => None
  end.

Definition clist_at (h : heap) (L : loc) : option (list cevent) :=
  match lookup h L with
  | Some (Cell (TNode _) ks) => opt_list (map (cev_at h) ks)
  | _ => None
  end.
