(* Executable model of aw_datastore/migration.py (detect_db_files, check_for_migration,
   peewee_v2_to_sqlite_v1) and of the trigger in SqliteStorage.__init__
   (aw_datastore/storages/sqlite.py:82-117), as the code is now (after d8cdcd1: event ids
   are stripped before the bulk insert and the bucket data dict is passed on).
   Definitions only.

   Part 1 -- file names.  A file name is the list of its code points (list Z); "." is 46.
   `filename.split(".")` is modelled by split_dot, which returns the first component and
   the list of the remaining ones, so that `[0]` is total and `[1]` is partial
   (IndexError), as in Python.

   Part 2 -- the copy loop.  The legacy store is a PeeweeStore.pwstate, the new store a
   SqliteStore.sqstate, and every call of the loop is the *same* pw_step / sq_step the
   store refinement (C02) is about.  The statement sequence of the loop body and the
   positional binding of create_bucket's arguments are data (loop_script, create_call):
   tie B re-reads them from migration.py on every run (Bridge/BridgeMigration.v).

   Not modelled (I/O, sampled by the harness through the legacy file's SHA-256):
   PeeweeStorage.__init__'s `create_table(safe=True)` and `auto_migrate` (no-ops on a v2
   file that already has the datastr column); its `update_bucket_keys()` is modelled
   (pw_open).  `created` is an instant label: BucketModel.json() re-prints the stored text
   as `iso8601.parse_date(..).astimezone(utc).isoformat()`, same instant. *)
From AwVerif Require Import Base.Prelude Model.StoreBase Model.SqliteStore Model.PeeweeStore.

(* ------------------------------------------------------------------ *)
(* Part 1: names                                                        *)

Definition name := list Z.

(* String literals are written as code-point lists (the extracted driver must not carry
   Coq's `string` type); Proofs/MigrationNames.v checks each against its text. *)
Definition DOT : Z := 46.

Fixpoint name_eqb (a b : name) : bool :=
  match a, b with
  | [], [] => true
  | x :: a', y :: b' => (x =? y) && name_eqb a' b'
  | _, _ => false
  end.

(* s.split("."): (component 0, [component 1; component 2; ...]) *)
Fixpoint split_dot (s : name) : name * list name :=
  match s with
  | [] => ([], [])
  | c :: t => let '(h, r) := split_dot t in
              if c =? DOT then ([], h :: r) else (c :: h, r)
  end.

Definition component0 (s : name) : name := fst (split_dot s).
Definition component1 (s : name) : res name :=
  match snd (split_dot s) with
  | c :: _ => Ok c
  | [] => Err IndexError            (* filename.split(".")[1] on a name without a dot *)
  end.

(* str(int) *)
Fixpoint uint_codes (d : Decimal.uint) : name :=
  match d with
  | Decimal.Nil => []
  | Decimal.D0 d => 48 :: uint_codes d
  | Decimal.D1 d => 49 :: uint_codes d
  | Decimal.D2 d => 50 :: uint_codes d
  | Decimal.D3 d => 51 :: uint_codes d
  | Decimal.D4 d => 52 :: uint_codes d
  | Decimal.D5 d => 53 :: uint_codes d
  | Decimal.D6 d => 54 :: uint_codes d
  | Decimal.D7 d => 55 :: uint_codes d
  | Decimal.D8 d => 56 :: uint_codes d
  | Decimal.D9 d => 57 :: uint_codes d
  end.
Definition int_str (v : Z) : name :=
  match Z.to_int v with
  | Decimal.Pos d => uint_codes d
  | Decimal.Neg d => 45 :: uint_codes d
  end.

(* f"v{version}" *)
Definition VERSION_PREFIX : name := [118]  (* "v" *).
Definition vtag (v : Z) : name := VERSION_PREFIX ++ int_str v.

(* [x for x in l if p x] where p may raise: the first raising element aborts *)
Fixpoint filter_res {X} (p : X -> res bool) (l : list X) : res (list X) :=
  match l with
  | [] => Ok []
  | x :: t => match p x with
              | Ok b => match filter_res p t with
                        | Ok r => Ok (if b then x :: r else r)
                        | Err k => Err k
                        | OutOfFuel => OutOfFuel
                        end
              | Err k => Err k
              | OutOfFuel => OutOfFuel
              end
  end.

Definition str_truthy (s : name) : bool := match s with [] => false | _ => true end.

(* which component detect_db_files compares with the name / with the version tag *)
Definition NAME_COMPONENT : nat := 0.
Definition VERSION_COMPONENT : nat := 1.

(* detect_db_files(data_dir, datastore_name, version); listing = os.listdir(data_dir) *)
Definition detect_db_files (listing : list name) (datastore_name : option name) (version : option Z)
  : res (list name) :=
  let db_files := listing in
  let db_files :=
    match datastore_name with
    | Some n => if str_truthy n then filter (fun f => name_eqb (component0 f) n) db_files else db_files
    | None => db_files
    end in
  match version with
  | Some v =>
      if v =? 0 then Ok db_files          (* `if version:` *)
      else filter_res (fun f => match component1 f with
                                | Ok c => Ok (name_eqb c (vtag v))
                                | Err k => Err k
                                | OutOfFuel => OutOfFuel
                                end) db_files
  | None => Ok db_files
  end.

Definition SID_SQLITE : name := [115; 113; 108; 105; 116; 101]  (* "sqlite" *).
Definition PEEWEE_TYPE : name := [112; 101; 101; 119; 101; 101; 45; 115; 113; 108; 105; 116; 101]  (* "peewee-sqlite" *).
Definition TESTING_SUFFIX : name := [45; 116; 101; 115; 116; 105; 110; 103]  (* "-testing" *).
Definition PEEWEE_MIGRATE_VERSION : Z := 2.

Definition pw_ds_name (testing : bool) : name :=
  PEEWEE_TYPE ++ (if testing then TESTING_SUFFIX else []).

(* check_for_migration(datastore): does it call peewee_v2_to_sqlite_v1(datastore)? *)
Definition check_for_migration (sid : name) (testing : bool) (listing : list name) : res bool :=
  if name_eqb sid SID_SQLITE then
    match detect_db_files listing (Some (pw_ds_name testing)) (Some PEEWEE_MIGRATE_VERSION) with
    | Ok l => Ok (0 <? Z.of_nat (length l))
    | Err k => Err k
    | OutOfFuel => OutOfFuel
    end
  else Ok false.

(* default file names of the two stores *)
Definition SQLITE_LATEST_VERSION : Z := 1.
Definition PEEWEE_LATEST_VERSION : Z := 2.
Definition DB_EXT : name := [46; 100; 98]  (* ".db" *).
Definition sq_ds_name (testing : bool) : name :=
  SID_SQLITE ++ (if testing then TESTING_SUFFIX else []).
Definition sq_filename (testing : bool) : name :=
  sq_ds_name testing ++ (DOT :: vtag SQLITE_LATEST_VERSION) ++ DB_EXT.
Definition pw_filename (testing : bool) : name :=
  pw_ds_name testing ++ (DOT :: vtag PEEWEE_LATEST_VERSION) ++ DB_EXT.

(* what `sqlite3.connect`, the CREATEs, `PRAGMA journal_mode=WAL` and the first commit have
   added to the data dir when check_for_migration lists it (observed: the database file only;
   its -wal / -shm companions appear with the first write in WAL mode, i.e. later) *)
Definition sq_created_files (testing : bool) : list name := [sq_filename testing].

Inductive sqpath :=
  | DefaultPath                       (* filepath=None: <data dir>/sqlite[-testing].v1.db *)
  | CustomPath (already_exists : bool).

Definition new_db_file (testing : bool) (p : sqpath) (listing : list name) : bool :=
  match p with
  | DefaultPath => negb (existsb (name_eqb (sq_filename testing)) listing)
  | CustomPath e => negb e
  end.

(* SqliteStorage.__init__ up to and including check_for_migration(self): is
   peewee_v2_to_sqlite_v1 called?  listing = the data dir before the constructor runs. *)
Definition sq_init_migrates (testing : bool) (p : sqpath) (listing : list name) : res bool :=
  let ignore_migration_check := match p with CustomPath _ => true | DefaultPath => false end in
  if new_db_file testing p listing && negb ignore_migration_check
  then check_for_migration SID_SQLITE testing (listing ++ sq_created_files testing)
  else Ok false.

(* ------------------------------------------------------------------ *)
(* Part 2: peewee_v2_to_sqlite_v1                                       *)

(* PeeweeStorage(datastore.testing): the tables are those of the file; the constructor
   fills the bucket_keys cache *)
Definition pw_open (pw : pwstate) : pwstate := refresh_keys pw.

(* event.id = None *)
Definition strip_id (e : event) : event := set_eid e None.

(* The value migration.py passes at each positional parameter of
   SqliteStorage.create_bucket(bucket_id, type_id, client, hostname, created, name, data):
   a field of the legacy bucket dict `bucket`. *)
Inductive bfield := BId | BType | BClient | BHostname | BCreated | BName | BData.

Record create_call := mkCreateCall {
  cc_bucket_id : bfield; cc_type_id : bfield; cc_client : bfield; cc_hostname : bfield;
  cc_created : bfield; cc_name : bfield; cc_data : bfield }.

Definition CREATE_CALL : create_call := mkCreateCall BId BType BClient BHostname BCreated BName BData.

(* dynamic values of the fields of a legacy bucket dict (Python is untyped: a transposed
   call passes a str where a dict is expected, and so on) *)
Inductive bval := VStr (z : Z) | VOptStr (o : option Z) | VDict (z : Z).

Definition bget (b : Z) (m : meta) (f : bfield) : bval :=
  match f with
  | BId => VStr b
  | BType => VStr (m_type m)
  | BClient => VStr (m_client m)
  | BHostname => VStr (m_hostname m)
  | BCreated => VStr (m_created m)
  | BName => VOptStr (m_name m)
  | BData => VDict (m_data m)
  end.

(* What sqlite's create_bucket does with a value of the wrong kind is outside the store
   model (the op type is typed); such a call is TypeError here and no theorem relies on
   it (CREATE_CALL is well-kinded, see create_op_ok). *)
Definition as_str (v : bval) : res Z :=
  match v with VStr z => Ok z | VOptStr (Some z) => Ok z | _ => Err TypeError end.
Definition as_optstr (v : bval) : res (option Z) :=
  match v with VStr z => Ok (Some z) | VOptStr o => Ok o | VDict _ => Err TypeError end.
Definition as_dict (v : bval) : res Z :=
  match v with VDict z => Ok z | _ => Err TypeError end.

Definition create_op (cc : create_call) (b : Z) (m : meta) : res op :=
  bind (as_str (bget b m (cc_bucket_id cc))) (fun id =>
  bind (as_str (bget b m (cc_type_id cc))) (fun ty =>
  bind (as_str (bget b m (cc_client cc))) (fun cl =>
  bind (as_str (bget b m (cc_hostname cc))) (fun ho =>
  bind (as_str (bget b m (cc_created cc))) (fun cr =>
  bind (as_optstr (bget b m (cc_name cc))) (fun na =>
  bind (as_dict (bget b m (cc_data cc))) (fun da =>
  Ok (CreateBucket id (mkMeta ty cl ho cr na da))))))))).

(* the statements of the loop body, in source order *)
Inductive mstep :=
  | MCreateBucket (cc : create_call)     (* datastore.create_bucket(bucket[..], ...) *)
  | MGetEvents (limit : Z)               (* bucket_events = pw_db.get_events(bucket_id, limit) *)
  | MStripIds                            (* for event in bucket_events: event.id = None *)
  | MInsertMany.                         (* datastore.insert_many(bucket_id, bucket_events) *)

Definition LOOP_SCRIPT : list mstep :=
  [MCreateBucket CREATE_CALL; MGetEvents (-1); MStripIds; MInsertMany].

(* state of one loop iteration: both stores and the local `bucket_events`
   (None = not yet assigned: using it is Python's UnboundLocalError/NameError) *)
Record mstate := mkM { ms_pw : pwstate; ms_sq : sqstate; ms_events : option (list event) }.

Definition res_unit {X} (r : res X) : res unit :=
  match r with Ok _ => Ok tt | Err k => Err k | OutOfFuel => OutOfFuel end.

Definition run_mstep (b : Z) (m : meta) (s : mstate) (st : mstep) : mstate * res unit :=
  match st with
  | MCreateBucket cc =>
      match create_op cc b m with
      | Ok o => let '(sq', r) := sq_step (ms_sq s) o in
                (mkM (ms_pw s) sq' (ms_events s), res_unit r)
      | Err k => (s, Err k)
      | OutOfFuel => (s, OutOfFuel)
      end
  | MGetEvents limit =>
      match pw_step (ms_pw s) (GetEvents b limit None None) with
      | (pw', Ok (OEvents es)) => (mkM pw' (ms_sq s) (Some es), Ok tt)
      | (pw', Ok _) => (mkM pw' (ms_sq s) (ms_events s), Err OtherError)   (* get_events returns a list *)
      | (pw', Err k) => (mkM pw' (ms_sq s) (ms_events s), Err k)
      | (pw', OutOfFuel) => (mkM pw' (ms_sq s) (ms_events s), OutOfFuel)
      end
  | MStripIds =>
      match ms_events s with
      | Some es => (mkM (ms_pw s) (ms_sq s) (Some (map strip_id es)), Ok tt)
      | None => (s, Err OtherError)
      end
  | MInsertMany =>
      match ms_events s with
      | Some es => let '(sq', r) := sq_step (ms_sq s) (InsertMany b es) in
                   (mkM (ms_pw s) sq' (ms_events s), res_unit r)
      | None => (s, Err OtherError)
      end
  end.

(* statements in sequence; the first exception leaves the loop (and the function) *)
Fixpoint run_script (b : Z) (m : meta) (s : mstate) (script : list mstep) : mstate * res unit :=
  match script with
  | [] => (s, Ok tt)
  | st :: t => match run_mstep b m s st with
               | (s', Ok _) => run_script b m s' t
               | (s', r) => (s', r)
               end
  end.

(* for bucket_id in buckets: <script> *)
Fixpoint migrate_buckets (script : list mstep) (pw : pwstate) (sq : sqstate) (bs : list (Z * meta))
  : pwstate * sqstate * res unit :=
  match bs with
  | [] => (pw, sq, Ok tt)
  | (b, m) :: t =>
      match run_script b m (mkM pw sq None) script with
      | (s', Ok _) => migrate_buckets script (ms_pw s') (ms_sq s') t
      | (s', r) => (ms_pw s', ms_sq s', r)
      end
  end.

(* peewee_v2_to_sqlite_v1(datastore): pw = the legacy file's tables, sq = the new store.
   Returns the legacy store as the function leaves it, the new store, and whether an
   exception escaped. *)
Definition migrate_with (script : list mstep) (pw : pwstate) (sq : sqstate) : pwstate * sqstate * res unit :=
  let pw0 := pw_open pw in
  match pw_step pw0 Buckets with
  | (pw1, Ok (OBuckets bs)) => migrate_buckets script pw1 sq bs
  | (pw1, Ok _) => (pw1, sq, Err OtherError)          (* buckets() returns a dict *)
  | (pw1, Err k) => (pw1, sq, Err k)
  | (pw1, OutOfFuel) => (pw1, sq, OutOfFuel)
  end.

Definition migrate (pw : pwstate) (sq : sqstate) : pwstate * sqstate * res unit :=
  migrate_with LOOP_SCRIPT pw sq.

(* ------------------------------------------------------------------ *)
(* Part 3: SqliteStorage(testing, filepath) seen from the data directory.
   listing  = names in the data dir before the call,
   pw       = tables of the legacy file of the SAME profile (pw_init when that file does
              not exist: PeeweeStorage then creates an empty one),
   existing = tables of the sqlite file when it already exists.
   An exception raised by the migration escapes from the constructor. *)
Definition sqlite_open (testing : bool) (p : sqpath) (listing : list name)
           (pw : pwstate) (existing : sqstate) : pwstate * sqstate * res unit :=
  let sq0 := if new_db_file testing p listing then sq_init else existing in
  match sq_init_migrates testing p listing with
  | Ok true => migrate pw sq0
  | Ok false => (pw, sq0, Ok tt)
  | Err k => (pw, sq0, Err k)
  | OutOfFuel => (pw, sq0, OutOfFuel)
  end.
