(* Heap-level (imperative) model of the transforms whose properties carry an "inputs are
   not modified" clause: aw_transform/flood.py (C10), union_no_overlap.py (C15),
   filter_period_intersect.py: filter_period_intersect and period_union (C09).
   Definitions only; the theorems are in Proofs/TransformHeap*.v.

   Objects.  The heap, cells, locations, [lookup]/[alloc]/[update] are those of
   Model/MemHeap.v: one cell per *mutable* Python object.
     Cell (TEv id ts dur) [d]   an aw_core.models.Event (a dict subclass); its only mutable
                                member is the `data` dict, at location d.  The property
                                setters assign into the Event's own dict, so
                                `e.timestamp = x` (floors to the millisecond),
                                `e.duration = x` and `e.data = x` are cell updates.
     Cell (TNode p) ks          a dict or a list.  For a *data dict* p is the label of the
                                Python-== class of the whole value (nested members
                                included; the harness assigns it), ks are its nested
                                mutable members (dicts/lists), which exist in the model
                                only because they can be shared and are copied by deepcopy.
                                None of the four transforms writes into a data dict, so the
                                label stays valid.  For an *event list* (the `events`
                                argument, the returned list) ks are its elements in order.
   Python lists that a transform creates and never hands out (the result of sorted(), the
   deep-copied argument lists, events_union/merged_events while they are built) are
   Gallina lists of locations; the returned list is allocated as a cell on return.
   Timeslot objects never escape and are values (Model/Timeslot.v).

   copy.deepcopy keeps a memo (id -> copy) for the duration of one top-level call: an object
   reachable twice is copied once and the copy is shared the same way ([mcopy]).  This is
   what makes the same Event object occurring twice in the argument of flood one object
   in the working list, which the in-place walk then mutates through both positions.
   The model allocates a copy after its members (Python allocates it first and fills it:
   the difference is only the order of allocation, which is unobservable, and that Python
   also copies cyclic values: cyclic data is outside the model, as in Model/MemHeap.v).
   The recursion is on explicit fuel (heap size + 1, enough on closed acyclic heaps:
   Proofs/TransformHeapCopy.v, [mcopy_total]).

   Every read of a field goes through the heap at the moment the source reads it, so
   that aliasing (the same object twice in a list, e1 is e2) changes what the model does
   exactly where it changes what the code does. *)
From AwVerif Require Import Base.Prelude Model.MemHeap Model.Timeslot.
From Coq Require Import Arith.

(* ------------------------------------------------------------------------- *)
(* copy.deepcopy with its memo *)

Definition memo := list (loc * loc).

Fixpoint mfind (m : memo) (l : loc) : option loc :=
  match m with
  | [] => None
  | (a, b) :: t => if Nat.eqb a l then Some b else mfind t l
  end.

Fixpoint mthread (f : heap -> memo -> loc -> res (heap * memo * loc)) (h : heap) (m : memo)
                 (ks : list loc) : res (heap * memo * list loc) :=
  match ks with
  | [] => Ok (h, m, [])
  | k :: t =>
      bind (f h m k) (fun r =>
      bind (mthread f (fst (fst r)) (snd (fst r)) t) (fun rt =>
      Ok (fst (fst rt), snd (fst rt), snd r :: snd rt)))
  end.

Fixpoint mcopy (fuel : nat) (h : heap) (m : memo) (l : loc) : res (heap * memo * loc) :=
  match fuel with
  | O => OutOfFuel
  | S f =>
      match mfind m l with
      | Some l' => Ok (h, m, l')                         (* y = memo.get(id(x)) *)
      | None =>
          match lookup h l with
          | None => Err KeyError                         (* dangling: excluded by [closed] *)
          | Some (Cell t ks) =>
              bind (mthread (mcopy f) h m ks) (fun r =>
              let hl := alloc (fst (fst r)) (Cell t (snd r)) in
              Ok (fst hl, (l, snd hl) :: snd (fst r), snd hl))
          end
      end
  end.

(* one top-level call deepcopy(x): a new, empty memo *)
Definition deepcopy_memo (h : heap) (l : loc) : res (heap * memo * loc) :=
  mcopy (fuel_of h) h [] l.

Definition pdeepcopy (h : heap) (l : loc) : res (heap * loc) :=
  bind (deepcopy_memo h l) (fun r => Ok (fst (fst r), snd r)).

(* ------------------------------------------------------------------------- *)
(* Event attributes and list objects *)

Definition floor_ms (t : Z) : Z := 1000 * (t / 1000).

(* the fields of the Event at l: (id, timestamp, duration, location of data).  Anything else
   in an event list has no .timestamp/.duration: AttributeError. *)
Definition ev_fields (h : heap) (l : loc) : res (option Z * Z * Z * loc) :=
  match lookup h l with
  | Some (Cell (TEv i t d) [dl]) => Ok (i, t, d, dl)
  | Some _ => Err AttributeError
  | None => Err KeyError
  end.

Definition rd_ts (h : heap) (l : loc) : res Z :=
  bind (ev_fields h l) (fun f => Ok (snd (fst (fst f)))).
Definition rd_dur (h : heap) (l : loc) : res Z :=
  bind (ev_fields h l) (fun f => Ok (snd (fst f))).
Definition rd_data (h : heap) (l : loc) : res loc :=
  bind (ev_fields h l) (fun f => Ok (snd f)).

(* the == class of a data dict *)
Definition data_label (h : heap) (d : loc) : res Z :=
  match lookup h d with
  | Some (Cell (TNode p) _) => Ok p
  | Some _ => Err TypeError
  | None => Err KeyError
  end.

(* e1.data == e2.data *)
Definition data_eq (h : heap) (e1 e2 : loc) : res bool :=
  bind (rd_data h e1) (fun d1 => bind (data_label h d1) (fun p1 =>
  bind (rd_data h e2) (fun d2 => bind (data_label h d2) (fun p2 =>
  Ok (p1 =? p2))))).

(* e.timestamp = t : the setter stores _timestamp_parse(t), floored to the millisecond *)
Definition wr_ts (h : heap) (l : loc) (t : Z) : res heap :=
  match lookup h l with
  | Some (Cell (TEv i _ d) ks) => Ok (update h l (Cell (TEv i (floor_ms t) d) ks))
  | Some _ => Err AttributeError
  | None => Err KeyError
  end.

(* e.duration = d : a timedelta is stored as it is *)
Definition wr_dur (h : heap) (l : loc) (d : Z) : res heap :=
  match lookup h l with
  | Some (Cell (TEv i t _) ks) => Ok (update h l (Cell (TEv i t d) ks))
  | Some _ => Err AttributeError
  | None => Err KeyError
  end.

(* e.data = {} : a new empty dict; the old data dict is not touched *)
Definition clear_data (h : heap) (l : loc) : res heap :=
  match lookup h l with
  | Some (Cell (TEv i t d) _) =>
      let hd := alloc h (Cell (TNode EMPTY_DICT) []) in
      Ok (update (fst hd) l (Cell (TEv i t d) [snd hd]))
  | Some _ => Err AttributeError
  | None => Err KeyError
  end.

(* the elements of a list object *)
Definition list_elems (h : heap) (L : loc) : res (list loc) :=
  match lookup h L with
  | Some (Cell (TNode _) ks) => Ok ks
  | Some _ => Err AttributeError
  | None => Err KeyError
  end.

Definition new_list (h : heap) (ks : list loc) : heap * loc :=
  alloc h (Cell (TNode EVENT_LIST) ks).

(* sorted(events, key=lambda e: e.timestamp), events.sort(key=...), and sorted(events) with
   Event.__lt__ (timestamp <): the keys are read from the heap, the sort is stable, the
   result is a new list of the same objects *)
Definition keyed (h : heap) (ks : list loc) : res (list (Z * loc)) :=
  map_res (fun l => bind (rd_ts h l) (fun t => Ok (t, l))) ks.

Definition sorted_ts (h : heap) (ks : list loc) : res (list loc) :=
  bind (keyed h ks) (fun kl => Ok (map snd (sort_by fst kl))).

(* sorted(events) without a key compares elements with Event.__lt__ (timestamp <): the same
   stable sort.  The only difference is the exception for a non-Event element: comparing it
   raises TypeError (as soon as there are two elements to compare), where reading
   .timestamp raises AttributeError; a single element is never compared, and the code
   that follows (`.sort(key=...)`, `event.data = {}`) raises AttributeError on it. *)
Definition sorted_lt (h : heap) (ks : list loc) : res (list loc) :=
  match sorted_ts h ks with
  | Err AttributeError => if Nat.leb 2 (length ks) then Err TypeError else Err AttributeError
  | r => r
  end.

Fixpoint filter_res {X} (f : X -> res bool) (l : list X) : res (list X) :=
  match l with
  | [] => Ok []
  | x :: t => bind (f x) (fun b => bind (filter_res f t) (fun r => Ok (if b then x :: r else r)))
  end.

(* ------------------------------------------------------------------------- *)
(* aw_transform/flood.py *)

Definition negative_gap_trim_thres : Z := 100000.

(* one iteration of `for e1, e2 in zip(events[:-1], events[1:])`; e1 and e2 are locations
   (they are the same location when the same object stands at both positions); every
   assignment is performed in source order and every read after an assignment re-reads *)
Definition flood_step_h (pt : Z) (h : heap) (ws wu : bool) (e1 e2 : loc) : res (heap * (bool * bool)) :=
  bind (rd_ts h e2) (fun t2 => bind (rd_ts h e1) (fun t1 => bind (rd_dur h e1) (fun d1 =>
  let gap := t2 - (t1 + d1) in
  if gap =? 0 then Ok (h, (ws, wu))
  else
  bind (if gap <? 0 then data_eq h e1 e2 else Ok false) (fun neg_same =>
  if neg_same then
    (* start = min(e1.timestamp, e2.timestamp); end = max(e1 end, e2 end)
       e1.timestamp, e1.duration = start, (end - start)
       e2.timestamp, e2.duration = end, timedelta(0) *)
    bind (rd_dur h e2) (fun d2 =>
    let start := Z.min t1 t2 in
    let end_ := Z.max (t1 + d1) (t2 + d2) in
    bind (wr_ts h e1 start) (fun h1 => bind (wr_dur h1 e1 (end_ - start)) (fun h2 =>
    bind (wr_ts h2 e2 end_) (fun h3 => bind (wr_dur h3 e2 0) (fun h4 =>
    Ok (h4, (true, wu)))))))
  else if (gap <? - negative_gap_trim_thres) && negb wu then Ok (h, (ws, true))
  else if (- negative_gap_trim_thres <? gap) && (gap <=? pt) then
    bind (rd_dur h e2) (fun d2 =>
    let e2_end := t2 + d2 in
    bind (data_eq h e1 e2) (fun same =>
    if d1 >=? d2 then
      if same then
        (* e1.duration = e2_end - e1.timestamp; e2.timestamp = e2_end; e2.duration = 0 *)
        bind (wr_dur h e1 (e2_end - t1)) (fun h1 =>
        bind (wr_ts h1 e2 e2_end) (fun h2 => bind (wr_dur h2 e2 0) (fun h3 =>
        Ok (h3, (ws, wu)))))
      else
        (* e1.duration = e2.timestamp - e1.timestamp *)
        bind (wr_dur h e1 (t2 - t1)) (fun h1 => Ok (h1, (ws, wu)))
    else
      if same then
        (* e2.timestamp = e1.timestamp; e2.duration = e2_end - e2.timestamp; e1.duration = 0 *)
        bind (wr_ts h e2 t1) (fun h1 => bind (rd_ts h1 e2) (fun t2' =>
        bind (wr_dur h1 e2 (e2_end - t2')) (fun h2 => bind (wr_dur h2 e1 0) (fun h3 =>
        Ok (h3, (ws, wu))))))
      else
        (* e2.timestamp = e1.timestamp + e1.duration; e2.duration = e2_end - e2.timestamp *)
        bind (wr_ts h e2 (t1 + d1)) (fun h1 => bind (rd_ts h1 e2) (fun t2' =>
        bind (wr_dur h1 e2 (e2_end - t2')) (fun h2 =>
        Ok (h2, (ws, wu)))))))
  else Ok (h, (ws, wu)))))).

Fixpoint flood_loop_h (pt : Z) (h : heap) (ws wu : bool) (ks : list loc) : res heap :=
  match ks with
  | [] => Ok h
  | e1 :: rest =>
      match rest with
      | [] => Ok h
      | e2 :: _ =>
          bind (flood_step_h pt h ws wu e1 e2) (fun r =>
          flood_loop_h pt (fst r) (fst (snd r)) (snd (snd r)) rest)
      end
  end.

(* [e for e in events if e.duration > timedelta(0)] *)
Definition filter_pos (h : heap) (ks : list loc) : res (list loc) :=
  filter_res (fun l => bind (rd_dur h l) (fun d => Ok (d >? 0))) ks.

(* flood(events, pulsetime): L is the location of the list object `events` *)
Definition flood_h (h : heap) (L : loc) (pt : Z) : res (heap * loc) :=
  bind (pdeepcopy h L) (fun r1 =>                       (* events = deepcopy(events) *)
  bind (list_elems (fst r1) (snd r1)) (fun ks =>
  bind (sorted_ts (fst r1) ks) (fun srt =>              (* events = sorted(events, key=...) *)
  bind (flood_loop_h pt (fst r1) false false srt) (fun h2 =>
  bind (filter_pos h2 srt) (fun out =>
  Ok (new_list h2 out)))))).

(* ------------------------------------------------------------------------- *)
(* aw_transform/union_no_overlap.py *)

(* _split_event(e, dt) *)
Definition split_event_h (h : heap) (e : loc) (dt : Z) : res (heap * (loc * option loc)) :=
  bind (rd_ts h e) (fun t => bind (rd_dur h e) (fun d =>
  if (t <? dt) && (dt <? t + d) then
    bind (pdeepcopy h e) (fun r1 =>                     (* e1 = deepcopy(e) *)
    bind (pdeepcopy (fst r1) e) (fun r2 =>              (* e2 = deepcopy(e) *)
    let e1 := snd r1 in let e2 := snd r2 in
    bind (rd_ts (fst r2) e) (fun t' =>
    bind (wr_dur (fst r2) e1 (dt - t')) (fun h3 =>      (* e1.duration = dt - e.timestamp *)
    bind (wr_ts h3 e2 dt) (fun h4 =>                    (* e2.timestamp = dt *)
    bind (rd_ts h4 e) (fun t'' => bind (rd_dur h4 e) (fun d'' =>
    bind (wr_dur h4 e2 ((t'' + d'') - dt)) (fun h5 =>   (* e2.duration = (e.timestamp + e.duration) - dt *)
    Ok (h5, (e1, Some e2))))))))))
  else Ok (h, (e, None)))).

(* one iteration of the while loop; returns the heap, what is appended to events_union and
   the two remaining lists (events2[e2_i] = x replaces the head of the second) *)
Definition uno_step_h (h : heap) (e1 : loc) (r1 : list loc) (e2 : loc) (r2 : list loc)
  : res (heap * (list loc * (list loc * list loc))) :=
  bind (rd_ts h e1) (fun t1 => bind (rd_dur h e1) (fun d1 =>
  bind (rd_ts h e2) (fun t2 => bind (rd_dur h e2) (fun d2 =>
  let e1_end := t1 + d1 in
  let e2_end := t2 + d2 in
  if e2_end <=? t1 then Ok (h, ([e2], (e1 :: r1, r2)))
  else if e1_end <=? t2 then Ok (h, ([e1], (r1, e2 :: r2)))
  else
    bind (if t2 <? t1 then
            bind (split_event_h h e2 t1) (fun r => Ok (fst r, ([fst (snd r)], snd (snd r))))
          else Ok (h, ([], Some e2))) (fun r =>
    let h1 := fst r in let emit := fst (snd r) in
    if e2_end >? e1_end then
      match snd (snd r) with
      | None => Err AttributeError                      (* None.timestamp *)
      | Some e2' =>
          bind (split_event_h h1 e2' e1_end) (fun r' =>
          let head := match snd (snd r') with Some a => a | None => e2' end in
          Ok (fst r', (emit ++ [e1], (r1, head :: r2))))
      end
    else Ok (h1, (emit, (e1 :: r1, r2)))))))).

Fixpoint uno_loop_h (fuel : nat) (h : heap) (l1 l2 : list loc) (out : list loc) : res (heap * list loc) :=
  match l1, l2 with
  | e1 :: r1, e2 :: r2 =>
      match fuel with
      | O => OutOfFuel
      | S fuel' =>
          bind (uno_step_h h e1 r1 e2 r2) (fun r =>
          uno_loop_h fuel' (fst r) (fst (snd (snd r))) (snd (snd (snd r))) (out ++ fst (snd r)))
      end
  | _, _ => Ok (h, out ++ l1 ++ l2)
  end.

(* union_no_overlap(events1, events2): two top-level deepcopy calls (two memos), also when
   both arguments are the same list object *)
Definition union_no_overlap_h (h : heap) (L1 L2 : loc) : res (heap * loc) :=
  bind (pdeepcopy h L1) (fun r1 =>
  bind (pdeepcopy (fst r1) L2) (fun r2 =>
  bind (list_elems (fst r2) (snd r1)) (fun ks1 =>
  bind (list_elems (fst r2) (snd r2)) (fun ks2 =>
  bind (uno_loop_h (length ks1 + length ks2) (fst r2) ks1 ks2 []) (fun r =>
  Ok (new_list (fst r) (snd r))))))).

(* ------------------------------------------------------------------------- *)
(* aw_transform/filter_period_intersect.py *)

(* _get_event_period *)
Definition get_period_h (h : heap) (e : loc) : res timeslot :=
  bind (rd_ts h e) (fun t => bind (rd_dur h e) (fun d => Ok (mkSlot t (t + d)))).

(* _replace_event_period: e = deepcopy(event); e.timestamp = period.start;
   e.duration = period.duration *)
Definition replace_period_h (h : heap) (e : loc) (p : timeslot) : res (heap * loc) :=
  bind (pdeepcopy h e) (fun r =>
  bind (wr_ts (fst r) (snd r) (tstart p)) (fun h2 =>
  bind (wr_dur h2 (snd r) (slot_duration p)) (fun h3 =>
  Ok (h3, snd r)))).

(* the generator _intersecting_eventpairs interleaved with its consumer, the list
   comprehension of filter_period_intersect: at every yield the consumer builds the
   replaced copy, then the generator advances *)
Fixpoint sweep_h (fuel : nat) (h : heap) (l1 l2 : list loc) : res (heap * list loc) :=
  match l1, l2 with
  | [], _ => Ok (h, [])
  | _, [] => Ok (h, [])
  | e1 :: r1, e2 :: r2 =>
      match fuel with
      | O => OutOfFuel
      | S f =>
          bind (get_period_h h e1) (fun p1 => bind (get_period_h h e2) (fun p2 =>
          match slot_intersection p1 p2 with
          | Some ip =>
              bind (replace_period_h h e1 ip) (fun r =>
              bind (if tend p1 <=? tend p2 then sweep_h f (fst r) r1 l2 else sweep_h f (fst r) l1 r2)
                   (fun rest => Ok (fst rest, snd r :: snd rest)))
          | None =>
              if tend p1 <=? tstart p2 then sweep_h f h r1 l2
              else if tend p2 <=? tstart p1 then sweep_h f h l1 r2
              else sweep_h f h r1 r2
          end))
      end
  end.

(* filter_period_intersect(events, filterevents): sorted() of both arguments (new lists),
   which the generator sorts again in place (they are its own) *)
Definition filter_period_intersect_h (h : heap) (L1 L2 : loc) : res (heap * loc) :=
  bind (list_elems h L1) (fun ks1 => bind (list_elems h L2) (fun ks2 =>
  bind (sorted_lt h ks1) (fun s1 => bind (sorted_lt h ks2) (fun s2 =>
  bind (sorted_ts h s1) (fun s1' => bind (sorted_ts h s2) (fun s2' =>
  bind (sweep_h (length s1' + length s2') h s1' s2') (fun r =>
  Ok (new_list (fst r) (snd r))))))))).

(* period_union's loop; merged_events reversed (head = merged_events[-1]).  `append(e)`
   appends the caller's own object. *)
Fixpoint union_loop_h (h : heap) (merged_rev : list loc) (events : list loc) : res (heap * list loc) :=
  match events with
  | [] => Ok (h, rev merged_rev)
  | e :: rest =>
      match merged_rev with
      | [] => Err IndexError
      | last_event :: older =>
          bind (get_period_h h e) (fun e_p => bind (get_period_h h last_event) (fun le_p =>
          match slot_gap e_p le_p with
          | None =>
              bind (slot_union e_p le_p) (fun np =>
              bind (replace_period_h h last_event np) (fun r =>
              union_loop_h (fst r) (snd r :: older) rest))
          | Some _ => union_loop_h h (e :: last_event :: older) rest
          end))
      end
  end.

(* for event in merged_events: event.data = {} *)
Fixpoint clear_all (h : heap) (ks : list loc) : res heap :=
  match ks with
  | [] => Ok h
  | k :: t => bind (clear_data h k) (fun h1 => clear_all h1 t)
  end.

(* period_union(events1, events2): the merged events that were not replaced by a copy are
   the caller's own Event objects, and their data reference is overwritten *)
Definition period_union_h (h : heap) (L1 L2 : loc) : res (heap * loc) :=
  bind (list_elems h L1) (fun ks1 => bind (list_elems h L2) (fun ks2 =>
  bind (sorted_lt h (ks1 ++ ks2)) (fun evs =>
  bind (match evs with
        | [] => Ok (h, [])
        | first :: rest => union_loop_h h [first] rest
        end) (fun r =>
  bind (clear_all (fst r) (snd r)) (fun h2 =>
  Ok (new_list h2 (snd r))))))).

(* ------------------------------------------------------------------------- *)
(* Reading a heap back into the values the functional models speak about *)

Definition ev_at (h : heap) (l : loc) : option event :=
  match lookup h l with
  | Some (Cell (TEv i t d) [dl]) =>
      match lookup h dl with
      | Some (Cell (TNode p) _) => Some (mkEvent i t d p)
      | _ => None
      end
  | _ => None
  end.

Fixpoint opt_list {X} (l : list (option X)) : option (list X) :=
  match l with
  | [] => Some []
  | None :: _ => None
  | Some x :: t => match opt_list t with Some r => Some (x :: r) | None => None end
  end.

Definition evs_at (h : heap) (ks : list loc) : option (list event) := opt_list (map (ev_at h) ks).

(* the value of an event list object *)
Definition list_at (h : heap) (L : loc) : option (list event) :=
  match lookup h L with
  | Some (Cell (TNode _) ks) => evs_at h ks
  | _ => None
  end.
