(* aw_core/models.py: _timestamp_parse, the Event constructor, the timestamp and duration
   setters, to_json_dict / to_json_str and rebuilding an Event from its JSON dict.  Definitions only; facts in
   Proofs/EventProofs.v, property statements in Props/C13.v.

   An aware datetime is (utc, off): its instant and its utcoffset, both in microseconds;
   its local fields are those of utc + off, in particular .microsecond = (utc + off) mod 10^6.
   A timedelta is its total microseconds.  Event data is an opaque label.  *)
From Coq Require Import ZArith Bool List Ascii PrimFloat.
From AwVerif Require Import Base.Prelude Model.PyFloat Model.IsoTime.
Open Scope Z_scope.

(* what the caller may pass as timestamp= / duration= *)
Inductive ts_in :=
  | TsDt (utc off : Z)          (* aware datetime *)
  | TsNaive (local : Z)         (* naive datetime: fields taken as UTC (with a warning) *)
  | TsStr (s : list ascii).     (* str -> iso8601.parse_date *)

Inductive dur_in :=
  | DurTd (us : Z)              (* timedelta: kept as it is *)
  | DurInt (s : Z)              (* int seconds   -> timedelta(seconds=s) *)
  | DurFloat (x : float).       (* float seconds -> timedelta(seconds=x) *)

(* datetime values must stay within 0001..9999; .astimezone(utc) raises OverflowError *)
Definition dt_check (u : Z) : res Z :=
  if (min_us <=? u) && (u <=? max_us) then Ok u else Err OtherError.

(* _timestamp_parse: the aware datetime it returns, as (utc, off).
   ts.replace(microsecond=int(ts.microsecond / 1000) * 1000) changes the local microsecond
   field and keeps every other local field and the tzinfo. *)
Definition timestamp_parse (t : ts_in) : res (Z * Z) :=
  bind (match t with
        | TsDt u o => Ok (u, o)
        | TsNaive l => Ok (l, 0)
        | TsStr s => parse_iso s
        end)
    (fun uo =>
       let local := fst uo + snd uo in
       let usf := local mod 1000000 in
       bind (ms_floor_float usf) (fun m => Ok (local - usf + m - snd uo, snd uo))).

(* timestamp setter: _timestamp_parse(x).astimezone(timezone.utc) -> the UTC instant *)
Definition set_timestamp (t : ts_in) : res Z :=
  bind (timestamp_parse t) (fun uo => dt_check (fst uo)).

(* duration setter *)
Definition set_duration (d : dur_in) : res Z :=
  match d with
  | DurTd us => Ok us
  | DurInt s => td_us_of_int_seconds s
  | DurFloat x => td_us_of_float_seconds x
  end.

(* Event(id=, timestamp=, duration=, data=) *)
Definition mk_event (i : option Z) (t : ts_in) (d : dur_in) (x : Z) : res event :=
  bind (set_timestamp t) (fun u =>
  bind (set_duration d) (fun k =>
  Ok (mkEvent i u k x))).

(* the JSON object of to_json_dict / to_json_str: timestamp text, duration number *)
Record jevent := mkJ { j_id : option Z; j_ts : list ascii; j_dur : float; j_data : Z }.

(* to_json_dict: timestamp.astimezone(utc).isoformat(), duration.total_seconds() *)
Definition to_json (e : event) : res jevent :=
  bind (dt_check (ts e)) (fun u =>
  bind (total_seconds_of_us (dur e)) (fun f =>
  Ok (mkJ (eid e) (isoformat_utc u) f (data e)))).

(* Event applied to the keyword dict json.loads(text) *)
Definition from_json (j : jevent) : res event :=
  mk_event (j_id j) (TsStr (j_ts j)) (DurFloat (j_dur j)) (j_data j).

(* Event applied to an Event e as keyword dict (it holds a datetime and a timedelta) *)
Definition rebuild (e : event) : res event :=
  mk_event (eid e) (TsDt (ts e) 0) (DurTd (dur e)) (data e).

Definition json_roundtrip (e : event) : res event := bind (to_json e) from_json.
