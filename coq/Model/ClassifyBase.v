(* Vocabulary of the C19 models (aw_transform/classify.py, split_url_events.py,
   simplify.py): events whose data is a Python dict with structure, and the Python
   primitives the three modules use on it.  Definitions only.

   Labels (all assigned by the harness, harness/c19.py):
   * keys are Z labels.  The keys the code names literally have fixed labels (K_url ...);
     every other key gets a label >= 100.
   * strings are Z labels into one string table per case; label 0 is the empty string ""
     and label 1 is "Uncategorized" (the only two strings whose identity the code looks at:
     `if regex_str` and the `["Uncategorized"]` default).
   * a value is a string (VStr label), a list of strings (VList labels: what `$category`
     and `$tags` hold) or anything else (VOther label, one label per (type, ==) class:
     numbers, None, bools, dicts, bytes, mixed lists ...).
   A dict is an association list in Python insertion order; keys are unique in every dict
   the harness builds (the theorems that need it say `NoDup (map fst d)`). *)
From AwVerif Require Import Base.Prelude.

Inductive value := VStr (s : Z) | VOther (l : Z) | VList (l : list Z).

Definition dict := list (Z * value).

Record cevent := mkCE { c_eid : option Z; c_ts : Z; c_dur : Z; c_data : dict }.

Definition set_cdata (e : cevent) (d : dict) : cevent :=
  {| c_eid := c_eid e; c_ts := c_ts e; c_dur := c_dur e; c_data := d |}.

(* d.get(k, None) / `k in d` / d[k] = v (replace in place, or append: insertion order) /
   d.values() *)
Fixpoint dget (k : Z) (d : dict) : option value :=
  match d with
  | [] => None
  | (k', v) :: t => if k' =? k then Some v else dget k t
  end.

Definition dhas (k : Z) (d : dict) : bool :=
  match dget k d with Some _ => true | None => false end.

Fixpoint dset (k : Z) (v : value) (d : dict) : dict :=
  match d with
  | [] => [(k, v)]
  | (k', v') :: t => if k' =? k then (k, v) :: t else (k', v') :: dset k v t
  end.

Definition dvalues (d : dict) : list value := map snd d.

(* fixed key labels *)
Definition K_url : Z := 1.
Definition K_title : Z := 2.
Definition K_app : Z := 3.
Definition K_category : Z := 4.
Definition K_tags : Z := 5.
Definition K_protocol : Z := 6.
Definition K_domain : Z := 7.
Definition K_path : Z := 8.
Definition K_params : Z := 9.
Definition K_options : Z := 10.
Definition K_identifier : Z := 11.

(* fixed string labels *)
Definition S_empty : Z := 0.
Definition S_uncategorized : Z := 1.

(* Python truthiness of a str / of an Optional[List] *)
Definition str_truthy (s : Z) : bool := negb (s =? S_empty).
Definition optlist_truthy {A} (o : option (list A)) : bool :=
  match o with Some (_ :: _) => true | _ => false end.
Definition optlist_items {A} (o : option (list A)) : list A :=
  match o with Some l => l | None => [] end.

(* The dict handed to Rule(...) — only the three entries the constructor reads.
   s_regex = None: "regex" absent or None; s_select = None: "select_keys" absent or None. *)
Record rulespec := mkSpec { s_regex : option Z; s_select : option (list Z); s_icase : bool }.

(* A Rule object.  r_regex = Some (pattern, IGNORECASE flag) is a compiled pattern
   (always truthy in Python), None is None. *)
Record rule := mkRule { r_regex : option (Z * bool); r_select : option (list Z); r_icase : bool }.

Definition category := list Z.

(* ParseResult of urlparse: six components (str for a str url, bytes for a falsy
   non-str url, hence values and not string labels) *)
Record urlparts := mkUrl {
  u_scheme : value; u_netloc : value; u_path : value;
  u_params : value; u_query : value; u_fragment : value }.

Fixpoint map_res {A B} (f : A -> res B) (l : list A) : res (list B) :=
  match l with
  | [] => Ok []
  | x :: t => bind (f x) (fun y => bind (map_res f t) (fun r => Ok (y :: r)))
  end.

(* ---- Python-level helpers named by the regenerated kernels (coq/Gen/GenClassify.v, tie B) ----
   Operations that raise in Python outside their guard (regex.search on None or on a
   non-str, re.compile(None)) return a poison value there (true / pattern -1), chosen so
   that a kernel reaching them unguarded can NOT be proved equal to the model: the bridge
   lemma fails instead of silently agreeing. *)
Definition py_isinstance_str (v : option value) : bool :=
  match v with Some (VStr _) => true | _ => false end.
Definition regex_truthy (r : option (Z * bool)) : bool :=
  match r with Some _ => true | None => false end.
Definition optstr_truthy (o : option Z) : bool :=
  match o with Some s => str_truthy s | None => false end.
Definition py_regex_search (re_search : Z -> bool -> Z -> bool)
           (r : option (Z * bool)) (v : option value) : bool :=
  match r, v with
  | Some (p, ic), Some (VStr s) => re_search p ic s
  | _, _ => true
  end.
Definition py_re_compile (o : option Z) (ic : bool) : option (Z * bool) :=
  match o with Some p => Some (p, ic) | None => Some (-1, ic) end.
