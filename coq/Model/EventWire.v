(* Flat integer encodings of the Event model's observable results for the in-Coq
   correspondence route (harness/floatcases.py, harness/c13.py).  Definitions only. *)
From Coq Require Import ZArith Bool List Ascii String PrimFloat.
From AwVerif Require Import Base.Prelude Model.PyFloat Model.PyFloatWire Model.IsoTime
  Model.EventModel Model.Codec.
Open Scope Z_scope.

Definition enc_event (e : event) : list Z :=
  enc_optZ (eid e) ++ [ts e; dur e; data e].

Definition enc_text (s : list ascii) : list Z :=
  Z.of_nat (length s) :: map (fun c => Z.of_N (N_of_ascii c)) s.

Definition enc_jevent (j : jevent) : list Z :=
  enc_optZ (j_id j) ++ enc_text (j_ts j) ++ enc_float (j_dur j) ++ [j_data j].

(* one Event case: the constructed event, its JSON form, the event rebuilt from the JSON
   form, the event rebuilt from the event itself *)
Definition run_event_case (i : option Z) (t : ts_in) (d : dur_in) (x : Z) : list Z :=
  match mk_event i t d x with
  | Ok e =>
      0 :: enc_event e ++
      match to_json e with
      | Ok j => 0 :: enc_jevent j ++ enc_res enc_event (from_json j)
      | Err c => [1; errclass_code c]
      | OutOfFuel => [2]
      end ++ enc_res enc_event (rebuild e)
  | Err c => [1; errclass_code c]
  | OutOfFuel => [2]
  end.

Definition str (s : string) : list ascii := list_ascii_of_string s.

(* codec cases (C01): what comes back for an event stored with (ts, dur) *)
Definition run_sqlite_codec (ts dur : Z) : list Z :=
  enc_res enc_pairZ (sqlite_dec (sqlite_enc ts dur)).
Definition run_peewee_dur (dur : Z) : list Z :=
  match peewee_dur_enc dur with
  | Ok f => 0 :: enc_float f ++ enc_res enc_Z (peewee_dur_dec f)
  | Err c => [1; errclass_code c]
  | OutOfFuel => [2]
  end.
Definition run_peewee_ts (ts : Z) : list Z :=
  enc_text (peewee_ts_enc ts) ++ enc_res enc_Z (peewee_ts_dec (peewee_ts_enc ts)).
