(* C20, round 2: `_comment_out_toml` on the TEXT (a list of code points), below the line
   model of Model/Config.v.  The line model takes a document as a list of classified lines;
   which characters end a line is decided before it.  This file models that step as the code
   does it: `s.split("\n")`, the per-line test on `line.strip()` (Python's str.strip():
   every character with str.isspace()), `"#" + line`, `"\n".join(...)`.  Definitions only. *)
From AwVerif Require Import Base.Prelude.

Definition text := list Z.

Definition LF : Z := 10.
Definition HASH : Z := 35.
Definition LBRACK : Z := 91.

(* s.split("\n") as (first piece, further pieces): never empty *)
Fixpoint split_lf' (s : text) : text * list text :=
  match s with
  | [] => ([], [])
  | c :: r =>
      let '(l, ls) := split_lf' r in
      if c =? LF then ([], l :: ls) else (c :: l, ls)
  end.

Definition split_lf (s : text) : list text :=
  let '(l, ls) := split_lf' s in l :: ls.

(* "\n".join(ls) *)
Fixpoint join_lf (ls : list text) : text :=
  match ls with
  | [] => []
  | l :: rest =>
      match rest with
      | [] => l
      | _ :: _ => l ++ LF :: join_lf rest
      end
  end.

(* str.isspace() of one character (CPython 3: Unicode White_Space plus the bidirectional
   types WS, B, S): TAB..CR, FS..US, SPACE, NEL, NBSP, OGHAM SPACE MARK, EN QUAD..HAIR SPACE,
   LINE / PARAGRAPH SEPARATOR, NNBSP, MMSP, IDEOGRAPHIC SPACE *)
Definition is_space (c : Z) : bool :=
  ((9 <=? c) && (c <=? 13)) || ((28 <=? c) && (c <=? 32)) || (c =? 133) || (c =? 160)
  || (c =? 5760) || ((8192 <=? c) && (c <=? 8202)) || (c =? 8232) || (c =? 8233)
  || (c =? 8239) || (c =? 8287) || (c =? 12288).

Fixpoint lstrip (s : text) : text :=
  match s with
  | [] => []
  | c :: r => if is_space c then lstrip r else s
  end.

(* the code's test, on t = line.strip(): kept unless  t and (not t.startswith("[") or
   t.startswith("[["));  emptiness and both prefixes of line.strip() are those of lstrip *)
Definition kept_text (l : text) : bool :=
  match lstrip l with
  | [] => true
  | c :: r =>
      (c =? LBRACK) && negb (match r with d :: _ => d =? LBRACK | [] => false end)
  end.

Definition comment_line_text (l : text) : text :=
  if kept_text l then l else HASH :: l.

Definition comment_out_text (s : text) : text :=
  join_lf (map comment_line_text (split_lf s)).
