(* Histories of CALLS over the fault machine of Model/CommitFault.v (added for C06; nothing of
   Model/Commit.v / Model/CommitFault.v is changed).  Definitions only.

   Model/CommitFault.v runs a flat sequence of steps ([frun]); which of them form one storage
   call is not in it.  C06 under engine faults speaks about CALLS: "the writes of calls that
   RETURNED NORMALLY" (the caller was told they are done: acknowledged) against the writes of
   calls that RAISED (the caller was told they failed).  A history here is a list of calls, each
   the list of the steps it executed; the machine runs their concatenation. *)
From AwVerif Require Import Base.Prelude Model.Commit Model.CommitFault.

(* the writes a sequence of steps issues, in issue order (the rows an executemany went through
   before it raised included; a statement that raised wrote nothing) *)
Definition fwrites_all (tr : list fin) : list Z := flat_map (fun x => fwrites (fm x)) tr.

(* [returned_with] as a boolean: no step of the call raised *)
Fixpoint returnedb_with (cr : raise_behaviour) (lazy : bool) (fs : fstate) (tr : list fin) : bool :=
  match tr with
  | [] => true
  | x :: rest =>
      negb (snd (fmicro_step_with cr lazy fs x)) &&
      returnedb_with cr lazy (fst (fmicro_step_with cr lazy fs x)) rest
  end.
Definition returnedb := returnedb_with code_commit_raises.

(* One flag per issued write, in issue order: true = the write belongs to a call that returned
   normally (acknowledged). *)
Fixpoint ack_flags_with (cr : raise_behaviour) (lazy : bool) (fs : fstate) (calls : list (list fin))
  : list bool :=
  match calls with
  | [] => []
  | tro :: rest =>
      repeat (returnedb_with cr lazy fs tro) (length (fwrites_all tro)) ++
      ack_flags_with cr lazy (frun_with cr lazy fs tro) rest
  end.
Definition ack_flags := ack_flags_with code_commit_raises.

Definition ntrue (l : list bool) : nat := length (filter (fun b => b) l).
Definition nfalse (l : list bool) : nat := length (filter negb l).

(* The durable database is the initial one plus a PREFIX of the issued writes (Props/C06fault.v:
   C06f_prefix), so what a crash loses is a suffix of the flags: the acknowledged writes a crash
   now would lose, and the lost writes of calls that raised. *)
Definition missing_flags (c0 : list Z) (s : cstate) (flags : list bool) : list bool :=
  skipn (length (committed s) - length c0) flags.
Definition missing_acked (c0 : list Z) (s : cstate) (flags : list bool) : nat :=
  ntrue (missing_flags c0 s flags).
Definition missing_raised (c0 : list Z) (s : cstate) (flags : list bool) : nat :=
  nfalse (missing_flags c0 s flags).

(* the counts conditional_commit is called with *)
Definition step_count (x : fin) : Z :=
  match fm x with Step (CondCommit k) => k | _ => 0 end.
Definition sum_counts (tr : list fin) : Z := fold_right (fun x a => step_count x + a) 0 tr.
