(* Model of aw_transform/filter_period_intersect.py as it is in /repo now:
   _get_event_period, _replace_event_period, _intersecting_eventpairs,
   filter_period_intersect, period_union.  (`union` in the same file is not part of C09.)

   Conventions (notes/AGENT_GUIDE.md): instants/durations are Z microseconds; event data
   is an opaque label; deepcopy is the identity on values; sorted()/list.sort(key=...) are
   stable sorts = sort_by; assigning Event.timestamp floors to the millisecond.
   Definitions only. *)
From AwVerif Require Import Base.Prelude Model.Timeslot.

(* aw_core.models._timestamp_parse: ts.replace(microsecond=int(ts.microsecond/1000)*1000) *)
Definition floor_ms (t : Z) : Z := 1000 * (t / 1000).

(* _get_event_period: Timeslot(event.timestamp, event.timestamp + event.duration) *)
Definition get_event_period (e : event) : timeslot :=
  mkSlot (ts e) (ts e + dur e).

(* _replace_event_period: e = deepcopy(event); e.timestamp = period.start (setter floors to
   ms); e.duration = period.duration (= end - start of the *period*, not of the floored
   start).  id and data are those of `event`. *)
Definition replace_event_period (e : event) (p : timeslot) : event :=
  {| eid := eid e; ts := floor_ms (tstart p); dur := slot_duration p; data := data e |}.

(* The generator's yield: (e1, e2, ip). *)
Notation eventpair := (event * event * timeslot)%type (only parsing).

(* _intersecting_eventpairs after its two sorts.  The indices e1_i / e2_i only ever
   advance, so the state is the pair of remaining suffixes events1[e1_i:], events2[e2_i:].
   The loop test comes first (no fuel is needed to stop); every iteration costs one unit.
   `if ip:` is `ip is not None` (Timeslot has no __bool__/__len__).
   The last branch is the one the source logs as "Should be unreachable". *)
Fixpoint sweep (fuel : nat) (l1 l2 : list event) : res (list eventpair) :=
  match l1, l2 with
  | [], _ => Ok []
  | _, [] => Ok []
  | e1 :: r1, e2 :: r2 =>
      match fuel with
      | O => OutOfFuel
      | S f =>
          let e1_p := get_event_period e1 in
          let e2_p := get_event_period e2 in
          match slot_intersection e1_p e2_p with
          | Some ip =>
              bind (if tend e1_p <=? tend e2_p then sweep f r1 l2 else sweep f l1 r2)
                   (fun rest => Ok ((e1, e2, ip) :: rest))
          | None =>
              if tend e1_p <=? tstart e2_p then sweep f r1 l2
              else if tend e2_p <=? tstart e1_p then sweep f l1 r2
              else sweep f r1 r2
          end
      end
  end.

(* events1.sort(key=timestamp); events2.sort(key=timestamp); then the loop. *)
Definition intersecting_eventpairs (events1 events2 : list event) : res (list eventpair) :=
  let events1 := sort_by ts events1 in
  let events2 := sort_by ts events2 in
  sweep (length events1 + length events2) events1 events2.

(* filter_period_intersect: sorted(events) compares with Event.__lt__ (timestamp <), i.e.
   a stable sort by timestamp; the generator sorts again. *)
Definition filter_period_intersect (events filterevents : list event) : res (list event) :=
  let events := sort_by ts events in
  let filterevents := sort_by ts filterevents in
  bind (intersecting_eventpairs events filterevents)
       (fun prs => Ok (map (fun pr : eventpair =>
                              let '(e1, _, ip) := pr in replace_event_period e1 ip) prs)).

(* period_union's loop.  merged_events is kept reversed (head = merged_events[-1]).
   `if not e_p.gap(le_p)` is `gap is None`.  merged_events[-1] on an empty list would be an
   IndexError; period_union never calls the loop that way. *)
Fixpoint union_loop (merged_rev : list event) (events : list event) : res (list event) :=
  match events with
  | [] => Ok (rev merged_rev)
  | e :: rest =>
      match merged_rev with
      | [] => Err IndexError
      | last_event :: older =>
          let e_p := get_event_period e in
          let le_p := get_event_period last_event in
          match slot_gap e_p le_p with
          | None =>
              bind (slot_union e_p le_p)
                   (fun new_period =>
                      union_loop (replace_event_period last_event new_period :: older) rest)
          | Some _ => union_loop (e :: last_event :: older) rest
          end
      end
  end.

(* period_union: events = sorted(events1 + events2); first event seeds merged_events; the
   loop; finally every merged event gets data = {} (the label the harness assigned to the
   empty dict is passed in). *)
Definition period_union (empty_data : Z) (events1 events2 : list event) : res (list event) :=
  let events := sort_by ts (events1 ++ events2) in
  bind (match events with
        | [] => Ok []
        | first :: rest => union_loop [first] rest
        end)
       (fun merged => Ok (map (fun e => set_data e empty_data) merged)).

(* ---- branch trace of the sweep, used only for the coverage figures in the evidence ----
   1 yield/advance-1, 2 yield/advance-2, 3 no-overlap/advance-1, 4 no-overlap/advance-2,
   5 the "Should be unreachable" branch, 9 out of fuel. *)
Fixpoint sweep_branches (fuel : nat) (l1 l2 : list event) : list Z :=
  match l1, l2 with
  | [], _ => []
  | _, [] => []
  | e1 :: r1, e2 :: r2 =>
      match fuel with
      | O => [9]
      | S f =>
          let e1_p := get_event_period e1 in
          let e2_p := get_event_period e2 in
          match slot_intersection e1_p e2_p with
          | Some _ =>
              if tend e1_p <=? tend e2_p then 1 :: sweep_branches f r1 l2
              else 2 :: sweep_branches f l1 r2
          | None =>
              if tend e1_p <=? tstart e2_p then 3 :: sweep_branches f r1 l2
              else if tend e2_p <=? tstart e1_p then 4 :: sweep_branches f l1 r2
              else 5 :: sweep_branches f r1 r2
          end
      end
  end.

Definition intersect_branches (events filterevents : list event) : list Z :=
  let a := sort_by ts (sort_by ts events) in
  let b := sort_by ts (sort_by ts filterevents) in
  sweep_branches (length a + length b) a b.
