(* The transform-backed built-ins of aw_query/functions.py as ONE concrete instance of the
   Section variable [builtin] of Model/MemHeapQuery.v (C12): each q2_* function is its
   heap-level program (Model/TransformHeap.v, GroupHeap.v, ClassifyHeap.v) applied to the
   locations of its arguments.  Definitions only; Proofs/TransformBuiltinsProofs.v proves
   [builtins_confined] for it, Props/C12.v states the corollary.

   A call = which function + its immutable arguments (pulsetime, keys, key, vals, count,
   the regex / url / substitution engines - for filter_keyvals_regex: whether the pattern
   compiles and what findall says of a value label -, how a rule dict is read).  Mutable arguments
   (event lists, the `classes` list of categorize / tag) are heap locations.  [dc] maps the
   code f of [QBuiltin f args] to a call: the theorem holds for every dc.

   q2_categorize / q2_tag build `[(cls, Rule(rule_dict)) for cls, rule_dict in classes]`:
   the tuples and Rule objects are new and never escape; `cls` is the caller's own
   category list object (categorize) or a string (tag).  classes = a list cell whose
   members are pair cells: [category list; rule dict] resp. [rule dict] (the tag string is
   part of the pair's payload); the Rule built from a rule dict is [rule_of h loc], an
   arbitrary function of the heap.
   Wrong arity or a non-list where a list is expected raises before anything is touched
   (q2_typecheck): (h, None).  sum_durations and nop return immutable values: no root. *)
From AwVerif Require Import Base.Prelude Model.MemHeap Model.Timeslot Model.TransformHeap Model.DictHeap
  Model.Group Model.GroupHeap Model.ClassifyBase Model.Classify Model.ClassifyHeap Model.FilterRegexHeap.
From Coq Require Import Arith.
Local Notation lookup := MemHeap.lookup.

Inductive call :=
  | CFlood (pt : Z)
  | CUnionNoOverlap
  | CFilterPeriodIntersect
  | CPeriodUnion
  | CMerge (keys : list Z)
  | CChunk (sub_key key pulse : Z)
  | CSortTs
  | CSortDur
  | CLimit (count : Z)
  | CFilterKeyvals (key : Z) (vals : list Z) (exclude : bool)
  | CConcat
  | CSumDurations
  | CNop
  | CCategorize (re : Z -> bool -> Z -> bool) (rule_of : heap -> loc -> rule)
  | CTag (re : Z -> bool -> Z -> bool) (tag_of : Z -> Z) (rule_of : heap -> loc -> rule)
  | CSplitUrl (urlparse : value -> res urlparts) (starts_www : value -> bool) (drop4 : value -> value)
  | CSimplify (sub_parens sub_fps sub_dot : Z -> Z) (key : Z)
  | CFilterKeyvalsRegex (key : Z) (compiled : bool) (findall : Z -> res bool).

Definition of_res (h : heap) (r : res (heap * loc)) : heap * option (list loc) :=
  match r with Ok hl => (fst hl, Some [snd hl]) | _ => (h, None) end.

Definition of_hres (r : heap * res loc) : heap * option (list loc) :=
  match snd r with Ok l => (fst r, Some [l]) | _ => (fst r, None) end.

(* for cls, rule_dict in classes *)
Definition cat_class (rule_of : heap -> loc -> rule) (h : heap) (pr : loc) : res (loc * rule) :=
  match lookup h pr with
  | Some (Cell (TNode _) [c; rd]) => Ok (c, rule_of h rd)
  | Some _ => Err ValueError
  | None => Err KeyError
  end.

Definition tag_class (tag_of : Z -> Z) (rule_of : heap -> loc -> rule) (h : heap) (pr : loc) : res (Z * rule) :=
  match lookup h pr with
  | Some (Cell (TNode p) [rd]) => Ok (tag_of p, rule_of h rd)
  | Some _ => Err ValueError
  | None => Err KeyError
  end.

Definition run_call (c : call) (args : list loc) (h : heap) : heap * option (list loc) :=
  match c, args with
  | CFlood pt, [L] => of_res h (flood_h h L pt)
  | CUnionNoOverlap, [L1; L2] => of_res h (union_no_overlap_h h L1 L2)
  | CFilterPeriodIntersect, [L1; L2] => of_res h (filter_period_intersect_h h L1 L2)
  | CPeriodUnion, [L1; L2] => of_res h (period_union_h h L1 L2)
  | CMerge keys, [L] => of_res h (merge_events_by_keys_h h L keys)
  | CChunk sk key pulse, [L] => of_res h (chunk_events_by_key_h sk h L key pulse)
  | CSortTs, [L] => of_res h (sort_by_timestamp_h h L)
  | CSortDur, [L] => of_res h (sort_by_duration_h h L)
  | CLimit n, [L] => of_res h (limit_events_h h L n)
  | CFilterKeyvals key vals ex, [L] => of_res h (filter_keyvals_h h L key vals ex)
  | CConcat, [L1; L2] => of_res h (concat_h h L1 L2)
  | CSumDurations, [L] => match sum_durations_h h L with Ok _ => (h, Some []) | _ => (h, None) end
  | CNop, [] => (h, Some [])
  | CCategorize re rule_of, [L; C] =>
      match list_elems h C with
      | Ok prs =>
          match map_res (cat_class rule_of h) prs with
          | Ok classes => of_hres (categorize_h re h L classes)
          | _ => (h, None)
          end
      | _ => (h, None)
      end
  | CTag re tag_of rule_of, [L; C] =>
      match list_elems h C with
      | Ok prs =>
          match map_res (tag_class tag_of rule_of h) prs with
          | Ok classes => of_hres (tag_h re h L classes)
          | _ => (h, None)
          end
      | _ => (h, None)
      end
  | CSplitUrl up sw d4, [L] => of_hres (split_url_events_h up sw d4 h L)
  | CSimplify sp sf sd key, [L] => of_res h (simplify_string_h sp sf sd h L key)
  | CFilterKeyvalsRegex key compiled findall, [L] => of_res h (filter_keyvals_regex_h compiled findall h L key)
  | _, _ => (h, None)
  end.

Definition transform_builtin (dc : Z -> call) (f : Z) (args : list loc) (h : heap)
  : heap * option (list loc) := run_call (dc f) args h.
