(* Model of aw_transform/classify.py, split_url_events.py and simplify.py as they are
   in /repo now.  Definitions only.  External engines are Section variables:

   re_search p ic s      = `re.compile(p, (re.IGNORECASE if ic else 0) | re.UNICODE).search(s)
                            is not None` on the strings labelled p and s
   urlparse v            = urllib.parse.urlparse(v): the six components, or the exception
                            class it raises (ValueError on e.g. "http://[::1", AttributeError
                            on a truthy non-str)
   starts_www v, drop4 v = `v[:4] == "www."`, `v[4:]`  (the code's own slicing of the netloc,
                            kept as the code's decision; the two slices are tabulated)
   sub_parens/sub_fps/sub_dot s = the three `re.sub`s of simplify_string on string labels

   categorize/tag/split_url_events mutate the events in place and return them; the model
   returns the new values.  simplify_string deep-copies first: same functional model. *)
From AwVerif Require Import Base.Prelude Model.ClassifyBase.

Section Classify.
  Variable re_search : Z -> bool -> Z -> bool.

  (* Rule.__init__: regex compiled only `if regex_str` (neither None nor ""), with
     IGNORECASE iff ignore_case *)
  Definition rule_init (s : rulespec) : rule :=
    {| r_regex := match s_regex s with
                  | Some p => if str_truthy p then Some (p, s_icase s) else None
                  | None => None
                  end;
       r_select := s_select s;
       r_icase := s_icase s |}.

  (* Rule.match: `values` (None for a selected key that is missing) *)
  Definition rule_values (r : rule) (d : dict) : list (option value) :=
    if optlist_truthy (r_select r)
    then map (fun key => dget key d) (optlist_items (r_select r))
    else map (fun v => Some v) (dvalues d).

  (* `isinstance(val, str) and self.regex.search(val)` *)
  Definition val_hit (p : Z) (ic : bool) (val : option value) : bool :=
    match val with
    | Some (VStr s) => re_search p ic s
    | _ => false
    end.

  Definition rule_match (r : rule) (d : dict) : bool :=
    match r_regex r with
    | Some (p, ic) => existsb (val_hit p ic) (rule_values r d)
    | None => false
    end.

  (* _pick_deepest_cat: `t2 if len(t2) >= len(t1) else t1` *)
  Definition pick_deepest_cat (t1 t2 : category) : category :=
    if Z.of_nat (length t2) >=? Z.of_nat (length t1) then t2 else t1.

  (* _pick_category: reduce(_pick_deepest_cat, tags, ["Uncategorized"]) *)
  Definition uncategorized : category := [S_uncategorized].
  Definition pick_category (cats : list category) : category :=
    fold_left pick_deepest_cat cats uncategorized.

  (* [_cls for _cls, rule in classes if rule.match(e)] *)
  Definition matching {C : Type} (classes : list (C * rule)) (d : dict) : list C :=
    map fst (filter (fun cr => rule_match (snd cr) d) classes).

  Definition categorize_one (classes : list (category * rule)) (e : cevent) : cevent :=
    set_cdata e (dset K_category (VList (pick_category (matching classes (c_data e)))) (c_data e)).

  Definition categorize (events : list cevent) (classes : list (category * rule)) : list cevent :=
    map (categorize_one classes) events.

  (* a tag is a str: its string label *)
  Definition tag_one (classes : list (Z * rule)) (e : cevent) : cevent :=
    set_cdata e (dset K_tags (VList (matching classes (c_data e))) (c_data e)).

  Definition tag (events : list cevent) (classes : list (Z * rule)) : list cevent :=
    map (tag_one classes) events.
End Classify.

Section SplitUrl.
  Variable urlparse : value -> res urlparts.
  Variable starts_www : value -> bool.
  Variable drop4 : value -> value.

  Definition split_one (e : cevent) : res cevent :=
    match dget K_url (c_data e) with
    | None => Ok e
    | Some url =>
        bind (urlparse url) (fun p =>
          let d1 := dset K_protocol (u_scheme p) (c_data e) in
          let d2 := dset K_domain (if starts_www (u_netloc p) then drop4 (u_netloc p)
                                   else u_netloc p) d1 in
          let d3 := dset K_path (u_path p) d2 in
          let d4 := dset K_params (u_params p) d3 in
          let d5 := dset K_options (u_query p) d4 in
          let d6 := dset K_identifier (u_fragment p) d5 in
          Ok (set_cdata e d6))
    end.

  (* an exception in the middle of the loop propagates: no list is returned *)
  Definition split_url_events (events : list cevent) : res (list cevent) :=
    map_res split_one events.
End SplitUrl.

Section Simplify.
  (* the three substitutions, in the order of the source: re_parensprefix (a leading
     parenthesised number and following blanks removed), re_fps (the number after FPS:
     replaced by three dots), re_leadingdot (a leading bullet or asterisk and following
     blanks removed) *)
  Variable sub_parens : Z -> Z.
  Variable sub_fps : Z -> Z.
  Variable sub_dot : Z -> Z.

  (* e.data[key] = rx.sub(repl, e.data[key]): KeyError when the key is missing,
     TypeError (raised by re) when the value is not a str *)
  Definition sub_key (f : Z -> Z) (key : Z) (d : dict) : res dict :=
    match dget key d with
    | None => Err KeyError
    | Some (VStr s) => Ok (dset key (VStr (f s)) d)
    | Some _ => Err TypeError
    end.

  Definition simplify_one (key : Z) (e : cevent) : res cevent :=
    bind (sub_key sub_parens key (c_data e)) (fun d1 =>
      if (key =? K_title) && dhas K_app d1
      then bind (sub_key sub_fps key d1) (fun d2 =>
           bind (sub_key sub_dot key d2) (fun d3 => Ok (set_cdata e d3)))
      else Ok (set_cdata e d1)).

  Definition simplify_string (events : list cevent) (key : Z) : res (list cevent) :=
    map_res (simplify_one key) events.
End Simplify.
