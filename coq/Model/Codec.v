(* The time codecs of the SQL back ends (property C01, codec part; window parameters for
   C03).  Definitions only; lemmas in Proofs/Codec.v, interface notes in
   notes/agents/CODEC.md.

   sqlite.py (after fix 028752f):
     _event_to_us     starttime = (event.timestamp - EPOCH) // 1us         exact integers
                      endtime   = starttime + event.duration // 1us
     _rows_to_events  datetime.fromtimestamp(row / 1000000, timezone.utc)   int / int, then
                      CPython's float -> (sec, us) conversion, ROUND_HALF_EVEN
                      duration = endtime - starttime ; Event(timestamp=starttime, ...)
     get_events / get_eventcount   starttime.timestamp() * 1000000          float parameter
   peewee.py:
     EventModel.from_event  duration = event.duration.total_seconds()   float into a DECIMAL
                            column (sent as Decimal(str(f)) text, kept by SQLite as REAL or
                            INTEGER); timestamp = the datetime, kept as its str() text
     EventModel.json        float(self.duration) -> Event(duration=float) -> timedelta(seconds=f)
                            timestamp text -> Event(timestamp=str) -> iso8601.parse_date *)
From Coq Require Import ZArith Bool List Ascii PrimFloat.
From AwVerif Require Import Base.Prelude Model.PyFloat Model.IsoTime Model.EventModel.
Open Scope Z_scope.

(* ---- sqlite ---- *)

Definition sqlite_enc (ts dur : Z) : Z * Z := (ts, ts + dur).

Definition sqlite_dec_cell (row : Z) : res Z :=
  bind (fdiv_int_int row 1000000) fromtimestamp_us.

(* (timestamp, duration) of the Event that _rows_to_events builds *)
Definition sqlite_dec (c : Z * Z) : res (Z * Z) :=
  bind (sqlite_dec_cell (fst c)) (fun st =>
  bind (sqlite_dec_cell (snd c)) (fun en =>
  bind (set_timestamp (TsDt st 0)) (fun t =>
  Ok (t, en - st)))).

(* ---- peewee ---- *)

(* the float handed to the DECIMAL column *)
Definition peewee_dur_enc (dur : Z) : res float := total_seconds_of_us dur.
(* the duration of the Event rebuilt from the float read back *)
Definition peewee_dur_dec (cell : float) : res Z := td_us_of_float_seconds cell.

(* the DATETIME column holds str(timestamp); reading parses it again and floors to ms *)
Definition peewee_ts_enc (ts : Z) : list ascii := str_utc ts.
Definition peewee_ts_dec (cell : list ascii) : res Z := set_timestamp (TsStr cell).
