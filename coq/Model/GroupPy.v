(* Python primitives that the regenerated kernels of coq/Gen/GenGroup.v are written in
   (tie B for sort_by.py and filter_keyvals).  Definitions only.  Each follows the Python
   semantics, not the model of Model/Group.v; Bridge/BridgeGroup.v proves the two agree.
   Expressions that can raise evaluate to `res`. *)
From AwVerif Require Import Base.Prelude Model.Group.

(* `k in d` for a dict *)
Definition py_in_dict (k : Z) (d : dict) : res bool :=
  Ok (match lookup k d with Some _ => true | None => false end).

(* `d[k]` raises KeyError when the key is missing *)
Definition py_getitem (d : dict) (k : Z) : res Z :=
  match lookup k d with Some v => Ok v | None => Err KeyError end.

(* `v in l` for a list: any(x is v or x == v for x in l) *)
Definition py_in_list (v : Z) (l : list Z) : res bool := Ok (existsb (fun x => x =? v) l).

(* `a and b`, `a or b` (b is not evaluated, so cannot raise, when a decides), `not a` *)
Definition py_and (a b : res bool) : res bool := bind a (fun x => if x then b else Ok false).
Definition py_or (a b : res bool) : res bool := bind a (fun x => if x then Ok true else b).
Definition py_not (a : res bool) : res bool := bind a (fun x => Ok (negb x)).

(* [e for e in l if p(e)]: conditions are evaluated left to right, the first exception
   propagates *)
Fixpoint filter_res {A} (p : A -> res bool) (l : list A) : res (list A) :=
  match l with
  | [] => Ok []
  | x :: t => bind (p x) (fun b => bind (filter_res p t) (fun r => Ok (if b then x :: r else r)))
  end.

(* sorted(l, key=...) is a stable ascending sort; sorted(l, key=..., reverse=True) is
   CPython's listsort with reverse set: reverse the list, sort it stably ascending,
   reverse the result (this is what keeps equal keys in input order) *)
Definition py_sorted {A} (key : A -> Z) (l : list A) : list A := sort_by key l.
Definition py_sorted_reverse {A} (key : A -> Z) (l : list A) : list A := rev (sort_by key (rev l)).

(* l[:stop] with PySlice_AdjustIndices: a negative stop counts from the end and is
   clipped at 0, a stop beyond the end is clipped to the length *)
Definition py_slice_to {A} (l : list A) (stop : Z) : list A :=
  let n := Z.of_nat (length l) in
  let stop' := if stop <? 0 then Z.max 0 (stop + n) else Z.min stop n in
  firstn (Z.to_nat stop') l.
