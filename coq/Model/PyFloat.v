(* Bit-exact model of the CPython float <-> integer-microsecond conversions that aw-core
   relies on (CPython 3.12, C implementations: Objects/longobject.c long_true_divide,
   Objects/floatobject.c float___trunc__, Python/pytime.c pytime_double_to_denominator /
   pytime_round_half_even, Modules/_datetimemodule.c accum / delta_new /
   delta_total_seconds / datetime_timestamp).  Python floats are Coq primitive floats
   (binary64, round-to-nearest-even, evaluated by the kernel's vm on hardware floats).

   Definitions only.  Everything is computable by vm_compute; nothing here is extracted
   (float-carrying models are run inside Coq, see harness/floatcases.py).
   Facts about these definitions: Proofs/PyFloatSpec.v (Flocq), Proofs/PyFloatFinite.v
   (exhaustive finite facts), Proofs/Codec.v.

   Error classes: Python's OverflowError / OSError have no constructor of their own in
   Base/Prelude.v and are both reported as OtherError. *)
From Coq Require Import ZArith Bool Uint63 PrimFloat SpecFloat FloatOps.
From AwVerif Require Import Base.Prelude.
Open Scope Z_scope.

(* ------------------------------------------------------------------------- *)
(* integers <-> floats *)

Definition two52 : Z := 4503599627370496.
Definition two53 : Z := 9007199254740992.

(* C (double)z.  Exact for |z| <= 2^53, correctly rounded for |z| < 2^63; callers below
   never leave the exact range. *)
Definition of_Z (z : Z) : float :=
  if z <? 0 then (- of_uint63 (Uint63.of_Z (- z)))%float else of_uint63 (Uint63.of_Z z).

Definition f1e6 : float := of_Z 1000000.
Definition f1000 : float := of_Z 1000.
Definition fhalf : float := 0x1p-1%float.
Definition ftwo : float := of_Z 2.

(* int(f), (long)f, PyLong_FromDouble(f): truncation toward zero; NaN -> ValueError,
   infinities -> OverflowError. *)
Definition int_of_float (f : float) : res Z :=
  match Prim2SF f with
  | S754_zero _ => Ok 0
  | S754_finite s m e =>
      let a := if 0 <=? e then Z.shiftl (Zpos m) e else Z.shiftr (Zpos m) (- e) in
      Ok (if s then - a else a)
  | S754_nan => Err ValueError
  | S754_infinity _ => Err OtherError
  end.

(* C modf: integral part (as the exact integer it is) and fractional part (a float with
   the sign of f, always exact).  |ip| >= 2^53 implies f is integral. *)
Definition modf (f : float) : res (Z * float) :=
  bind (int_of_float f) (fun ip =>
    Ok (ip, if Z.abs ip <? two53 then (f - of_Z ip)%float else zero)).

(* C round(): nearest integer, halves away from zero.  (The sign of a zero result is
   not tracked: every caller compares or truncates the result.) *)
Definition c_round (x : float) : float :=
  match int_of_float x with
  | Ok ip =>
      if two52 <=? Z.abs ip then x
      else
        let d := (x - of_Z ip)%float in
        if (fhalf <=? d)%float then of_Z (ip + 1)
        else if (d <=? - fhalf)%float then of_Z (ip - 1)
        else of_Z ip
  | _ => x
  end.

(* Python/pytime.c pytime_round_half_even *)
Definition round_half_even (x : float) : float :=
  let r := c_round x in
  if (abs (x - r) =? fhalf)%float then (ftwo * c_round (x / ftwo))%float else r.

(* Objects/longobject.c long_true_divide: the correctly rounded quotient a / b.  CPython
   itself takes the fast path (double)a / (double)b when both fit a double exactly; the
   general path is the IEEE division of the two integers taken as (unnormalised)
   significands with exponent 0. *)
Definition sf_of_Z (z : Z) : spec_float :=
  match z with
  | Z0 => S754_zero false
  | Zpos p => S754_finite false p 0
  | Zneg p => S754_finite true p 0
  end.

Definition fdiv_int_int (a b : Z) : res float :=
  if b =? 0 then Err OtherError (* ZeroDivisionError *)
  else if (Z.abs a <=? two53) && (Z.abs b <=? two53) then Ok (of_Z a / of_Z b)%float
  else
    let q := SF2Prim (SFdiv prec emax (sf_of_Z a) (sf_of_Z b)) in
    if is_infinity q then Err OtherError (* OverflowError *) else Ok q.

(* ------------------------------------------------------------------------- *)
(* datetime / timedelta ranges *)

Definition us_per_s : Z := 1000000.
Definition us_per_day : Z := 86400000000.
Definition min_sec : Z := -62135596800.     (* 0001-01-01T00:00:00Z *)
Definition max_sec : Z := 253402300799.     (* 9999-12-31T23:59:59Z *)
Definition max_days : Z := 999999999.

(* new_delta's check: days = us // 86400e6 must satisfy |days| <= 999999999 *)
Definition td_check (us : Z) : res Z :=
  let days := us / us_per_day in
  if (- max_days <=? days) && (days <=? max_days) then Ok us else Err OtherError.

(* ------------------------------------------------------------------------- *)
(* timedelta.total_seconds(), datetime.timestamp() of an aware datetime:
   total microseconds (exact integer) / 10**6, int/int true division *)

Definition total_seconds_of_us (us : Z) : res float := fdiv_int_int us us_per_s.
Definition timestamp_float_of_us (utc_us : Z) : res float := fdiv_int_int utc_us us_per_s.

(* x.timestamp() * 1000000 : the float window parameter of sqlite.py get_events /
   get_eventcount (the int 1000000 is converted to a double, exactly) *)
Definition sqlite_float_param (utc_us : Z) : res float :=
  bind (timestamp_float_of_us utc_us) (fun t => Ok (t * f1e6)%float).

(* ------------------------------------------------------------------------- *)
(* datetime.fromtimestamp(t, timezone.utc) as integer microseconds since the epoch:
   _PyTime_ObjectToTimeval(t, ROUND_HALF_EVEN) = pytime_double_to_denominator(t, 1e6) *)

Definition fromtimestamp_us (t : float) : res Z :=
  bind (modf t) (fun ipfp =>
    let ip := fst ipfp in
    let m := round_half_even (snd ipfp * f1e6)%float in
    bind (if (f1e6 <=? m)%float then
            bind (int_of_float (m - f1e6)%float) (fun u => Ok (ip + 1, u))
          else if (m <? zero)%float then
            bind (int_of_float (m + f1e6)%float) (fun u => Ok (ip - 1, u))
          else bind (int_of_float m) (fun u => Ok (ip, u)))
      (fun su =>
         let sec := fst su in
         if (sec <? - 2 ^ 63) || (2 ^ 63 <=? sec) then Err OtherError       (* time_t *)
         else if (sec <? min_sec) || (max_sec <? sec) then
           (* "year N is out of range" while gmtime can still express the year, errno
              EOVERFLOW (OSError) beyond *)
           if Z.abs sec <? 67000000000000000 then Err ValueError else Err OtherError
         else Ok (sec * us_per_s + snd su))).

(* ------------------------------------------------------------------------- *)
(* timedelta(seconds=<float>): _datetimemodule.c accum() on the float, then delta_new's
   round-half-even of the left-over fraction, as total microseconds *)

Definition td_us_of_float_seconds (x : float) : res Z :=
  bind (modf x) (fun ipfp =>
    let sofar := fst ipfp * us_per_s in
    let fp := snd ipfp in
    bind (if (fp =? zero)%float then Ok (sofar, zero)
          else bind (modf (f1e6 * fp)%float) (fun ipfp2 => Ok (sofar + fst ipfp2, snd ipfp2)))
      (fun xl =>
         let xus := fst xl in
         let leftover := snd xl in
         bind (if (leftover =? zero)%float then Ok xus
               else
                 let whole := c_round leftover in
                 let whole' :=
                   if (abs (whole - leftover) =? fhalf)%float then
                     let odd := of_Z (xus mod 2) in          (* x & 1 on a Python int *)
                     (ftwo * c_round ((leftover + odd) * fhalf) - odd)%float
                   else whole in
                 bind (int_of_float whole') (fun w => Ok (xus + w)))
           td_check)).

(* timedelta(seconds=<int>) *)
Definition td_us_of_int_seconds (s : Z) : res Z := td_check (s * us_per_s).

(* ------------------------------------------------------------------------- *)
(* the millisecond roundings written with float division in aw-core *)

(* models.py _timestamp_parse:  int(ts.microsecond / 1000) * 1000 *)
Definition ms_floor_float (usf : Z) : res Z :=
  bind (fdiv_int_int usf 1000) (fun q => bind (int_of_float q) (fun i => Ok (i * 1000))).

(* datastore.py Bucket.get, start edge:  1000 * int(starttime.microsecond / 1000) *)
Definition bucket_start_us (usf : Z) : res Z :=
  bind (fdiv_int_int usf 1000) (fun q => bind (int_of_float q) (fun i => Ok (1000 * i))).

(* datastore.py Bucket.get, end edge:
     milliseconds = 1 + int(endtime.microsecond / 1000)
     second_offset = int(milliseconds / 1000)
     microseconds = (1000 * milliseconds) % 1000000
   result: (second_offset, microseconds) *)
Definition bucket_end_parts (usf : Z) : res (Z * Z) :=
  bind (fdiv_int_int usf 1000) (fun q => bind (int_of_float q) (fun i =>
    let ms := 1 + i in
    bind (fdiv_int_int ms 1000) (fun q2 => bind (int_of_float q2) (fun so =>
      Ok (so, (1000 * ms) mod 1000000))))).
