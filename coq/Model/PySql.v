(* Vocabulary of the source-level translation of aw_datastore/storages/sqlite.py
   (translate/k_sqlstore.py -> Gen/GenSqliteStore.v).  Definitions only.

   The translator maps every SQL text of the source (whitespace / keyword-case normalised)
   through a table to ONE statement function of Model/SqliteStore.v applied to the `?`
   parameters in their positions.  What is fixed here is the little glue the table needs:
   a row of cells (starttime, endtime, datastr) as the event the model's statement
   functions take, `id = NULL` matching no row, executemany, cursor iteration. *)
From AwVerif Require Import Base.Prelude Model.StoreBase Model.SqliteStore.

(* the cells (starttime, endtime, datastr) bound to three `?` *)
Definition cells_event (starttime endtime datastr : Z) : event :=
  mkEvent None starttime (endtime - starttime) datastr.

(* UPDATE events ... WHERE id = ? AND bucketrow = (...)   with a parameter that may be NULL:
   `id = NULL` is never true, the statement touches no row *)
Definition sql_update_event_n (c : sqstate) (b : Z) (oi : option Z) (e : event) : sqstate :=
  match oi with
  | Some i => sql_update_event c b i e
  | None => c
  end.

(* conn.executemany(sql, rows): the statement once per parameter row, in order; the first
   failing row raises and the rows before it stay *)
Fixpoint py_executemany {P} (stmt : sqstate -> P -> res (sqstate * Z)) (rows : list P) (c : sqstate)
  : sqstate * res unit :=
  match rows with
  | [] => (c, Ok tt)
  | p :: t => match stmt c p with
              | Ok (c', _) => py_executemany stmt t c'
              | Err k => (c, Err k)
              | OutOfFuel => (c, OutOfFuel)
              end
  end.

(* for x in xs: body   (heap = the database; no loop-carried locals are needed by sqlite.py) *)
Fixpoint sq_for {X} (body : sqstate -> X -> sqstate * res unit) (xs : list X) (c : sqstate) : sqstate * res unit :=
  match xs with
  | [] => (c, Ok tt)
  | x :: t => match body c x with
              | (c', Ok _) => sq_for body t c'
              | (c', r) => (c', r)
              end
  end.
