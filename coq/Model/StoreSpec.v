(* The reference model of C02/C05: one plain event list (and one metadata record) per
   bucket.  State = insertion-ordered association list  bucket id -> (meta, events).
   `spec_step s op s' o` is a relation: the id given to a new event is ANY id that is not
   live in that bucket, "the newest event" is ANY event of maximal timestamp
   (pick-parametric), a limited read keeps ANY admissible choice among tied events, and
   the value returned by a pure write (None / True / the event) is left open.
   `pre` is the side condition of the C02 quantifier.  Definitions only. *)
From Coq Require Import Permutation Sorted.
From AwVerif Require Import Base.Prelude Model.StoreBase.

Definition sstate := list (Z * (meta * list event)).

Definition spec_init : sstate := [].

Definition live_ids (es : list event) : list Z :=
  flat_map (fun e => match eid e with Some i => [i] | None => [] end) es.

Definition is_live (i : Z) (es : list event) : Prop := In i (live_ids es).

(* replace-by-id on a list: the event(s) carrying id i become `e` carrying id i *)
Definition spec_replace (i : Z) (e : event) (es : list event) : list event :=
  map (fun x => if has_id i x then set_eid e (Some i) else x) es.

Definition spec_delete (i : Z) (es : list event) : list event :=
  filter (fun x => negb (has_id i x)) es.

(* an event of maximal timestamp *)
Definition is_newest (l : event) (es : list event) : Prop :=
  In l es /\ forall x, In x es -> ts x <= ts l.

(* events sorted by timestamp, newest first *)
Definition sorted_desc (l : list event) : Prop := Sorted (fun a b => ts b <= ts a) l.

(* get_events(limit) without a window: an arrangement of all events newest first, cut *)
Definition spec_read (es : list event) (limit : Z) (l : list event) : Prop :=
  if limit =? 0 then l = []
  else exists full, Permutation full es /\ sorted_desc full /\
                    l = (if limit <? 0 then full else firstn (Z.to_nat limit) full).

(* bulk insert/upsert = for each event in order: replace-by-id when it carries an id,
   append under a fresh id otherwise *)
Inductive spec_many : list event -> list event -> list event -> Prop :=
  | sm_nil : forall cur, spec_many cur [] cur
  | sm_upsert : forall cur e i t r,
      eid e = Some i -> spec_many (spec_replace i e cur) t r -> spec_many cur (e :: t) r
  | sm_insert : forall cur e i t r,
      eid e = None -> ~ is_live i cur ->
      spec_many (cur ++ [set_eid e (Some i)]) t r -> spec_many cur (e :: t) r.

(* metadata a freshly created bucket must list: everything given; the name only when a
   (non-empty) one was given *)
Definition created_meta (given stored : meta) : Prop :=
  m_type stored = m_type given /\ m_client stored = m_client given /\
  m_hostname stored = m_hostname given /\ m_created stored = m_created given /\
  m_data stored = m_data given /\
  (opt_truthy (m_name given) = true -> m_name stored = m_name given).

Definition supplied_ok (o : option Z) : Prop := match o with Some v => v <> 0 | None => True end.

(* the side condition of the quantifier, on the abstract state *)
Definition pre (s : sstate) (o : op) : Prop :=
  match o with
  | CreateBucket b _ => aget b s = None
  | UpdateBucket b ty cl ho na da =>
      aget b s <> None /\ supplied_ok ty /\ supplied_ok cl /\ supplied_ok ho /\
      supplied_ok na /\ supplied_ok da /\
      (not_none ty || not_none cl || not_none ho || not_none na || not_none da = true)
  | DeleteBucket b | GetMetadata b | GetEvent b _ | Delete b _ => aget b s <> None
  | Buckets => True
  | InsertOne b e => aget b s <> None /\ eid e = None
  | InsertMany b es =>
      exists m cur, aget b s = Some (m, cur) /\
                    forall e i, In e es -> eid e = Some i -> is_live i cur
  | Replace b i _ => exists m cur, aget b s = Some (m, cur) /\ is_live i cur
  | ReplaceLast b _ => exists m cur, aget b s = Some (m, cur) /\ cur <> []
  | GetEvents b _ st en => aget b s <> None /\ st = None /\ en = None
  | GetEventCount b st en => aget b s <> None /\ st = None /\ en = None
  end.

Inductive spec_step : sstate -> op -> sstate -> out -> Prop :=
  | sp_create : forall s b m m' o,
      aget b s = None -> created_meta m m' ->
      spec_step s (CreateBucket b m) (aset b (m', []) s) o
  | sp_update : forall s b ty cl ho na da m es o,
      aget b s = Some (m, es) ->
      spec_step s (UpdateBucket b ty cl ho na da)
                (aset b (update_meta not_none ty cl ho na da m, es) s) o
  | sp_delete_bucket : forall s b v o,
      aget b s = Some v -> spec_step s (DeleteBucket b) (adel b s) o
  | sp_buckets : forall s,
      spec_step s Buckets s (OBuckets (map (fun kv => (fst kv, fst (snd kv))) s))
  | sp_metadata : forall s b m es,
      aget b s = Some (m, es) -> spec_step s (GetMetadata b) s (OMeta b m)
  | sp_insert_one : forall s b e m es i,
      aget b s = Some (m, es) -> eid e = None -> ~ is_live i es ->
      spec_step s (InsertOne b e) (aset b (m, es ++ [set_eid e (Some i)]) s)
                (OEvent (Some (set_eid e (Some i))))
  | sp_insert_many : forall s b evs m es es' o,
      aget b s = Some (m, es) -> spec_many es evs es' ->
      spec_step s (InsertMany b evs) (aset b (m, es') s) o
  | sp_replace : forall s b i e m es o,
      aget b s = Some (m, es) -> is_live i es ->
      spec_step s (Replace b i e) (aset b (m, spec_replace i e es) s) o
  | sp_replace_last : forall s b e m es l i o,
      aget b s = Some (m, es) -> is_newest l es -> eid l = Some i ->
      spec_step s (ReplaceLast b e) (aset b (m, spec_replace i e es) s) o
  | sp_delete_live : forall s b i m es,
      aget b s = Some (m, es) -> is_live i es ->
      spec_step s (Delete b i) (aset b (m, spec_delete i es) s) (OBool true)
  | sp_delete_absent : forall s b i m es,
      aget b s = Some (m, es) -> ~ is_live i es ->
      spec_step s (Delete b i) s (OBool false)
  | sp_get_event_live : forall s b i m es e,
      aget b s = Some (m, es) -> In e es -> eid e = Some i ->
      spec_step s (GetEvent b i) s (OEvent (Some e))
  | sp_get_event_absent : forall s b i m es,
      aget b s = Some (m, es) -> ~ is_live i es ->
      spec_step s (GetEvent b i) s (OEvent None)
  | sp_get_events : forall s b limit m es l,
      aget b s = Some (m, es) -> spec_read es limit l ->
      spec_step s (GetEvents b limit None None) s (OEvents l)
  | sp_count : forall s b m es,
      aget b s = Some (m, es) ->
      spec_step s (GetEventCount b None None) s (OCount (Z.of_nat (length es))).

(* a history run on the reference model *)
Inductive spec_run : sstate -> list op -> sstate -> Prop :=
  | sr_nil : forall s, spec_run s [] s
  | sr_cons : forall s o s1 out t s2,
      spec_step s o s1 out -> spec_run s1 t s2 -> spec_run s (o :: t) s2.

(* representation invariant of the reference state *)
Definition ids_unique (es : list event) : Prop :=
  NoDup (live_ids es) /\ forall e, In e es -> eid e <> None.
Definition spec_wf (s : sstate) : Prop :=
  NoDup (akeys s) /\ forall b m es, aget b s = Some (m, es) -> ids_unique es.

(* Domain of the instants (DESIGN 2.2: 1970..2100, an event does not end before the epoch):
   sqlite's unwindowed read is `endtime >= 0 AND starttime <= 2^63-1`. *)
Definition ev_dom (e : event) : Prop := 0 <= ts e + dur e /\ ts e <= 2 ^ 63 - 1.
Definition op_dom (o : op) : Prop :=
  match o with
  | InsertOne _ e | Replace _ _ e | ReplaceLast _ e => ev_dom e
  | InsertMany _ es => forall e, In e es -> ev_dom e
  | _ => True
  end.
