(* Wire format and driver entry of the crash/state model (Model/CrashStore.v), extracted
   by Extract/ExC06State.v.  Definitions only (glue: decoding, running, printing).

   case   : (lazy t0 (call ...))         run from [cr_init sq_init t0]      (lazy = 0 | 1)
          | (2 (cop ...) skip) | (3 (cop ...) (j ...))   see [driver_entry] (real crashes, thorough tier)
   call   : (cop (clk ...))              clk = (r1 r2 r3), one per OBSERVED micro-step of the
                                         call (a row of an executemany counts as one step)
   cop    : (0 op) | (1 b (ev ...) k) | (2 b (ev ...) k)    (1: bulk statement raises on row k; 2: the upsert
                                         loop raises on id-carrying event k)    op as in Extract/ExC02.v:
            (0 b meta) create | (1 b ty? cl? ho? na? da?) update | (2 b) delete_bucket
            (3) buckets | (4 b) get_metadata | (5 b ev) insert_one | (6 b (ev..)) insert_many
            (7 b id ev) replace | (8 b ev) replace_last | (9 b id) delete | (10 b id) get_event
            (11 b limit st? en?) get_events | (12 b st? en?) get_eventcount
   answer : ((call-answer ...) live-tables)
   call-answer : (1 shape (step ...) res)   the model's script has as many steps as clks given
               | (0 shape)                  it has not: the run stops here
     shape  : the model's flattened script, ((0) exec | (2) read | (3) commit | (4 k) cond-commit ...)
     step   : (n last (tables)?)  bookkeeping after the step; the durable tables when the
              step may have changed them (a commit step, or a conditional_commit that leaves
              the counter at 0 - every conditional_commit that commits does - after at least
              one statement since the previous such step), else () = unchanged
     res    : (0) the call returns | (1 errcode) it raises | (2)
     tables : (((rowid id meta) ...) ((id bucketrow start end data) ...) seq_buckets seq_events) *)
From AwVerif Require Import Base.Prelude Base.Sexp Model.Commit.
From AwVerif Require Import Model.StoreBase Model.SqliteStore Model.CrashStore.

Definition sMeta (s : sexp) : option meta :=
  match s with
  | L [A ty; A cl; A ho; A cr; na; A da] =>
      match sOptZ na with Some na => Some (mkMeta ty cl ho cr na da) | None => None end
  | _ => None
  end.
Definition meta_s (m : meta) : sexp :=
  L [A (m_type m); A (m_client m); A (m_hostname m); A (m_created m); optZ_s (m_name m); A (m_data m)].

Definition sOp (s : sexp) : option op :=
  match s with
  | L [A 0; A b; m] => match sMeta m with Some m => Some (CreateBucket b m) | None => None end
  | L [A 1; A b; ty; cl; ho; na; da] =>
      match sOptZ ty, sOptZ cl, sOptZ ho, sOptZ na, sOptZ da with
      | Some ty, Some cl, Some ho, Some na, Some da => Some (UpdateBucket b ty cl ho na da)
      | _, _, _, _, _ => None
      end
  | L [A 2; A b] => Some (DeleteBucket b)
  | L [A 3] => Some Buckets
  | L [A 4; A b] => Some (GetMetadata b)
  | L [A 5; A b; e] => match sEvent e with Some e => Some (InsertOne b e) | None => None end
  | L [A 6; A b; es] => match sEvents es with Some es => Some (InsertMany b es) | None => None end
  | L [A 7; A b; A i; e] => match sEvent e with Some e => Some (Replace b i e) | None => None end
  | L [A 8; A b; e] => match sEvent e with Some e => Some (ReplaceLast b e) | None => None end
  | L [A 9; A b; A i] => Some (Delete b i)
  | L [A 10; A b; A i] => Some (GetEvent b i)
  | L [A 11; A b; A limit; st; en] =>
      match sOptZ st, sOptZ en with
      | Some st, Some en => Some (GetEvents b limit st en)
      | _, _ => None
      end
  | L [A 12; A b; st; en] =>
      match sOptZ st, sOptZ en with
      | Some st, Some en => Some (GetEventCount b st en)
      | _, _ => None
      end
  | _ => None
  end.

Definition sCop (s : sexp) : option cop :=
  match s with
  | L [A 0; o] => match sOp o with Some o => Some (Std o) | None => None end
  | L [A 1; A b; es; A k] =>
      match sEvents es with
      | Some es => if k <? 0 then None else Some (BulkOverflow b es (Z.to_nat k))
      | None => None
      end
  | L [A 2; A b; es; A k] =>
      match sEvents es with
      | Some es => if k <? 0 then None else Some (UpsertOverflow b es (Z.to_nat k))
      | None => None
      end
  | _ => None
  end.

Definition sClk (s : sexp) : option clk :=
  match s with L [A a; A b; A c] => Some (mkClk a b c) | _ => None end.

Definition sCall (s : sexp) : option (cop * list clk) :=
  match s with
  | L [o; cs] => match sCop o, sList sClk cs with Some o, Some cs => Some (o, cs) | _, _ => None end
  | _ => None
  end.

Definition tables_s (c : sqstate) : sexp :=
  L [L (map (fun r => L [A (br_rowid r); A (br_id r); meta_s (br_meta r)]) (sq_buckets c));
     L (map (fun r => L [A (er_id r); A (er_bucket r); A (er_start r); A (er_end r); A (er_data r)])
            (sq_events c));
     A (sq_seq_b c); A (sq_seq_e c)].

(* executemany row by row (Proofs/CrashStoreState.v: [cr_run_flatten], same state) *)
Definition flatten_micro (m : smicro) : list smicro :=
  match m with SExecMany qs => map SExec qs | _ => [m] end.

Definition shape_s (m : smicro) : sexp :=
  match m with
  | SExec _ => L [A 0]
  | SExecMany _ => L [A 1]
  | SRead => L [A 2]
  | SCommit => L [A 3]
  | SCondCommit k => L [A 4; A k]
  end.

(* [durable] changes only when a commit finds statements executed since the previous
   commit ([dirty]); it is printed exactly then (printing more often would be harmless) *)
Definition may_have_committed (m : smicro) (s' : crstate) : bool :=
  match m with
  | SCommit => true
  | SCondCommit _ => cr_n s' =? 0
  | _ => false
  end.
Definition is_exec (m : smicro) : bool :=
  match m with SExec _ | SExecMany _ => true | _ => false end.

Fixpoint run_steps (lazy : bool) (s : crstate) (dirty : bool) (ms : list smicro) (cs : list clk)
  : list sexp * (crstate * bool) :=
  match ms, cs with
  | m :: ms', c :: cs' =>
      let s' := cr_step lazy s (m, c) in
      let com := may_have_committed m s' in
      let d := if com && dirty then L [tables_s (durable s')] else L [] in
      let dirty' := if com then false else dirty || is_exec m in
      let '(l, fin) := run_steps lazy s' dirty' ms' cs' in
      (L [A (cr_n s'); A (cr_last s'); d] :: l, fin)
  | _, _ => ([], (s, dirty))
  end.

Definition out_code (r : res out) : sexp :=
  match r with
  | Ok _ => L [A 0]
  | Err c => L [A 1; A (errclass_code c)]
  | OutOfFuel => L [A 2]
  end.

Fixpoint run_calls (lazy : bool) (s : crstate) (dirty : bool) (calls : list (cop * list clk))
  : list sexp * crstate :=
  match calls with
  | [] => ([], s)
  | (o, cs) :: t =>
      let ms := flat_map flatten_micro (sscript (live s) o) in
      if Nat.eqb (length ms) (length cs) then
        let '(steps, (s', dirty')) := run_steps lazy s dirty ms cs in
        let '(l, fin) := run_calls lazy s' dirty' t in
        (L [A 1; L (map shape_s ms); L steps; out_code (cop_out (live s) o)] :: l, fin)
      else ([L [A 0; L (map shape_s ms)]], s)
  end.

(* ---- real crashes (thorough tier): the tables after the first j statements of a history ---- *)

Definition digest_s (c : sqstate) : sexp :=
  L [A (Z.of_nat (length (sq_buckets c))); A (Z.of_nat (length (sq_events c)));
     A (sq_seq_b c); A (sq_seq_e c);
     A (sumZ (map er_data (sq_events c)) mod 1000000007);
     A (sumZ (map er_start (sq_events c)) mod 1000000007)].

(* digests of [apply_stmts c (firstn j qs)] for j = skip .. |qs| *)
Fixpoint prefix_digests (skip : nat) (c : sqstate) (qs : list stmt) : list sexp :=
  let rest := match qs with [] => [] | q :: t => prefix_digests (Nat.pred skip) (stmt_step c q) t end in
  match skip with O => digest_s c :: rest | S _ => rest end.

Fixpoint script_sizes (c : sqstate) (h : list cop) : list Z :=
  match h with
  | [] => []
  | o :: t => Z.of_nat (length (stmts_of (sscript c o))) :: script_sizes (cop_live c o) t
  end.

Definition sCops (s : sexp) : option (list cop) := sList sCop s.

Definition driver_entry (s : sexp) : sexp :=
  match s with
  | L [A 2; h; A skip] =>
      (* (2 (cop ...) skip) -> ((statements per call ...) (digest of the tables after j statements, j >= skip ...)) *)
      match sCops h with
      | Some h =>
          L [L (map A (script_sizes sq_init h));
             L (prefix_digests (Z.to_nat skip) sq_init (stmts_of (hist_script sq_init h)))]
      | None => bad_case
      end
  | L [A 3; h; js] =>
      (* (3 (cop ...) (j ...)) -> the tables after the first j statements, for each j *)
      match sCops h, sZs js with
      | Some h, Some js =>
          let qs := stmts_of (hist_script sq_init h) in
          L (map (fun j => tables_s (apply_stmts sq_init (firstn (Z.to_nat j) qs))) js)
      | _, _ => bad_case
      end
  | L [lz; A t0; calls] =>
      match sBool lz, sList sCall calls with
      | Some lz, Some calls =>
          let '(l, fin) := run_calls lz (cr_init sq_init t0) false calls in
          L [L l; tables_s (live fin)]
      | _, _ => bad_case
      end
  | _ => bad_case
  end.
