(* Tie B for the sqlite time codec (C01 codec part): the module-level helpers _event_to_us and
   _rows_to_events of aw_datastore/storages/sqlite.py and the constants _EPOCH / _MICROSECOND,
   re-translated from /repo on every run (translate/k_models.py -> Gen/GenSqliteCodec.v), equal
   Model/Codec.v (sqlite_enc, sqlite_dec) and the cells that Model/SqliteStore.v writes
   (set_cells, sql_insert_event: (ts e, ts e + dur e)).  Kept apart from the store bridge because
   of the float-carrying imports. *)
From Coq Require Import ZArith Bool List Ascii PrimFloat Lia.
From AwVerif Require Import Base.Prelude Model.PyFloat Model.IsoTime Model.EventModel Model.Codec
  Model.StoreBase Model.SqliteStore Gen.GenEventModel Bridge.BridgeEventModel Gen.GenSqliteCodec.
Open Scope Z_scope.

(* _EPOCH = datetime(1970, 1, 1, tzinfo=timezone.utc) is instant 0; _MICROSECOND = timedelta(microseconds=1) *)
Lemma bridge_epoch : gen_EPOCH = PyAware 0 0.
Proof. reflexivity. Qed.
Print Assumptions bridge_epoch.
Lemma bridge_microsecond : gen_MICROSECOND = 1.
Proof. reflexivity. Qed.
Print Assumptions bridge_microsecond.

(* _event_to_us: exact integers (starttime, starttime + duration) *)
Lemma bridge_event_to_us : forall e, gen_event_to_us e = Ok (sqlite_enc (ts e) (dur e)).
Proof.
  intros e. unfold gen_event_to_us, sqlite_enc. rewrite bridge_epoch, bridge_microsecond.
  cbn [dt_sub bind td_floordiv Z.eqb]. rewrite Z.sub_0_r, !Z.div_1_r. reflexivity.
Qed.
Print Assumptions bridge_event_to_us.

(* ... which are the cells Model/SqliteStore.v stores for an event *)
Lemma bridge_event_to_us_cells : forall r e,
  gen_event_to_us e = Ok (er_start (set_cells r e), er_end (set_cells r e)).
Proof. intros r e. rewrite bridge_event_to_us. reflexivity. Qed.
Print Assumptions bridge_event_to_us_cells.

(* _rows_to_events, one row (id, starttime, endtime, datastr): the Event built is the one of sqlite_dec *)
Lemma bridge_row_to_event : forall ed r0 r1 r2 r3,
  gen_row_to_event ed (r0, r1, r2, r3) =
  bind (sqlite_dec (r1, r2)) (fun td => Ok (dict_of_event (mkEvent (Some r0) (fst td) (snd td) r3))).
Proof.
  intros ed r0 r1 r2 r3. unfold gen_row_to_event, sqlite_dec, sqlite_dec_cell, dt_fromtimestamp_utc.
  cbn [fst snd].
  destruct (fdiv_int_int r1 1000000) as [f1|c|]; cbn [bind]; try reflexivity.
  destruct (fromtimestamp_us f1) as [st|c|]; cbn [bind]; try reflexivity.
  destruct (fdiv_int_int r2 1000000) as [f2|c|]; cbn [bind]; try reflexivity.
  destruct (fromtimestamp_us f2) as [en|c|]; cbn [bind dt_sub ts_in_of_dt]; try reflexivity.
  rewrite bridge_init. unfold mk_event. cbn [or_empty_dict set_duration].
  destruct (set_timestamp (TsDt st 0)) as [t|c|]; reflexivity.
Qed.
Print Assumptions bridge_row_to_event.
