(* Tie B for flood.py: the loop body and the frame regenerated from /repo's current source
   are extensionally the hand-written model the theorems of C10 are about. *)
From AwVerif Require Import Base.Prelude Model.Flood Gen.GenFlood.
From Coq Require Import ZifyBool.

Ltac split_ifs :=
  repeat match goal with
  | |- context [if ?b then _ else _] => let E := fresh "E" in destruct b eqn:E
  end.

Lemma bridge_flood_step : forall p ws wu e1 e2,
  gen_flood_step p ws wu e1 e2 = flood_step p ws wu e1 e2.
Proof.
  intros p ws wu e1 e2.
  cbv [gen_flood_step flood_step gen_assign_ts assign_ts floor_ms negative_gap_trim_thres
       set_dur set_ts ts dur data eid].
  destruct e1 as [i1 t1 d1 x1], e2 as [i2 t2 d2 x2], ws, wu; cbv [negb];
    split_ifs; try reflexivity; try (exfalso; lia); repeat f_equal; lia.
Qed.
Print Assumptions bridge_flood_step.

Lemma bridge_flood_walk : forall p rest ws wu cur,
  gen_pairwise (gen_flood_step p) ws wu cur rest = flood_walk p ws wu cur rest.
Proof.
  intros p rest. induction rest as [|n r IH]; intros ws wu cur; cbn [gen_pairwise flood_walk]; [reflexivity|].
  rewrite bridge_flood_step. destruct (flood_step p ws wu cur n) as [[c' n'] [ws' wu']].
  rewrite IH. reflexivity.
Qed.

Lemma bridge_flood : forall events p, gen_flood events p = flood events p.
Proof.
  intros events p. cbv [gen_flood flood gen_zip_walk].
  change (fun e : event => ts e) with ts.
  destruct (sort_by ts events) as [|first rest]; [reflexivity|].
  rewrite bridge_flood_walk. reflexivity.
Qed.
Print Assumptions bridge_flood.
