(* Tie B for aw_datastore/storages/sqlite.py: the methods of SqliteStorage, re-translated
   from /repo's source on every run (translate/k_sqlstore.py -> Gen/GenSqliteStore.v: which
   SQL statement - looked up by its normalised text in the translator's table - runs in
   which order with which parameter expression in which `?` position, and what is done with
   rowcount / lastrowid / fetchone() / the decoded rows), ARE the hand-written model
   `sq_step` of Model/SqliteStore.v.  A swapped parameter (bucket id vs event id), another
   statement, a changed order, `rowcount == 1` test, window default (0 / MAX_TIMESTAMP),
   limit rule, row-decoding index or `_event_to_us` expression makes a lemma here fail; a
   changed SQL text (WHERE conjunct, ORDER BY, LIMIT) is refused by the translator. *)
From Coq Require Import ZifyBool.
From AwVerif Require Import Base.Prelude Model.StoreBase Model.SqliteStore Model.PySql Gen.GenSqliteStore.

Lemma bridge_MAX_TIMESTAMP : gen_MAX_TIMESTAMP = MAX_TIMESTAMP.
Proof. reflexivity. Qed.
Print Assumptions bridge_MAX_TIMESTAMP.

(* _event_to_us: (start, end) in integer microseconds *)
Lemma bridge_event_to_us : forall e, gen_event_to_us e = (ts e, ts e + dur e).
Proof. reflexivity. Qed.
Print Assumptions bridge_event_to_us.

(* _rows_to_events: column 0 -> id, 1 -> start, 2 -> end (duration = end - start), 3 -> data *)
Lemma bridge_rows_to_events : forall rows, gen_rows_to_events rows = map row_event rows.
Proof. reflexivity. Qed.
Print Assumptions bridge_rows_to_events.

(* the three cells an event is stored as, put back together *)
Lemma cells_of_event : forall e i,
  set_cells i (cells_event (ts e) (ts e + dur e) (data e)) = set_cells i e.
Proof. intros. unfold set_cells, cells_event. cbn [ts dur data]. f_equal. lia. Qed.

Lemma insert_cells : forall c b e,
  sql_insert_event c b (cells_event (ts e) (ts e + dur e) (data e)) = sql_insert_event c b e.
Proof.
  intros. unfold sql_insert_event, cells_event. cbn [ts dur data].
  replace (ts e + (ts e + dur e - ts e)) with (ts e + dur e) by lia. reflexivity.
Qed.

Lemma update_cells : forall c b i e,
  sql_update_event c b i (cells_event (ts e) (ts e + dur e) (data e)) = sql_update_event c b i e.
Proof.
  intros. unfold sql_update_event. f_equal. unfold update_where. apply map_ext. intro r.
  now rewrite cells_of_event.
Qed.

Lemma newest_cells : forall c b e,
  sql_update_newest c b (cells_event (ts e) (ts e + dur e) (data e)) = sql_update_newest c b e.
Proof.
  intros. unfold sql_update_newest. f_equal. unfold update_where. apply map_ext. intro r.
  now rewrite cells_of_event.
Qed.

Lemma meta_eta : forall m, mkMeta (m_type m) (m_client m) (m_hostname m) (m_created m) (m_name m) (m_data m) = m.
Proof. now intros []. Qed.

Lemma bridge_sq_get_metadata : forall c b, gen_sq_get_metadata c b = (c, sq_get_metadata c b).
Proof.
  intros. unfold gen_sq_get_metadata, sq_get_metadata. destruct (sql_select_bucket c b); [|reflexivity].
  now rewrite meta_eta.
Qed.

(* _replace: the UPDATE of replace() without the commit bookkeeping (the helper insert_many's
   upsert loop calls since a00ceb1) *)
Lemma bridge_sq__replace : forall c b i e, gen_sq__replace c b (Some i) e = (sq_replace c b i e, Ok ONone).
Proof. intros. unfold gen_sq__replace, sq_replace. cbn. now rewrite update_cells. Qed.

Lemma bridge_sq_replace : forall c b i e, gen_sq_replace c b (Some i) e = (sq_replace c b i e, Ok (OBool true)).
Proof. intros. unfold gen_sq_replace. now rewrite bridge_sq__replace. Qed.

Lemma upserts_loop : forall (body : sqstate -> event -> sqstate * res unit) b,
  (forall c e, body c e = match gen_sq__replace c b (eid e) e with
                          | (c', Ok _) => (c', Ok tt)
                          | (c', Err k) => (c', Err k)
                          | (c', OutOfFuel) => (c', OutOfFuel)
                          end) ->
  forall es c,
  sq_for body (filter (fun e => negb (match eid e with None => true | Some _ => false end)) es) c
  = (sq_upserts c b es, Ok tt).
Proof.
  intros body b Hb. induction es as [|e t IH]; intros c; [reflexivity|].
  cbn [filter sq_upserts]. destruct (eid e) as [i|] eqn:E; cbn [negb]; [|apply IH].
  cbn [sq_for]. rewrite Hb, E, bridge_sq__replace. apply IH.
Qed.

Lemma executemany_loop : forall b es c,
  py_executemany (fun st '(p0, p1, p2, p3) => sql_insert_event st p0 (cells_event p1 p2 p3))
    (map (fun e => let '(starttime, endtime) := gen_event_to_us e in
                   let datastr := data e in (b, starttime, endtime, datastr)) es) c
  = match sq_executemany_insert c b es with
    | (c', Ok _) => (c', Ok tt)
    | (c', Err k) => (c', Err k)
    | (c', OutOfFuel) => (c', OutOfFuel)
    end.
Proof.
  induction es as [|e t IH]; intros c; [reflexivity|].
  cbn [map py_executemany sq_executemany_insert gen_event_to_us]. rewrite insert_cells.
  destruct (sql_insert_event c b e) as [[c' i]|k|]; [apply IH|reflexivity..].
Qed.

Lemma executemany_ok_none : forall es c b c' o, sq_executemany_insert c b es = (c', Ok o) -> o = ONone.
Proof.
  induction es as [|e t IH]; intros c b c' o H; cbn in H; [now inversion H|].
  destruct (sql_insert_event c b e) as [[c1 i]|k|]; [eauto|discriminate..].
Qed.

Theorem bridge_sq_step : forall c o, gen_sq_step c o = sq_step c o.
Proof.
  intros c o. destruct o; cbn [gen_sq_step sq_step].
  - (* create_bucket *)
    unfold gen_sq_create_bucket. rewrite meta_eta.
    destruct (sql_insert_bucket c b m); [apply bridge_sq_get_metadata|reflexivity..].
  - (* update_bucket *)
    unfold gen_sq_update_bucket.
    destruct (negb (not_none type || not_none client || not_none hostname || not_none name || not_none data));
      [reflexivity|apply bridge_sq_get_metadata].
  - (* delete_bucket *)
    unfold gen_sq_delete_bucket. destruct (sql_delete_bucket (sql_delete_events_of c b) b) as [c2 n].
    now destruct (n =? 1).
  - (* buckets *)
    unfold gen_sq_buckets. cbv zeta. do 3 f_equal. apply map_ext. intro r. now rewrite meta_eta.
  - apply bridge_sq_get_metadata.
  - (* insert_one *)
    unfold gen_sq_insert_one. cbn [gen_event_to_us]. rewrite insert_cells.
    now destruct (sql_insert_event c b e) as [[c' i]|k|].
  - (* insert_many *)
    unfold gen_sq_insert_many. cbv zeta.
    match goal with |- context [sq_for ?body _ _] =>
      rewrite (upserts_loop body b (fun _ _ => eq_refl) es c) end.
    change (fun e => match eid e with None => true | Some _ => false end) with no_id.
    rewrite executemany_loop.
    destruct (sq_executemany_insert (sq_upserts c b es) b (filter no_id es)) as [c' [o|k|]] eqn:E;
      [|reflexivity..]. now rewrite (executemany_ok_none _ _ _ _ _ E).
  - apply bridge_sq_replace.
  - (* replace_last *)
    unfold gen_sq_replace_last. cbn. now rewrite newest_cells.
  - (* delete *)
    unfold gen_sq_delete. now destruct (sql_delete_event c b id).
  - (* get_event *)
    unfold gen_sq_get_event. cbv zeta. rewrite bridge_rows_to_events.
    now destruct (map row_event (sql_select_event c b id)).
  - (* get_events *)
    unfold gen_sq_get_events. destruct (limit =? 0); reflexivity.
  - (* get_eventcount *)
    reflexivity.
Qed.
Print Assumptions bridge_sq_step.

Theorem bridge_sq_run : forall h c, fold_left (fun c o => fst (gen_sq_step c o)) h c = sq_run c h.
Proof.
  induction h as [|o t IH]; intros c; [reflexivity|]. cbn [fold_left sq_run]. rewrite bridge_sq_step. apply IH.
Qed.
Print Assumptions bridge_sq_run.
