(* Tie B for aw_datastore/storages/memory.py: the methods of MemoryStorage, re-translated from
   /repo's source on every run (translate/k_memstore.py -> Gen/GenMemStore.v, over the two
   dicts `self.db` / `self._metadata` and the Python list / dict idioms of Model/PyMem.v),
   simulate the hand-written model `mem_step` of Model/MemStore.v: run on the two
   projections `split c` of a model state they return the model's result and leave the
   projections of the model's next state.  A changed comparison, id rule (`max(...) + 1`),
   loop, scan direction, exception class, window test, limit rule, dict written or deleted
   makes one of these lemmas fail. *)
From Coq Require Import ZifyBool.
From AwVerif Require Import Base.Prelude Model.StoreBase Model.MemStore Model.PyMem
  Proofs.StoreBaseFacts Proofs.StoreMemRefine Gen.GenMemStore.

(* ---- the two dicts of a model state ---- *)
Definition amap {V W} (f : V -> W) (l : list (Z * V)) : list (Z * W) :=
  map (fun kv => (fst kv, f (snd kv))) l.
Definition split (c : mstate) : pymem := mkPyMem (amap snd c) (amap fst c).

Lemma aget_amap : forall {V W} (f : V -> W) l k, aget k (amap f l) = option_map f (aget k l).
Proof.
  induction l as [|[k0 v0] t IH]; intros k; cbn; [reflexivity|].
  destruct (k0 =? k); [reflexivity|apply IH].
Qed.
Lemma aset_amap : forall {V W} (f : V -> W) l k v, aset k (f v) (amap f l) = amap f (aset k v l).
Proof.
  induction l as [|[k0 v0] t IH]; intros k v; cbn; [reflexivity|].
  destruct (k0 =? k); cbn; [reflexivity|]. f_equal. apply IH.
Qed.
Lemma adel_amap : forall {V W} (f : V -> W) l k, adel k (amap f l) = amap f (adel k l).
Proof.
  induction l as [|[k0 v0] t IH]; intros k; cbn; [reflexivity|].
  destruct (k0 =? k); cbn; [apply IH|]. f_equal. apply IH.
Qed.
Lemma akeys_amap : forall {V W} (f : V -> W) l, akeys (amap f l) = akeys l.
Proof. intros. unfold akeys, amap. rewrite map_map. reflexivity. Qed.
Lemma amap_same : forall {V W} (f : V -> W) l k v v',
  aget k l = Some v -> f v' = f v -> amap f (aset k v' l) = amap f l.
Proof.
  intros V W f l k v v' H E. rewrite <- aset_amap, E, aset_amap. f_equal. now apply aset_same.
Qed.
Lemma adel_absent : forall {V} (l : list (Z * V)) k, aget k l = None -> adel k l = l.
Proof.
  induction l as [|[k0 v0] t IH]; intros k H; cbn in *; [reflexivity|].
  destruct (k0 =? k); [discriminate|]. cbn. f_equal. now apply IH.
Qed.

(* ---- list idioms ---- *)
Lemma fold_left_rev : forall {A B} (g : A -> B -> A) l a,
  fold_left g (rev l) a = fold_right (fun i acc => g acc i) a l.
Proof.
  induction l as [|x t IH]; intros a; cbn; [reflexivity|].
  rewrite fold_left_app. cbn. now rewrite IH.
Qed.

Lemma list_set_app_len : forall {A} (pre : list A) x y t,
  list_set (length pre) x (pre ++ y :: t) = pre ++ x :: t.
Proof. induction pre; intros; cbn; [reflexivity|]. now rewrite IHpre. Qed.

Lemma set_matching : forall {A} (p : A -> bool) (x : A) l pre,
  fold_right (fun i acc => list_set i x acc) (pre ++ l) (matching_from p (length pre) l)
  = pre ++ map (fun y => if p y then x else y) l.
Proof.
  induction l as [|y t IH]; intros pre; [reflexivity|].
  cbn [matching_from map]. specialize (IH (pre ++ [y])).
  rewrite app_length, Nat.add_1_r, <- !app_assoc in IH. cbn [app] in IH.
  destruct (p y); cbn [fold_right]; rewrite IH; [|reflexivity].
  apply list_set_app_len.
Qed.

(* replace's loop over the matching indices (last first) rewrites every matching slot *)
Lemma set_rev_matching : forall {A} (p : A -> bool) (x : A) l,
  fold_left (fun es i => list_set i x es) (rev_matching_idx p l) l = map (fun y => if p y then x else y) l.
Proof. intros. unfold rev_matching_idx. rewrite fold_left_rev. apply (set_matching p x l []). Qed.

Lemma rev_head_last : forall {A} (l : list A),
  match rev l with [] => l = [] | i :: _ => last_opt l = Some i end.
Proof.
  intros A l. destruct (rev l) as [|i r] eqn:E.
  - apply (f_equal (@rev A)) in E. now rewrite rev_involutive in E.
  - apply (f_equal (@rev A)) in E. rewrite rev_involutive in E. subst l. cbn. apply last_opt_app.
Qed.

Lemma last_opt_cons : forall {A} (x : A) l,
  last_opt (x :: l) = match last_opt l with Some y => Some y | None => Some x end.
Proof.
  intros A x [|y t]; [reflexivity|].
  change (last_opt (x :: y :: t)) with (last_opt (y :: t)).
  destruct (last_opt (y :: t)) eqn:E; [reflexivity|]. apply last_opt_None in E. discriminate.
Qed.

(* delete pops the first index the reversed scan yields: the last matching one *)
Lemma pop_last_matching : forall {A} (p : A -> bool) l k,
  match last_opt (matching_from p k l) with
  | None => remove_last p l = None
  | Some i => (k <= i)%nat /\ remove_last p l = Some (list_pop (i - k) l)
  end.
Proof.
  induction l as [|x t IH]; intros k; [reflexivity|].
  cbn [matching_from remove_last]. specialize (IH (S k)).
  assert (L : last_opt (if p x then k :: matching_from p (S k) t else matching_from p (S k) t)
              = match last_opt (matching_from p (S k) t) with
                | Some y => Some y | None => if p x then Some k else None end).
  { destruct (p x); [apply last_opt_cons|]. now destruct (last_opt _). }
  rewrite L. destruct (last_opt (matching_from p (S k) t)) as [i|].
  - destruct IH as [Hi IH]. rewrite IH. split; [lia|].
    replace (i - k)%nat with (S (i - S k)) by lia. reflexivity.
  - rewrite IH. destruct (p x); [|reflexivity]. split; [lia|]. now rewrite Nat.sub_diag.
Qed.

Lemma delete_scan : forall {A} (p : A -> bool) l,
  match rev_matching_idx p l with
  | [] => remove_last p l = None
  | idx :: _ => remove_last p l = Some (list_pop idx l)
  end.
Proof.
  intros A p l. unfold rev_matching_idx.
  pose proof (rev_head_last (matching_from p 0 l)) as R. pose proof (pop_last_matching p l 0) as P.
  destruct (rev (matching_from p 0 l)) as [|i r].
  - now rewrite R in P.
  - rewrite R in P. destruct P as [_ P]. now rewrite Nat.sub_0_r in P.
Qed.

Lemma hd_error_snoc : forall {A} (l : list A) x,
  hd_error (l ++ [x]) = match hd_error l with Some y => Some y | None => Some x end.
Proof. now intros A [|y t] x. Qed.

(* _get_event keeps the first element the reversed scan yields *)
Lemma find_last_scan : forall {A} (p : A -> bool) l, find_last p l = hd_error (rev_matching p l).
Proof.
  unfold rev_matching. induction l as [|x t IH]; [reflexivity|].
  cbn [find_last filter]. rewrite IH. destruct (p x); cbn [rev].
  - now rewrite hd_error_snoc.
  - now destruct (hd_error _).
Qed.

Lemma py_or0_id : forall e, py_or0 (eid e) = id_or_0 e.
Proof.
  intros e. unfold py_or0, id_or_0. destruct (eid e) as [i|]; [|reflexivity].
  destruct (i =? 0) eqn:E; [lia|reflexivity].
Qed.

(* ---- per method: the translated method on `split c` ---- *)
Ltac norm := cbv zeta; cbn [py_db py_md split fst snd option_map].

Lemma aget_fst : forall c b, aget b (amap (@fst meta (list event)) c) = option_map fst (aget b c).
Proof. intros. apply aget_amap. Qed.
Lemma aget_snd : forall c b, aget b (amap (@snd meta (list event)) c) = option_map snd (aget b c).
Proof. intros. apply aget_amap. Qed.

Lemma split_set_events : forall c b m es es',
  aget b c = Some (m, es) ->
  mkPyMem (aset b es' (amap snd c)) (amap fst c) = split (aset b (m, es') c).
Proof.
  intros c b m es es' H. unfold split. f_equal.
  - now rewrite <- aset_amap.
  - symmetry. eapply amap_same; [eassumption|reflexivity].
Qed.

Lemma split_set_meta : forall c b m es m',
  aget b c = Some (m, es) ->
  mkPyMem (amap snd c) (aset b m' (amap fst c)) = split (aset b (m', es) c).
Proof.
  intros c b m es m' H. unfold split. f_equal.
  - symmetry. eapply amap_same; [eassumption|reflexivity].
  - now rewrite <- aset_amap.
Qed.

Lemma replace_loop : forall (body : pymem -> event -> nat -> pymem * res event) b oi,
  (forall g l idx, body g l idx =
     match aget b (py_db g) with
     | Some es => (mkPyMem (aset b (list_set idx (set_eid l oi) es) (py_db g)) (py_md g), Ok (set_eid l oi))
     | None => (mkPyMem (py_db g) (py_md g), Err KeyError)
     end) ->
  forall idxs db md es ev, aget b db = Some es ->
  exists l', py_for body idxs (mkPyMem db md) ev
     = (mkPyMem (aset b (fold_left (fun es i => list_set i (set_eid ev oi) es) idxs es) db) md, Ok l').
Proof.
  intros body b oi Hb. induction idxs as [|i t IH]; intros db md es ev H.
  - exists ev. cbn. now rewrite aset_same.
  - cbn [py_for fold_left]. rewrite Hb. cbn [py_db py_md]. rewrite H.
    destruct (IH (aset b (list_set i (set_eid ev oi) es) db) md (list_set i (set_eid ev oi) es) (set_eid ev oi))
      as [l' Hl]; [apply aget_aset_same|].
    exists l'. rewrite Hl. now rewrite aset_aset.
Qed.

Lemma sim_replace : forall c b oi e,
  gen_mem_replace (split c) b oi e =
    match aget b c with
    | Some (m, es) => (split (aset b (m, mem_replace_events oi e es) c), Ok tt)
    | None => (split c, Err KeyError)
    end.
Proof.
  intros c b oi e. unfold gen_mem_replace. norm. rewrite aget_snd.
  destruct (aget b c) as [[m es]|] eqn:H; norm; [|reflexivity].
  match goal with |- context [py_for ?body ?idxs ?g ?l] =>
    destruct (replace_loop body b oi (fun _ _ _ => eq_refl) idxs (amap snd c) (amap fst c) es l) as [l' Hl];
      [now rewrite aget_snd, H|rewrite Hl] end.
  norm. rewrite set_rev_matching. now rewrite (split_set_events c b m es).
Qed.

Lemma sim__get_event : forall c b i,
  gen_mem__get_event (split c) b i =
    match aget b c with
    | Some (_, es) => (split c, Ok (find_last (id_matches (Some i)) es))
    | None => (split c, Err KeyError)
    end.
Proof.
  intros c b i. unfold gen_mem__get_event. norm. rewrite aget_snd.
  destruct (aget b c) as [[m es]|] eqn:H; norm; [|reflexivity].
  rewrite find_last_scan. unfold id_matches.
  destruct (rev_matching _ es) as [|x r]; [reflexivity|].
  replace (Z.of_nat (length (x :: r)) <? 1) with false by (cbn [length]; lia). reflexivity.
Qed.

Lemma gen_get_metadata_any : forall s k,
  gen_mem_get_metadata s k =
    match aget k (py_md s) with
    | Some m => (mkPyMem (py_db s) (py_md s), Ok m)
    | None => (mkPyMem (py_db s) (py_md s), Err ValueError)
    end.
Proof. intros s k. unfold gen_mem_get_metadata, ain. norm. now destruct (aget k (py_md s)). Qed.

Lemma truthy_or0 : forall d, (if truthy d then d else 0) = d.
Proof. intros d. unfold truthy. destruct (d =? 0) eqn:E; cbn; lia. Qed.

Lemma sim_create_bucket : forall c b m,
  gen_mem_create_bucket (split c) b (m_type m) (m_client m) (m_hostname m) (m_created m) (m_name m) (m_data m)
  = (split (aset b (mem_create_meta b m, []) c), Ok tt).
Proof.
  intros c b m. unfold gen_mem_create_bucket, mem_create_meta. norm. rewrite truthy_or0.
  assert (S : forall m', mkPyMem (aset b [] (amap snd c)) (aset b m' (amap fst c)) = split (aset b (m', []) c)).
  { intros m'. unfold split. now rewrite <- !aset_amap. }
  destruct (m_name m) as [n|]; cbn [opt_truthy]; [destruct (truthy n)|]; norm; now rewrite S.
Qed.

Lemma upd_field : forall db md b m (o : option Z) (set : meta -> Z -> meta),
  aget b md = Some m ->
  match o with
  | Some v => if truthy v
              then match aget b md with
                   | Some m_ => (mkPyMem db (aset b (set m_ v) md), Ok tt)
                   | None => (mkPyMem db md, Err KeyError)
                   end
              else (mkPyMem db md, Ok tt)
  | None => (mkPyMem db md, Ok tt)
  end = (mkPyMem db (aset b (upd_if opt_truthy o set m) md), @Ok unit tt).
Proof.
  intros db md b m o set H. destruct o as [v|]; cbn [upd_if opt_truthy]; [destruct (truthy v)|];
    rewrite ?H; try reflexivity; now rewrite aset_same.
Qed.

Lemma sim_update_bucket : forall c b ty cl ho na da,
  gen_mem_update_bucket (split c) b ty cl ho na da =
    match aget b c with
    | Some (m, es) => (split (aset b (update_meta opt_truthy ty cl ho na da m, es) c), Ok tt)
    | None => (split c, Err ValueError)
    end.
Proof.
  intros c b ty cl ho na da. unfold gen_mem_update_bucket, ain. norm. rewrite aget_fst at 1.
  destruct (aget b c) as [[m es]|] eqn:H; norm; [|reflexivity].
  assert (H0 : aget b (amap fst c) = Some m) by now rewrite aget_fst, H.
  rewrite (upd_field _ _ _ _ ty set_type H0). norm.
  rewrite (upd_field _ _ _ _ cl set_client (aget_aset_same _ _ _)). norm. rewrite aset_aset.
  rewrite (upd_field _ _ _ _ ho set_hostname (aget_aset_same _ _ _)). norm. rewrite aset_aset.
  rewrite (upd_field _ _ _ _ na (fun m_ v_ => set_name m_ (Some v_)) (aget_aset_same _ _ _)). norm. rewrite aset_aset.
  rewrite (upd_field _ _ _ _ da set_mdata (aget_aset_same _ _ _)). norm. rewrite aset_aset.
  now rewrite (split_set_meta c b m es).
Qed.

Lemma sim_delete_bucket : forall c b,
  gen_mem_delete_bucket (split c) b =
    match aget b c with
    | Some _ => (split (adel b c), Ok tt)
    | None => (split c, Err ValueError)
    end.
Proof.
  intros c b. unfold gen_mem_delete_bucket, ain. norm. rewrite aget_snd.
  destruct (aget b c) as [[m es]|] eqn:H; norm; rewrite aget_fst, H; norm; [|reflexivity].
  unfold split. now rewrite !adel_amap.
Qed.

Lemma aget_not_in : forall {V} (l : list (Z * V)) k, ~ In k (akeys l) -> aget k l = None.
Proof.
  intros V l k N. destruct (aget k l) eqn:E; [|reflexivity]. apply aget_In_keys in E. contradiction.
Qed.
Lemma aget_app_absent : forall {V} (pre l : list (Z * V)) k,
  ~ In k (akeys pre) -> aget k (pre ++ l) = aget k l.
Proof.
  induction pre as [|[k0 v0] t IH]; intros l k N; [reflexivity|]. cbn in *.
  destruct (k0 =? k) eqn:E; [exfalso; apply N; left; lia|]. apply IH. tauto.
Qed.

Lemma buckets_loop : forall (body : pymem -> list (Z * meta) -> Z -> pymem * res (list (Z * meta))),
  (forall g l k, body g l k =
     match aget k (py_md g) with
     | Some m => (mkPyMem (py_db g) (py_md g), Ok (aset k m l))
     | None => (mkPyMem (py_db g) (py_md g), Err ValueError)
     end) ->
  forall (l pre : mstate) db, NoDup (akeys (pre ++ l)) ->
  py_for body (akeys l) (mkPyMem db (amap fst (pre ++ l))) (amap fst pre)
  = (mkPyMem db (amap fst (pre ++ l)), Ok (amap fst (pre ++ l))).
Proof.
  intros body Hb. induction l as [|[k [m es]] t IH]; intros pre db N.
  - cbn. now rewrite app_nil_r.
  - assert (Nk : ~ In k (akeys pre)).
    { unfold akeys in *. rewrite map_app in N. cbn in N. apply NoDup_remove_2 in N.
      intro I. apply N. apply in_or_app. now left. }
    cbn [akeys map fst py_for]. rewrite Hb. cbn [py_db py_md].
    rewrite aget_amap, (aget_app_absent pre _ k Nk). cbn [aget]. rewrite Z.eqb_refl. cbn [option_map fst].
    rewrite (aset_absent (amap fst pre) k m) by (rewrite aget_amap, (aget_not_in pre k Nk); reflexivity).
    specialize (IH (pre ++ [(k, (m, es))]) db). rewrite <- app_assoc in IH. cbn [app] in IH.
    replace (amap fst pre ++ [(k, m)]) with (amap fst (pre ++ [(k, (m, es))]))
      by (unfold amap; now rewrite map_app).
    now apply IH.
Qed.

Lemma sim_buckets : forall c, NoDup (akeys c) ->
  gen_mem_buckets (split c) = (split c, Ok (amap fst c)).
Proof.
  intros c N. unfold gen_mem_buckets. norm. rewrite akeys_amap.
  match goal with |- context [py_for ?body _ _ _] =>
    assert (Hb : forall g l k, body g l k =
       match aget k (py_md g) with
       | Some m => (mkPyMem (py_db g) (py_md g), Ok (aset k m l))
       | None => (mkPyMem (py_db g) (py_md g), Err ValueError)
       end)
      by (intros g l k; cbv beta zeta; rewrite gen_get_metadata_any; cbn [py_db py_md];
          destruct (aget k (py_md g)); reflexivity);
    rewrite (buckets_loop body Hb c [] _ N) end.
  reflexivity.
Qed.

Lemma sim_get_events : forall c b limit st en,
  gen_mem_get_events (split c) b limit st en =
    match aget b c with
    | Some (_, es) => (split c, Ok (mem_get_events es limit st en))
    | None => (split c, Err KeyError)
    end.
Proof.
  intros c b limit st en. unfold gen_mem_get_events, mem_get_events. norm. rewrite aget_snd.
  destruct (aget b c) as [[m es]|] eqn:H; norm; [|reflexivity].
  (* any formulation of the two limit tests that agrees with `== 0` / `< 0` on integers is accepted *)
  destruct st as [ws|], en as [we|]; norm; cbn [opt_filter];
    destruct (Z.eqb_spec limit 0) as [E0|E0]; try reflexivity;
    destruct (Z.ltb_spec limit 0) as [E|E]; norm;
    repeat match goal with
           | |- context [?a <? ?b] => destruct (Z.ltb_spec a b); try lia
           | |- context [?a <=? ?b] => destruct (Z.leb_spec a b); try lia
           | |- context [?a =? ?b] => destruct (Z.eqb_spec a b); try lia
           end; norm; cbn [py_take];
    repeat match goal with
           | |- context [?a <? ?b] => destruct (Z.ltb_spec a b); try lia
           end; reflexivity.
Qed.

Lemma sim_get_eventcount : forall c b st en,
  gen_mem_get_eventcount (split c) b st en =
    match aget b c with
    | Some (_, es) => (split c, Ok (mem_count es st en))
    | None => (split c, Err KeyError)
    end.
Proof.
  intros c b st en. unfold gen_mem_get_eventcount. norm. rewrite aget_snd.
  now destruct (aget b c) as [[m es]|].
Qed.

Lemma sim_insert_one : forall c b e,
  gen_mem_insert_one (split c) b e =
    match eid e with
    | Some i => match aget b c with
                | Some (m, es) => (split (aset b (m, mem_replace_events (Some i) e es) c), Ok e)
                | None => (split c, Err KeyError)
                end
    | None => match aget b c with
              | Some (m, es) => let e' := set_eid e (Some (mem_next_id es)) in
                                (split (aset b (m, es ++ [e']) c), Ok e')
              | None => (split c, Err KeyError)
              end
    end.
Proof.
  intros c b e. unfold gen_mem_insert_one. norm. destruct (eid e) as [i|] eqn:He; norm.
  - change (mkPyMem (amap snd c) (amap fst c)) with (split c). rewrite sim_replace.
    destruct (aget b c) as [[m es]|]; reflexivity.
  - rewrite !aget_snd. destruct (aget b c) as [[m es]|] eqn:H; norm; [|reflexivity].
    destruct es as [|x t]; cbn [list_truthy]; norm.
    + rewrite aget_snd, H. norm. now rewrite (split_set_events c b m []).
    + cbn [map py_max]. norm. rewrite aget_snd, H. norm.
      rewrite (split_set_events c b m (x :: t)) by assumption.
      unfold mem_next_id. rewrite py_or0_id. rewrite (map_ext _ id_or_0 py_or0_id). reflexivity.
Qed.

Definition lift {T} (w : T -> out) (x : pymem * res T) : pymem * res out :=
  match x with
  | (s', Ok r) => (s', Ok (w r))
  | (s', Err k) => (s', Err k)
  | (s', OutOfFuel) => (s', OutOfFuel)
  end.
Definition sp (x : mstate * res out) : pymem * res out := (split (fst x), snd x).

Lemma step_insert_one : forall c b e,
  lift (fun r => OEvent (Some r)) (gen_mem_insert_one (split c) b e) = sp (mem_insert_one c b e).
Proof.
  intros c b e. rewrite sim_insert_one. unfold mem_insert_one, mem_replace, mem_set_events, sp.
  destruct (eid e) as [i|]; destruct (aget b c) as [[m es]|]; reflexivity.
Qed.

Lemma insert_many_loop : forall (body : pymem -> unit -> event -> pymem * res unit) b,
  (forall s l e, body s l e =
     match gen_mem_insert_one (mkPyMem (py_db s) (py_md s)) b e with
     | (s_, Ok _) => (mkPyMem (py_db s_) (py_md s_), Ok tt)
     | (s_, Err k_) => (s_, Err k_)
     | (s_, OutOfFuel) => (s_, OutOfFuel)
     end) ->
  forall es c, lift (fun _ => ONone) (py_for body es (split c) tt) = sp (mem_insert_many c b es).
Proof.
  intros body b Hb. induction es as [|e t IH]; intros c; [reflexivity|].
  cbn [py_for mem_insert_many]. rewrite Hb.
  change (mkPyMem (py_db (split c)) (py_md (split c))) with (split c).
  pose proof (step_insert_one c b e) as S. unfold sp in S.
  destruct (gen_mem_insert_one (split c) b e) as [s' [r|k|]]; destruct (mem_insert_one c b e) as [c' [o|k'|]];
    cbn in S; inversion S; subst; try reflexivity.
  change (mkPyMem (py_db (split c')) (py_md (split c'))) with (split c'). apply IH.
Qed.

Lemma step_insert_many : forall c b es,
  lift (fun _ => ONone) (gen_mem_insert_many (split c) b es) = sp (mem_insert_many c b es).
Proof.
  intros c b es. unfold gen_mem_insert_many. norm.
  match goal with |- context [py_for ?body _ _ _] =>
    pose proof (insert_many_loop body b (fun _ _ _ => eq_refl) es c) as L end.
  change (mkPyMem (amap snd c) (amap fst c)) with (split c).
  destruct (py_for _ es (split c) tt) as [[d1 d2] [[]|k|]]; exact L.
Qed.

Lemma sim_delete : forall c b i,
  gen_mem_delete (split c) b i =
    match aget b c with
    | Some (m, es) => match remove_last (id_matches (Some i)) es with
                      | Some es' => (split (aset b (m, es') c), Ok true)
                      | None => (split c, Ok false)
                      end
    | None => (split c, Err KeyError)
    end.
Proof.
  intros c b i. unfold gen_mem_delete. norm. rewrite !aget_snd.
  destruct (aget b c) as [[m es]|] eqn:H; norm; [|reflexivity].
  pose proof (delete_scan (id_matches (Some i)) es) as D. unfold id_matches in *.
  destruct (rev_matching_idx _ es) as [|idx r]; rewrite D; [reflexivity|].
  now rewrite (split_set_events c b m es).
Qed.

Lemma sim_replace_last : forall c b e,
  gen_mem_replace_last (split c) b e =
    match aget b c with
    | Some (m, es) => match last_opt (sort_by ts es) with
                      | Some l => (split (aset b (m, mem_replace_events (eid l) e es) c), Ok tt)
                      | None => (split c, Err IndexError)
                      end
    | None => (split c, Err KeyError)
    end.
Proof.
  intros c b e. unfold gen_mem_replace_last. norm. rewrite aget_snd.
  destruct (aget b c) as [[m es]|] eqn:H; norm; [|reflexivity].
  change (sort_by (fun e0 => ts e0) es) with (sort_by ts es).
  destruct (last_opt (sort_by ts es)) as [l|]; [|reflexivity]. norm.
  change (mkPyMem (amap snd c) (amap fst c)) with (split c). rewrite sim_replace, H. reflexivity.
Qed.

(* ---- the step: every op of the AbstractStorage interface ---- *)
Theorem bridge_mem_step : forall c o, NoDup (akeys c) ->
  gen_mem_step (split c) o = (split (fst (mem_step c o)), snd (mem_step c o)).
Proof.
  intros c o N. destruct o; cbn [gen_mem_step mem_step].
  - rewrite sim_create_bucket. reflexivity.
  - rewrite sim_update_bucket. destruct (aget b c) as [[m es]|]; reflexivity.
  - rewrite sim_delete_bucket. destruct (aget b c); reflexivity.
  - rewrite (sim_buckets c N). reflexivity.
  - rewrite gen_get_metadata_any. cbn [py_md py_db split]. rewrite aget_fst.
    destruct (aget b c) as [[m es]|]; reflexivity.
  - apply step_insert_one.
  - apply step_insert_many.
  - rewrite sim_replace. unfold mem_replace, mem_set_events. destruct (aget b c) as [[m es]|]; reflexivity.
  - rewrite sim_replace_last. unfold mem_replace, mem_set_events.
    destruct (aget b c) as [[m es]|]; [|reflexivity]. destruct (last_opt (sort_by ts es)); reflexivity.
  - rewrite sim_delete. unfold mem_set_events. destruct (aget b c) as [[m es]|]; [|reflexivity].
    destruct (remove_last _ es); reflexivity.
  - unfold gen_mem_get_event. norm. change (mkPyMem (amap snd c) (amap fst c)) with (split c).
    rewrite sim__get_event. destruct (aget b c) as [[m es]|]; reflexivity.
  - rewrite sim_get_events. destruct (aget b c) as [[m es]|]; reflexivity.
  - rewrite sim_get_eventcount. destruct (aget b c) as [[m es]|]; reflexivity.
Qed.
Print Assumptions bridge_mem_step.

Lemma bridge_mem_init : gen_mem_init = split mem_init.
Proof. reflexivity. Qed.
Print Assumptions bridge_mem_init.

(* ---- whole histories, from the constructor on ---- *)
From AwVerif Require Import Model.StoreSpec Proofs.StoreMemProofs.

Definition gen_mem_run (s : pymem) (h : list op) : pymem := fold_left (fun s o => fst (gen_mem_step s o)) h s.

Theorem bridge_mem_run : forall h c, mem_Inv c -> gen_mem_run (split c) h = split (mem_run c h).
Proof.
  induction h as [|o t IH]; intros c I; [reflexivity|]. cbn [gen_mem_run mem_run fold_left].
  rewrite (bridge_mem_step c o (proj1 I)). cbn [fst]. apply IH. now apply mem_step_Inv.
Qed.
Print Assumptions bridge_mem_run.

(* every call of every history: same result, same two dicts *)
Theorem bridge_mem_history : forall h o,
  gen_mem_step (gen_mem_run gen_mem_init h) o
  = (split (fst (mem_step (mem_run mem_init h) o)), snd (mem_step (mem_run mem_init h) o)).
Proof.
  intros h o. rewrite bridge_mem_init, (bridge_mem_run h mem_init mem_Inv_init).
  apply bridge_mem_step. exact (proj1 (mem_run_Inv h mem_init mem_Inv_init)).
Qed.
Print Assumptions bridge_mem_history.
