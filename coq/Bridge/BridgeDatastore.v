(* Tie B for aw_datastore/datastore.py (classes Datastore and Bucket): the methods re-translated from /repo on
   every run (translate/k_datastore.py -> Gen/GenDatastore.v) equal the hand-written model Model/Datastore.v,
   for every storage `step`. *)
From Coq Require Import ZifyBool.
From AwVerif Require Import Base.Prelude Model.StoreBase Model.MemStore Model.SqliteStore Model.PeeweeStore
  Model.Window Model.Datastore Proofs.WindowRound Gen.GenDatastore.

(* association-list facts used below *)
Lemma bd_aget_aset_same : forall (k v : Z) (l : list (Z * Z)), aget k (aset k v l) = Some v.
Proof.
  intros k v l. induction l as [|[k' v'] t IH]; cbn [aset aget].
  - rewrite Z.eqb_refl. reflexivity.
  - destruct (k' =? k) eqn:E; cbn [aget]; rewrite ?E, ?Z.eqb_refl; auto.
Qed.
Lemma bd_adel_absent : forall (k : Z) (l : list (Z * Z)), aget k l = None -> adel k l = l.
Proof.
  intros k l. unfold adel. induction l as [|[k' v'] t IH]; cbn [aget filter fst]; [reflexivity|].
  destruct (k' =? k) eqn:E; [discriminate|]. cbn [negb]. intros H. rewrite IH by exact H. reflexivity.
Qed.

(* Bucket.__init__ stores nothing but the datastore and the bucket id: a handle is a name *)
Lemma bridge_bucket_init : forall n b, gen_bucket_init n b = mkHandle n b.
Proof. reflexivity. Qed.
Print Assumptions bridge_bucket_init.

Section BridgeDatastore.
  Context {S : Type} (step : S -> op -> S * res out).

  Lemma bridge_ds_init : forall s : S, gen_ds_init s = ds_init s.
  Proof. reflexivity. Qed.

  (* a method that returns what one storage call returns *)
  Lemma bd_call_out : forall (d : dstate S) o,
    mbind (call step o) (fun r => ret (DOut r)) d = ds_call step d o.
  Proof.
    intros d o. unfold mbind, call, ds_call, ret. destruct (step (ds_store d) o) as [s' [r| |]]; reflexivity.
  Qed.

  Lemma bridge_ds_buckets : forall d, gen_ds_buckets step d = ds_step step d DsBuckets.
  Proof. intros. apply bd_call_out. Qed.

  (* __getitem__: cache test, then the listing, then membership, then Bucket(...) and the cache store; KeyError *)
  Lemma bridge_ds_getitem : forall d b, gen_ds_getitem step b d = ds_getitem step d b.
  Proof.
    intros d b. unfold gen_ds_getitem, ds_getitem, gen_ds_buckets, mbind, cache_has, cache_get, cache_set,
      new_bucket, keys_has, call, ret, raise, gen_bucket_init.
    destruct (aget b (ds_cache d)) as [n|] eqn:E; cbn [negb].
    - rewrite E. reflexivity.
    - destruct (step (ds_store d) Buckets) as [s' [o| |]]; try reflexivity.
      destruct o; try reflexivity.
      destruct (listed b l); [|reflexivity].
      cbn [ds_cache ds_store ds_next with_store h_serial]. rewrite bd_aget_aset_same. reflexivity.
  Qed.

  (* create_bucket: the storage call with its argument binding, then self[bucket_id] *)
  Lemma bridge_ds_create_bucket : forall d b ty cl ho cr na da,
    gen_ds_create_bucket step b ty cl ho cr na da d = ds_step step d (DsCreate b (mkMeta ty cl ho cr na da)).
  Proof.
    intros. unfold gen_ds_create_bucket, ds_step, mbind at 1, call.
    destruct (step (ds_store d) (CreateBucket b (mkMeta ty cl ho cr na da))) as [s' [r| |]]; try reflexivity.
    apply bridge_ds_getitem.
  Qed.

  (* update_bucket: **kwargs reach the storage parameters of the same names *)
  Lemma bridge_ds_update_bucket : forall d b ty cl ho na da,
    gen_ds_update_bucket step b (mkKw ty cl ho na da) d = ds_step step d (DsUpdate b ty cl ho na da).
  Proof. intros. apply bd_call_out. Qed.

  (* delete_bucket: the cache entry goes first, whatever the storage then does *)
  Lemma bridge_ds_delete_bucket : forall d b, gen_ds_delete_bucket step b d = ds_step step d (DsDelete b).
  Proof.
    intros d b. unfold gen_ds_delete_bucket, ds_step. unfold mbind at 1, cache_has.
    destruct (aget b (ds_cache d)) as [n|] eqn:E.
    - unfold mbind at 1, cache_del. rewrite E. apply bd_call_out.
    - rewrite bd_call_out. rewrite (bd_adel_absent _ _ E). destruct d; reflexivity.
  Qed.

  (* the Bucket methods: which storage method, which arguments, which order *)
  Lemma bridge_b_metadata : forall d b, gen_b_metadata step b d = ds_call step d (hop_op b HMetadata).
  Proof. intros. apply bd_call_out. Qed.
  Lemma bridge_b_get_by_id : forall d b i, gen_b_get_by_id step b i d = ds_call step d (hop_op b (HGetById i)).
  Proof. intros. apply bd_call_out. Qed.
  Lemma bridge_b_get_eventcount : forall d b st en,
    gen_b_get_eventcount step b st en d = ds_call step d (hop_op b (HCount st en)).
  Proof. intros. apply bd_call_out. Qed.
  Lemma bridge_b_delete : forall d b i, gen_b_delete step b i d = ds_call step d (hop_op b (HDelete i)).
  Proof. intros. apply bd_call_out. Qed.
  Lemma bridge_b_replace_last : forall d b e,
    gen_b_replace_last step b e d = ds_call step d (hop_op b (HReplaceLast e)).
  Proof. intros. apply bd_call_out. Qed.
  Lemma bridge_b_replace : forall d b i e, gen_b_replace step b i e d = ds_call step d (hop_op b (HReplace i e)).
  Proof. intros. apply bd_call_out. Qed.

  (* Bucket.get: the rounding read off the source is Model/Window.v's (by computation), whose closed form
     (Proofs/WindowRound.v) is the floor_ms / floor_ms + 1000 of Model/Datastore.v *)
  Lemma bridge_b_get : forall d b limit st en,
    gen_b_get step b limit st en d = ds_call step d (hop_op b (HGet limit st en)).
  Proof.
    intros. unfold gen_b_get. cbv zeta. rewrite bd_call_out.
    change (ds_call step d (GetEvents b limit (option_map round_start st) (option_map round_end en))
            = ds_call step d (hop_op b (HGet limit st en))).
    unfold hop_op, get_round_start, get_round_end.
    destruct st as [st|], en as [en|]; cbn [option_map];
      rewrite ?round_start_closed, ?round_end_closed; reflexivity.
  Qed.

  (* Bucket.insert: the isinstance dispatch *)
  Lemma bridge_b_insert_one : forall d b e,
    gen_b_insert step b (AEvent e) d = ds_call step d (hop_op b (HInsert e)).
  Proof. intros. unfold gen_b_insert. cbv zeta. apply bd_call_out. Qed.
  (* insert(list) returns None whatever insert_many returned; the model returns insert_many's own result *)
  Definition none_result (x : dstate S * res dsout) : dstate S * res dsout :=
    (fst x, match snd x with Ok _ => Ok (DOut ONone) | r => r end).
  Lemma bridge_b_insert_many : forall d b es,
    gen_b_insert step b (AList es) d = none_result (ds_call step d (hop_op b (HInsertMany es))).
  Proof.
    intros. unfold gen_b_insert, none_result, ds_call, hop_op, mbind, call, ret. cbv zeta.
    destruct (step (ds_store d) (InsertMany b es)) as [s' [r| |]]; reflexivity.
  Qed.
  Lemma bridge_b_insert_other : forall d b, gen_b_insert step b AOther d = (d, Err TypeError).
  Proof. reflexivity. Qed.

  (* insert_many of the storage returns None when it returns (true of the three back ends: MemStore.mem_insert_many,
     SqliteStore / PeeweeStore `InsertMany`) *)
  Definition insert_many_returns_none : Prop :=
    forall s b es o, snd (step s (InsertMany b es)) = Ok o -> o = ONone.

  Lemma bridge_ds_via : forall d h o,
    (forall es, o <> HInsertMany es) -> gen_ds_via step h o d = ds_step step d (DsVia h o).
  Proof.
    intros d h o H. destruct o; cbn [gen_ds_via ds_step].
    - apply bridge_b_metadata.
    - apply bridge_b_get.
    - apply bridge_b_get_by_id.
    - apply bridge_b_get_eventcount.
    - apply bridge_b_insert_one.
    - exfalso. eapply H. reflexivity.
    - apply bridge_b_delete.
    - apply bridge_b_replace_last.
    - apply bridge_b_replace.
  Qed.

  Lemma bridge_ds_via_insert_many : forall d h es,
    gen_ds_via step h (HInsertMany es) d = none_result (ds_step step d (DsVia h (HInsertMany es))).
  Proof. intros. apply bridge_b_insert_many. Qed.

  Lemma bd_none_result_id : insert_many_returns_none -> forall d b es,
    none_result (ds_call step d (InsertMany b es)) = ds_call step d (InsertMany b es).
  Proof.
    intros H d b es. unfold none_result, ds_call. specialize (H (ds_store d) b es).
    destruct (step (ds_store d) (InsertMany b es)) as [s' [r| |]]; cbn [fst snd lift_out] in *; try reflexivity.
    rewrite (H r eq_refl). reflexivity.
  Qed.

  (* every call of the model's interface *)
  Theorem bridge_ds_step : insert_many_returns_none ->
    forall d o, gen_ds_step step d o = ds_step step d o.
  Proof.
    intros HN d o. destruct o; cbn [gen_ds_step].
    - destruct m. apply bridge_ds_create_bucket.
    - apply bridge_ds_update_bucket.
    - apply bridge_ds_delete_bucket.
    - apply bridge_ds_buckets.
    - apply bridge_ds_getitem.
    - destruct o; try (apply bridge_ds_via; intros es' E; discriminate E).
      rewrite bridge_ds_via_insert_many. cbn [ds_step hop_op]. apply bd_none_result_id. exact HN.
    - apply bd_call_out.
  Qed.

  Theorem bridge_ds_step_except_insert_many : forall d o,
    (forall h es, o <> DsVia h (HInsertMany es)) -> gen_ds_step step d o = ds_step step d o.
  Proof.
    intros d o H. destruct o; cbn [gen_ds_step].
    - destruct m. apply bridge_ds_create_bucket.
    - apply bridge_ds_update_bucket.
    - apply bridge_ds_delete_bucket.
    - apply bridge_ds_buckets.
    - apply bridge_ds_getitem.
    - apply bridge_ds_via. intros es E. eapply H. rewrite E. reflexivity.
    - apply bd_call_out.
  Qed.
End BridgeDatastore.

(* the three back ends: insert_many returns None whenever it returns, so the bridge holds for every call *)
Lemma bd_mem_insert_many_none : forall es c b o, snd (mem_insert_many c b es) = Ok o -> o = ONone.
Proof.
  induction es as [|e t IH]; intros c b o; cbn [mem_insert_many].
  - cbn. congruence.
  - destruct (mem_insert_one c b e) as [c' [r| |]]; cbn [snd]; try discriminate. apply IH.
Qed.
Lemma bd_sq_executemany_none : forall es c b o, snd (sq_executemany_insert c b es) = Ok o -> o = ONone.
Proof.
  induction es as [|e t IH]; intros c b o; cbn [sq_executemany_insert].
  - cbn. congruence.
  - destruct (sql_insert_event c b e) as [[c' i]| |]; cbn [snd]; try discriminate. apply IH.
Qed.
Lemma bd_mem_none : insert_many_returns_none mem_step.
Proof. intros s b es o. cbn [mem_step]. apply bd_mem_insert_many_none. Qed.
Lemma bd_sq_none : insert_many_returns_none sq_step.
Proof. intros s b es o. cbn [sq_step]. apply bd_sq_executemany_none. Qed.
Lemma bd_pw_none : insert_many_returns_none pw_step.
Proof.
  intros s b es o. cbn [pw_step].
  destruct (pw_upserts s b es) as [c1 [r| |]]; cbn [snd]; try discriminate.
  destruct (filter pno_id es); cbn [snd]; [congruence|].
  destruct (pw_key c1 b); cbn [snd]; [congruence|discriminate].
Qed.
Theorem bridge_ds_step_mem : forall d o, gen_ds_step mem_step d o = ds_step mem_step d o.
Proof. exact (bridge_ds_step mem_step bd_mem_none). Qed.
Theorem bridge_ds_step_sqlite : forall d o, gen_ds_step sq_step d o = ds_step sq_step d o.
Proof. exact (bridge_ds_step sq_step bd_sq_none). Qed.
Theorem bridge_ds_step_peewee : forall d o, gen_ds_step pw_step d o = ds_step pw_step d o.
Proof. exact (bridge_ds_step pw_step bd_pw_none). Qed.

(* the storage call a Bucket method issues, for every method: run it over a storage that records its calls *)
Definition rec_step (s : list op) (o : op) : list op * res out := (s ++ [o], Ok ONone).
Lemma bridge_hop_op : forall n b h,
  ds_store (fst (gen_ds_via rec_step (mkHandle n b) h (ds_init []))) = [hop_op b h].
Proof.
  intros n b h. destruct h.
  1-5, 7-9: rewrite bridge_ds_via by (intros es' E; discriminate E); reflexivity.
  rewrite bridge_ds_via_insert_many. reflexivity.
Qed.

Print Assumptions bridge_ds_init.
Print Assumptions bridge_ds_buckets.
Print Assumptions bridge_ds_getitem.
Print Assumptions bridge_ds_create_bucket.
Print Assumptions bridge_ds_update_bucket.
Print Assumptions bridge_ds_delete_bucket.
Print Assumptions bridge_b_metadata.
Print Assumptions bridge_b_get.
Print Assumptions bridge_b_get_by_id.
Print Assumptions bridge_b_get_eventcount.
Print Assumptions bridge_b_insert_one.
Print Assumptions bridge_b_insert_many.
Print Assumptions bridge_b_insert_other.
Print Assumptions bridge_b_delete.
Print Assumptions bridge_b_replace_last.
Print Assumptions bridge_b_replace.
Print Assumptions bridge_ds_via.
Print Assumptions bridge_ds_via_insert_many.
Print Assumptions bridge_ds_step.
Print Assumptions bridge_ds_step_except_insert_many.
Print Assumptions bridge_ds_step_mem.
Print Assumptions bridge_ds_step_sqlite.
Print Assumptions bridge_ds_step_peewee.
Print Assumptions bridge_hop_op.
