(* Tie B for aw_core/config.py: the body of `for key in b:` in _merge, regenerated from
   /repo's current source, computes for every key exactly what the hand-written model puts
   at a[key] ([overlay], the function [merge] folds over b with [upsert]); it never raises
   and never leaves the key absent.  The loop header / `return a` are matched syntactically
   by translate/k_config.py. *)
From AwVerif Require Import Base.Prelude Model.Config Model.ConfigKernel Gen.GenConfig
  Proofs.ConfigProofs.

Lemma bridge_merge_body : forall av bv,
  gen_merge_body merge av bv = Ok (Some (overlay bv av)).
Proof.
  intros av bv. rewrite overlay_eq.
  destruct av as [[la|ta|xa]|]; destruct bv as [lb|tb|xb]; try reflexivity.
  destruct tb; reflexivity.
Qed.
Print Assumptions bridge_merge_body.

(* with any function in place of the recursive call: the body's shape alone *)
Lemma bridge_merge_body_shape : forall rec av bv,
  gen_merge_body rec av bv =
  Ok (Some match av, bv with
           | Some (Tab ta), Tab ((_ :: _) as tb) => Tab (rec ta tb)
           | Some (Tab ta), Tab [] => Tab ta
           | _, _ => bv
           end).
Proof.
  intros rec av bv.
  destruct av as [[la|ta|xa]|]; destruct bv as [lb|tb|xb]; try reflexivity.
  destruct tb; reflexivity.
Qed.
Print Assumptions bridge_merge_body_shape.
