(* Tie B for the commit bookkeeping of aw_datastore/storages/sqlite.py (and the bulk-insert
   chunking of peewee.py): the definitions regenerated from /repo's current source by
   translate/k_commit.py are extensionally the hand-written model the theorems of C06 and
   C18 are about.  A changed threshold, age, comparison, operand order, a dropped `if`, a
   method that no longer calls commit()/conditional_commit(k) (or calls it with another k)
   makes one of these lemmas fail. *)
From AwVerif Require Import Base.Prelude Model.Commit Gen.GenCommit.
From Coq Require Import ZifyBool.

Ltac split_ifs :=
  repeat match goal with
  | |- context [if ?b then _ else _] => let E := fresh "E" in destruct b eqn:E
  end.

Lemma bridge_commit : forall now s, gen_commit now s = do_commit now s.
Proof. intros now s. reflexivity. Qed.
Print Assumptions bridge_commit.

Lemma bridge_cond_commit : forall lazy k c s,
  gen_cond_commit lazy k c s = cond_commit lazy k c s.
Proof.
  intros lazy k c [cm pd n lc].
  cbv [gen_cond_commit cond_commit gen_commit do_commit set_n set_last flush
       n_unc last_commit committed pending THRESHOLD MAX_AGE].
  destruct lazy; split_ifs; first [reflexivity | exfalso; lia].
Qed.
Print Assumptions bridge_cond_commit.

Lemma bridge_expand : forall o, gen_expand o = expand o.
Proof.
  intros o. destruct o; try reflexivity;
    (* scripts that end with a stuck list: the generated text has a trailing `++ []` *)
    try (cbv [gen_expand gen_script_insert_many_failed expand]; rewrite ?app_nil_r; reflexivity).
Qed.
Print Assumptions bridge_expand.

Lemma bridge_init : forall c0 t0, n_unc (init c0 t0) = gen_init_n /\ pending (init c0 t0) = [].
Proof. intros. split; reflexivity. Qed.
Print Assumptions bridge_init.

Lemma bridge_pw_chunk : gen_pw_chunk = PW_CHUNK.
Proof. reflexivity. Qed.
Print Assumptions bridge_pw_chunk.
