(* Tie B for the commit bookkeeping of aw_datastore/storages/sqlite.py (and the bulk-insert
   chunking of peewee.py): the definitions regenerated from /repo's current source by
   translate/k_commit.py are extensionally the hand-written model the theorems of C06 and
   C18 are about.  A changed threshold, age, comparison, operand order, a dropped `if`, a
   method that no longer calls commit()/conditional_commit(k) (or calls it with another k),
   an insert_many that commits per upsert or whose upsert loop is outside the try
   makes one of these lemmas fail. *)
From AwVerif Require Import Base.Prelude Model.Commit Gen.GenCommit.
From Coq Require Import ZifyBool.

Ltac split_ifs :=
  repeat match goal with
  | |- context [if ?b then _ else _] => let E := fresh "E" in destruct b eqn:E
  end.

Lemma bridge_commit : forall now s, gen_commit now s = do_commit now s.
Proof. intros now s. reflexivity. Qed.
Print Assumptions bridge_commit.

Lemma bridge_cond_commit : forall lazy k c s,
  gen_cond_commit lazy k c s = cond_commit lazy k c s.
Proof.
  intros lazy k c [cm pd n lc].
  cbv [gen_cond_commit cond_commit gen_commit do_commit set_n set_last flush
       n_unc last_commit committed pending THRESHOLD MAX_AGE].
  destruct lazy; split_ifs; first [reflexivity | exfalso; lia].
Qed.
Print Assumptions bridge_cond_commit.

Lemma gen_upserts : forall ups, flat_map (fun u => gen_script__replace u) ups = flat_map script__replace ups.
Proof.
  induction ups as [|u ups IH]; [reflexivity|]. cbn [flat_map]. rewrite IH. reflexivity.
Qed.

Lemma bridge_expand : forall o, gen_expand o = expand o.
Proof.
  intros o. destruct o; try reflexivity;
    (* scripts that end with a stuck list: the generated text has a trailing `++ []` *)
    cbv [gen_expand gen_script_insert_many gen_script_insert_many_failed expand];
    rewrite gen_upserts, ?app_nil_r; reflexivity.
Qed.
Print Assumptions bridge_expand.

(* insert_many when a statement of its upsert loop raises (since a00ceb1 the loop is inside
   the try): the path read off the source - the upserts that ran, then the conditional_commit
   of the finally clause counting the whole list - is the model's [InsertManyFailed ups []
   rest] (rest = the upserts that did not run + the rows) without its empty bulk statement. *)
Lemma bridge_expand_upsert_failed : forall ups rest_ups nrows,
  exists pre k,
    gen_script_insert_many_upsert_failed ups rest_ups nrows = pre ++ [CondCommit k] /\
    expand (InsertManyFailed ups [] (rest_ups + nrows)) = pre ++ [ExecMany []; CondCommit k].
Proof.
  intros ups rest_ups nrows.
  exists (flat_map script__replace ups), (Z.of_nat (length ups + (length (@nil Z) + (rest_ups + nrows)))).
  split; [|reflexivity].
  cbv [gen_script_insert_many_upsert_failed]. rewrite gen_upserts, app_nil_r.
  do 3 f_equal. cbn [length]. lia.
Qed.
Print Assumptions bridge_expand_upsert_failed.

Lemma bridge_init : forall c0 t0, n_unc (init c0 t0) = gen_init_n /\ pending (init c0 t0) = [].
Proof. intros. split; reflexivity. Qed.
Print Assumptions bridge_init.

Lemma bridge_pw_chunk : gen_pw_chunk = PW_CHUNK.
Proof. reflexivity. Qed.
Print Assumptions bridge_pw_chunk.
