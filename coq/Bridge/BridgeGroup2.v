(* Tie B for merge_events_by_keys and chunk_events_by_key: the definitions regenerated from
   /repo's current source (coq/Gen/GenGroup2.v, statement by statement, in the Python
   primitives of Model/GroupPy.v and Model/GroupPy2.v: insertion-ordered dict get/set with
   hashing, tuple keys, l[-1] aliases, for/break loops) compute, for all inputs, exactly what
   the hand-written model of Model/Group.v computes - the model the theorems of C16 are
   about.  In particular: no exception can escape either function (no KeyError from
   merged_events[...] or data[...], no IndexError from events[-1] / chunked_events[-1], no
   TypeError from hashing the composite key whichever values are lists, because of the
   tuple() conversion), for every choice of which value labels stand for lists.

   The proofs do not mention the generated text: they pick the loop bodies out of the goal
   and discharge a specification of each body by simplification, so a harmless rewrite of
   the source that the translator still accepts keeps them compiling exactly when the new
   text still satisfies the same specification. *)
From AwVerif Require Import Base.Prelude Model.Group Model.GroupPy Model.GroupPy2 Gen.GenGroup2 Proofs.GroupMerge Proofs.GroupChunk.
From Coq Require Import ZifyBool.

(* ------------------------------------------------------------------ loops *)

Lemma py_for_fun : forall {A S M} (conv : M -> S) (g : M -> A -> M) (body : A -> S -> res S) l,
  (forall x m, In x l -> body x (conv m) = Ok (conv (g m x))) ->
  forall m, py_for l (conv m) body = Ok (conv (fold_left g l m)).
Proof.
  intros A S M conv g body l. induction l as [|x t IH]; intros H m; cbn [py_for fold_left]; [reflexivity|].
  rewrite H by (left; reflexivity). cbn [bind]. apply IH. intros y m' Hy. apply H. right. exact Hy.
Qed.

Lemma py_for_map : forall {A B S} (h : A -> B) (body : B -> S -> res S) l s,
  py_for (map h l) s body = py_for l s (fun x => body (h x)).
Proof.
  intros A B S h body l. induction l as [|x t IH]; intros s; cbn [py_for map]; [reflexivity|].
  destruct (body (h x) s); cbn [bind]; [apply IH | reflexivity | reflexivity].
Qed.

(* ------------------------------------------------------------------ lists *)

Lemma py_last_snoc : forall {A} (l : list A) x, py_last (l ++ [x]) = Ok x.
Proof. intros A l x. unfold py_last. rewrite rev_app_distr. reflexivity. Qed.

Lemma py_set_last_snoc : forall {A} (l : list A) x y, py_set_last (l ++ [x]) y = l ++ [y].
Proof. intros A l x y. unfold py_set_last. rewrite removelast_last. reflexivity. Qed.

Lemma py_len_snoc_pos : forall {A} (l : list A) x, (py_len (l ++ [x]) >? 0) = true.
Proof. intros A l x. unfold py_len. rewrite app_length. cbn [length]. lia. Qed.

Lemma py_len_snoc_truthy : forall {A} (l : list A) x, (0 <? py_len (l ++ [x])) = true.
Proof. intros A l x. unfold py_len. rewrite app_length. cbn [length]. lia. Qed.

Lemma NoDup_snoc : forall {A} (l : list A) x, NoDup l -> ~ In x l -> NoDup (l ++ [x]).
Proof.
  intros A l x. induction l as [|y t IH]; intros Hn Hx; cbn [app].
  - constructor; [intros [] | constructor].
  - inversion Hn as [|y' t' Hy Ht]; subst. constructor.
    + intros Hin. apply in_app_or in Hin. destruct Hin as [Hin|[Hin|[]]]; [exact (Hy Hin)|].
      subst. apply Hx. left. reflexivity.
    + apply IH; [exact Ht|]. intros Hin. apply Hx. right. exact Hin.
Qed.

(* ------------------------------------------------------------------ insertion-ordered dict *)

Section OD.
  Context {K V : Type} (keqb : K -> K -> bool).

  Lemma od_put_new : forall k (v : V) d, od_find keqb k d = None -> od_put keqb k v d = d ++ [(k, v)].
  Proof.
    intros k v d. induction d as [|[k' v'] t IH]; cbn [od_find od_put app]; [reflexivity|].
    destruct (keqb k' k); [discriminate|]. intros H. rewrite IH by exact H. reflexivity.
  Qed.

  Lemma od_find_last : forall k (v : V) d, keqb k k = true -> od_find keqb k d = None ->
    od_find keqb k (d ++ [(k, v)]) = Some v.
  Proof.
    intros k v d R. induction d as [|[k' v'] t IH]; cbn [od_find app].
    - rewrite R. reflexivity.
    - destruct (keqb k' k); [discriminate | exact IH].
  Qed.

  Lemma od_put_last : forall k (v w : V) d, keqb k k = true -> od_find keqb k d = None ->
    od_put keqb k w (d ++ [(k, v)]) = d ++ [(k, w)].
  Proof.
    intros k v w d R. induction d as [|[k' v'] t IH]; cbn [od_find od_put app].
    - rewrite R. reflexivity.
    - destruct (keqb k' k); [discriminate|]. intros H. rewrite IH by exact H. reflexivity.
  Qed.
End OD.

(* ================================================================== merge_events_by_keys *)

(* the tuple the code builds for a composite key of the model: every value has gone through
   tuple() if it was a list, so every component is hashable *)
Definition kp (p : Z * Z) : kelem := KPair (fst p) (VHash (snd p)).
Definition ckP (c : list (Z * Z)) : ckey := map kp c.
Definition mdict := list (list (Z * Z) * gev).
Definition conv (m : mdict) : odict (K := ckey) (V := gev) := map (fun cg => (ckP (fst cg), snd cg)) m.

Lemma ckey_eqb2_ckP : forall a b, ckey_eqb2 (ckP a) (ckP b) = ckey_eqb a b.
Proof.
  induction a as [|x a IH]; destruct b as [|y b]; cbn [ckP map ckey_eqb2 ckey_eqb]; try reflexivity.
  fold (ckP a). fold (ckP b). rewrite IH. reflexivity.
Qed.

Lemma ckP_hashable : forall c, ckey_hashable (ckP c) = true.
Proof. induction c as [|x c IH]; cbn [ckP map ckey_hashable forallb]; [reflexivity | exact IH]. Qed.

Lemma ckey_eqb_refl : forall c, ckey_eqb c c = true.
Proof. intros c. apply ckey_eqb_spec. reflexivity. Qed.

Lemma ckey_eqb2_refl : forall c, ckey_eqb2 (ckP c) (ckP c) = true.
Proof. intros c. rewrite ckey_eqb2_ckP. apply ckey_eqb_refl. Qed.

Lemma pv_label_mk : forall (b : bool) z, pv_label (if b then VList z else VHash z) = z.
Proof. intros [] z; reflexivity. Qed.

(* first slot of the model's dict with the given composite key *)
Fixpoint mfind (ck : list (Z * Z)) (m : mdict) : option gev :=
  match m with
  | [] => None
  | (c, g) :: t => if ckey_eqb c ck then Some g else mfind ck t
  end.

Lemma od_find_conv : forall ck m, od_find ckey_eqb2 (ckP ck) (conv m) = mfind ck m.
Proof.
  intros ck m. induction m as [|[c g] t IH]; cbn [conv map od_find mfind fst snd]; [reflexivity|].
  rewrite ckey_eqb2_ckP. fold (conv t). rewrite IH. reflexivity.
Qed.

Lemma madd_new : forall keys ck e m, mfind ck m = None -> madd keys ck e m = m ++ [(ck, new_group keys e)].
Proof.
  intros keys ck e m. induction m as [|[c g] t IH]; cbn [mfind madd app]; [reflexivity|].
  destruct (ckey_eqb c ck); [discriminate|]. intros H. rewrite IH by exact H. reflexivity.
Qed.

Lemma madd_found : forall keys ck e m g, mfind ck m = Some g ->
  od_put ckey_eqb2 (ckP ck) (add_dur g (gdur e)) (conv m) = conv (madd keys ck e m).
Proof.
  intros keys ck e m g. induction m as [|[c g'] t IH]; cbn [mfind madd conv map od_put fst snd]; [discriminate|].
  rewrite ckey_eqb2_ckP. fold (conv t). destruct (ckey_eqb c ck).
  - intros H. injection H as ->. reflexivity.
  - intros H. rewrite IH by exact H. reflexivity.
Qed.

Lemma madd_fst : forall keys ck e m,
  map fst (madd keys ck e m) =
  if existsb (fun c => ckey_eqb c ck) (map fst m) then map fst m else map fst m ++ [ck].
Proof.
  intros keys ck e m. induction m as [|[c g] t IH]; cbn [madd map fst existsb app]; [reflexivity|].
  destruct (ckey_eqb c ck); cbn [orb map fst]; [reflexivity|].
  rewrite IH. destruct (existsb _ _); reflexivity.
Qed.

Lemma madd_nodup : forall keys ck e m, NoDup (map fst m) -> NoDup (map fst (madd keys ck e m)).
Proof.
  intros keys ck e m H. rewrite madd_fst. destruct (existsb _ _) eqn:E; [exact H|].
  apply NoDup_snoc; [exact H|]. intros Hin.
  assert (X : existsb (fun c => ckey_eqb c ck) (map fst m) = true).
  { apply existsb_exists. exists ck. split; [exact Hin | apply ckey_eqb_refl]. }
  rewrite X in E. discriminate.
Qed.

Lemma run_nodup : forall keys events m, NoDup (map fst m) ->
  NoDup (map fst (fold_left (merge_step keys) events m)).
Proof.
  intros keys events. induction events as [|e t IH]; intros m H; cbn [fold_left]; [exact H|].
  apply IH. unfold merge_step. apply madd_nodup. exact H.
Qed.

Lemma mfind_nodup : forall m c g, NoDup (map fst m) -> In (c, g) m -> mfind c m = Some g.
Proof.
  induction m as [|[c' g'] t IH]; intros c g Hn Hin; [destruct Hin|].
  cbn [map fst] in Hn. inversion Hn as [|x l Hx Ht]; subst. cbn [mfind].
  destruct Hin as [Heq|Hin].
  - injection Heq as -> ->. rewrite ckey_eqb_refl. reflexivity.
  - destruct (ckey_eqb c' c) eqn:E.
    + apply ckey_eqb_spec in E. subst. exfalso. apply Hx. apply (in_map fst) in Hin. exact Hin.
    + apply IH; assumption.
Qed.

Lemma getitem_conv : forall m c g, NoDup (map fst m) -> In (c, g) m ->
  od_getitem ckey_eqb2 ckey_hashable (ckP c) (conv m) = Ok g.
Proof.
  intros m c g Hn Hin. unfold od_getitem. rewrite ckP_hashable, od_find_conv, (mfind_nodup m c g Hn Hin).
  reflexivity.
Qed.

(* the composite key, as the inner loop accumulates it *)
Definition ck_step (d : dict) (acc : list (Z * Z)) (k : Z) : list (Z * Z) :=
  acc ++ match lookup k d with Some v => [(k, v)] | None => [] end.

Lemma ck_fold : forall d keys acc, fold_left (ck_step d) keys acc = acc ++ composite_key keys d.
Proof.
  intros d keys. induction keys as [|k t IH]; intros acc; cbn [fold_left].
  - unfold composite_key. cbn [flat_map]. rewrite app_nil_r. reflexivity.
  - rewrite IH. unfold ck_step, composite_key. cbn [flat_map]. rewrite app_assoc. reflexivity.
Qed.

(* the freshly created group while its data is being filled in *)
Definition sel_step (d : dict) (acc : dict) (k : Z) : dict :=
  match lookup k d with Some v => dset k v acc | None => acc end.

Definition with_new (m : mdict) (ck : list (Z * Z)) (e : gev) (acc : dict) : odict (K := ckey) (V := gev) :=
  conv m ++ [(ckP ck, mkG None (floor_ms (gts e)) (gdur e) acc)].

Lemma with_new_done : forall keys m e,
  with_new m (composite_key keys (gdata e)) e (fold_left (sel_step (gdata e)) keys []) =
  conv (m ++ [(composite_key keys (gdata e), new_group keys e)]).
Proof. intros keys m e. unfold with_new, conv. rewrite map_app. reflexivity. Qed.

(* the result loop *)
Lemma result_loop_aux : forall (body : ckey -> list gev -> res (list gev)) (l : mdict),
  (forall c g r, In (c, g) l -> body (ckP c) r = Ok (r ++ [rebuild g])) ->
  forall r, py_for l r (fun cg => body (ckP (fst cg))) = Ok (r ++ map (fun cg => rebuild (snd cg)) l).
Proof.
  intros body l. induction l as [|[c g] t IH]; intros H r; cbn [py_for map snd fst].
  - rewrite app_nil_r. reflexivity.
  - rewrite (H c g r) by (left; reflexivity). cbn [bind]. rewrite IH.
    + rewrite <- app_assoc. reflexivity.
    + intros c' g' r' Hin. apply H. right. exact Hin.
Qed.

Lemma result_loop : forall (body : ckey -> list gev -> res (list gev)) (l : mdict),
  (forall c g r, In (c, g) l -> body (ckP c) r = Ok (r ++ [rebuild g])) ->
  forall r, py_for (od_keys (conv l)) r body = Ok (r ++ map (fun cg => rebuild (snd cg)) l).
Proof.
  intros body l H r. unfold od_keys, conv. rewrite map_map. cbn [fst]. rewrite py_for_map.
  apply result_loop_aux. exact H.
Qed.

Ltac pysimp :=
  repeat (progress cbn [bind py_and py_or py_not py_isinstance_list py_tuple fst snd negb andb orb]).

Theorem bridge_merge_events_by_keys : forall is_list events keys,
  gen_merge_events_by_keys is_list events keys = Ok (merge_events_by_keys events keys).
Proof.
  intros is_list events keys. unfold gen_merge_events_by_keys, merge_events_by_keys.
  destruct keys as [|k0 kt]; [reflexivity|]. set (keys := k0 :: kt).
  replace (py_len keys <? 1) with false by (unfold py_len, keys; cbn [length]; lia).
  replace (Z.of_nat (length keys) <? 1) with false by (unfold keys; cbn [length]; lia).
  pysimp.
  (* the main loop computes the model's dict of groups *)
  match goal with |- context [py_for events [] ?body] =>
    assert (Hloop : py_for events [] body = Ok (conv (fold_left (merge_step keys) events [])))
  end.
  { refine (py_for_fun conv (merge_step keys) _ events _ []). intros e m _.
    (* composite key *)
    match goal with |- context [py_for keys [] ?b] =>
      assert (Hck : py_for keys [] b = Ok (ckP (fold_left (ck_step (gdata e)) keys [])))
    end.
    { refine (py_for_fun ckP (ck_step (gdata e)) _ keys _ []). intros k acc _. unfold py_in_dict, py_getitem_v, py_getitem, ck_step.
      destruct (lookup k (gdata e)) as [v|]; pysimp.
      - destruct (is_list v); pysimp; unfold ckP; rewrite map_app; reflexivity.
      - rewrite app_nil_r. reflexivity. }
    rewrite Hck. clear Hck. rewrite ck_fold. cbn [app]. pysimp.
    set (ck := composite_key keys (gdata e)).
    unfold od_contains at 1. rewrite ckP_hashable, od_find_conv.
    unfold merge_step. fold ck. destruct (mfind ck m) as [g|] eqn:F; pysimp.
    - (* the group exists: duration += *)
      unfold od_getitem. rewrite ckP_hashable, od_find_conv, F. pysimp.
      rewrite <- (madd_found keys ck e m g F). reflexivity.
    - (* a new group: constructor, then the data loop *)
      unfold od_setitem. rewrite ckP_hashable. pysimp.
      rewrite od_put_new by (rewrite od_find_conv; exact F).
      rewrite (madd_new keys ck e m F).
      match goal with |- context [py_for keys _ ?b] =>
        assert (Hsel : py_for keys (with_new m ck e []) b
                       = Ok (with_new m ck e (fold_left (sel_step (gdata e)) keys [])))
      end.
      { apply py_for_fun. intros k acc _. unfold py_in_dict, py_getitem_v, py_getitem, sel_step, with_new.
        destruct (lookup k (gdata e)) as [v|]; pysimp; [|reflexivity].
        unfold od_getitem. rewrite ckP_hashable.
        rewrite od_find_last by (try apply ckey_eqb2_refl; rewrite od_find_conv; exact F).
        pysimp. rewrite od_put_last by (try apply ckey_eqb2_refl; rewrite od_find_conv; exact F).
        rewrite pv_label_mk. reflexivity. }
      unfold with_new at 1 in Hsel. unfold py_Event. rewrite Hsel. clear Hsel. pysimp.
      unfold ck. rewrite with_new_done. reflexivity. }
  rewrite Hloop. clear Hloop. pysimp.
  (* the result loop reads every group back *)
  set (m := fold_left (merge_step keys) events []).
  assert (Hn : NoDup (map fst m)) by (apply run_nodup; constructor).
  rewrite result_loop.
  - reflexivity.
  - intros c g r Hin. rewrite (getitem_conv m c g Hn Hin). reflexivity.
Qed.
Print Assumptions bridge_merge_events_by_keys.

(* ================================================================== chunk_events_by_key *)

(* the Python Event that a chunk record of the model stands for:
   Event(id=None, timestamp=cts, duration=cdur, data={key: cval, "subevents": csub}) *)
Definition chunk_event (key sub_key : Z) (c : chunk) : cev :=
  mkCev None (cts c) (cdur c) [(key, CV (cval c)); (sub_key, CSub (csub c))].

(* one iteration of the model's loop that does not break *)
Definition chunk_step (pulse last_end : Z) (acc_rev : list chunk) (e : gev) (v : Z) : list chunk :=
  match acc_rev with
  | [] => [new_chunk e v]
  | c :: older =>
      if (cval c =? v) && (gts e - last_end <? pulse) then chunk_add c e :: older
      else new_chunk e v :: c :: older
  end.

Lemma chunk_loop_cons : forall key pulse last_end e rest acc,
  chunk_loop key pulse last_end (e :: rest) acc =
  match lookup key (gdata e) with
  | None => rev acc
  | Some v => chunk_loop key pulse last_end rest (chunk_step pulse last_end acc e v)
  end.
Proof.
  intros key pulse last_end e rest acc. cbn [chunk_loop]. destruct (lookup key (gdata e)) as [v|]; [|reflexivity].
  destruct acc as [|c older]; cbn [chunk_step]; [reflexivity|].
  destruct ((cval c =? v) && (gts e - last_end <? pulse)); reflexivity.
Qed.

Lemma chunk_loop_bridge : forall key sub_key pulse last_end (body : gev -> list cev -> res (bool * list cev)),
  (forall e acc, body e (map (chunk_event key sub_key) (rev acc)) =
     Ok (match lookup key (gdata e) with
         | None => (true, map (chunk_event key sub_key) (rev acc))
         | Some v => (false, map (chunk_event key sub_key) (rev (chunk_step pulse last_end acc e v)))
         end)) ->
  forall rest acc,
    py_for_brk rest (map (chunk_event key sub_key) (rev acc)) body =
    Ok (map (chunk_event key sub_key) (chunk_loop key pulse last_end rest acc)).
Proof.
  intros key sub_key pulse last_end body H rest. induction rest as [|e rest IH]; intros acc.
  - reflexivity.
  - cbn [py_for_brk]. rewrite H, chunk_loop_cons. cbn [bind].
    destruct (lookup key (gdata e)) as [v|]; cbn [fst snd]; [apply IH | reflexivity].
Qed.

Theorem bridge_chunk_events_by_key : forall is_list sub_key events key pulse,
  key <> sub_key ->
  gen_chunk_events_by_key is_list sub_key events key pulse =
  Ok (map (chunk_event key sub_key) (chunk_events_by_key events key pulse)).
Proof.
  intros is_list sub_key events key pulse Hk.
  unfold gen_chunk_events_by_key, chunk_events_by_key.
  destruct (rev events) as [|l pre] eqn:R.
  { assert (events = []) as -> by (rewrite <- (rev_involutive events), R; reflexivity). reflexivity. }
  assert (Hlast : py_last events = Ok l) by (unfold py_last; rewrite R; reflexivity).
  assert (Hks : (key =? sub_key) = false) by lia.
  pysimp.
  match goal with |- context [py_for_brk events [] ?b] =>
    assert (Hloop : py_for_brk events [] b
                    = Ok (map (chunk_event key sub_key) (chunk_loop key pulse (gts l + gdur l) events [])))
  end.
  { refine (chunk_loop_bridge key sub_key pulse (gts l + gdur l) _ _ events []).
    intros e acc. unfold py_in_dict, py_getitem_v, py_getitem.
    destruct (lookup key (gdata e)) as [v|]; pysimp; [|reflexivity].
    destruct acc as [|c older]; cbn [rev map app chunk_step].
    - (* first chunk *)
      cbn [py_len length Z.of_nat Z.gtb Z.compare]. pysimp. unfold py_Event_c, cv_of_val. rewrite pv_label_mk.
      cbn [cd_put]. rewrite Hks. reflexivity.
    - rewrite map_app. cbn [map]. rewrite py_len_snoc_pos, Hlast. pysimp.
      rewrite py_last_snoc. pysimp.
      unfold cd_getitem at 1. cbn [chunk_event ce_data cd_lookup]. rewrite Z.eqb_refl. pysimp.
      unfold py_eq_cv. rewrite pv_label_mk. pysimp.
      assert (Hnew : forall pre,
        Ok (false, (pre ++ [chunk_event key sub_key c]) ++
                   [py_Event_c (gts e) (gdur e)
                      (cd_put sub_key (CSub [e])
                         (cd_put key (cv_of_val (if is_list v then VList v else VHash v)) []))]) =
        Ok (false, (pre ++ [chunk_event key sub_key c]) ++ [chunk_event key sub_key (new_chunk e v)])).
      { intros pre0. unfold py_Event_c, cv_of_val. rewrite pv_label_mk. cbn [cd_put]. rewrite Hks. reflexivity. }
      destruct (cval c =? v) eqn:C1; [destruct (gts e - (gts l + gdur l) <? pulse) eqn:C2|]; cbn [andb]; pysimp.
      + (* the chunk goes on: duration +=, subevents.append *)
        rewrite py_set_last_snoc, py_last_snoc. pysimp.
        unfold cd_getitem. cbn [chunk_event cev_set_dur cev_set_data ce_data ce_id ce_ts ce_dur cd_lookup].
        rewrite Hks, Z.eqb_refl. pysimp.
        cbn [cv_append bind]. rewrite py_set_last_snoc. cbn [cd_put]. rewrite Hks, Z.eqb_refl.
        cbn [rev]. rewrite map_app. reflexivity.
      + (* pulsetime exceeded: a new chunk *)
        rewrite Hnew. cbn [rev]. rewrite !map_app. reflexivity.
      + (* another value: a new chunk *)
        rewrite Hnew. cbn [rev]. rewrite !map_app. reflexivity. }
  rewrite Hloop. reflexivity.
Qed.
Print Assumptions bridge_chunk_events_by_key.

(* ================================================================== consequences for the source text *)

(* What Props/C16.v proves about the model therefore holds of the functions as they are
   written in /repo today (in the rendering of translate/k_group2.py): neither can raise,
   merge conserves the total duration, the chunks' sub-events concatenate to the
   key-bearing prefix and the chunk durations add up to its total. *)
Theorem gen_merge_total : forall is_list events keys,
  exists out, gen_merge_events_by_keys is_list events keys = Ok out /\
              sumZ (map gdur out) = sumZ (map gdur events).
Proof.
  intros is_list events keys. exists (merge_events_by_keys events keys).
  split; [apply bridge_merge_events_by_keys | apply merge_total].
Qed.
Print Assumptions gen_merge_total.

Theorem gen_chunk_partition : forall is_list sub_key events key pulse,
  key <> sub_key ->
  exists cs, gen_chunk_events_by_key is_list sub_key events key pulse = Ok (map (chunk_event key sub_key) cs) /\
             concat (map csub cs) = key_prefix key events /\
             Forall (chunk_ok key) cs /\
             sumZ (map cdur cs) = sumZ (map gdur (key_prefix key events)).
Proof.
  intros is_list sub_key events key pulse Hk. exists (chunk_events_by_key events key pulse).
  destruct (chunk_partition events key pulse) as [Hc Hf].
  split; [apply bridge_chunk_events_by_key; exact Hk|].
  split; [exact Hc|]. split; [exact Hf | apply chunk_total].
Qed.
Print Assumptions gen_chunk_partition.

(* The regenerated text runs: two events whose value under key 1 is a list (label 7), one
   without key 2; list-ness of the value does not matter after tuple(). *)
Example gen_merge_runs :
  gen_merge_events_by_keys (fun _ => true)
    [mkG (Some 1) 5000 10 [(1, 7); (2, 8)]; mkG (Some 2) 6000 20 [(1, 7)]; mkG None 7000 30 [(2, 8); (1, 7)]] [1; 2]
  = Ok [mkG None 5000 40 [(1, 7); (2, 8)]; mkG None 6000 20 [(1, 7)]].
Proof. vm_compute. reflexivity. Qed.

Example gen_chunk_runs :
  gen_chunk_events_by_key (fun _ => false) 99
    [mkG None 9000 10 [(1, 7)]; mkG None 1000 20 [(1, 7)]; mkG None 2000 30 [(1, 8)]; mkG None 3000 5 []; mkG None 0 0 [(1, 8)]] 1 5000000
  = Ok [mkCev None 9000 30 [(1, CV 7); (99, CSub [mkG None 9000 10 [(1, 7)]; mkG None 1000 20 [(1, 7)]])];
        mkCev None 2000 30 [(1, CV 8); (99, CSub [mkG None 2000 30 [(1, 8)]])]].
Proof. vm_compute. reflexivity. Qed.
