(* Tie B for the query language (C17, C11): every definition of Gen/GenQuery.v, re-translated from
   /repo/aw_query/query2.py on every run by translate/k_query.py, equals the corresponding definition of the
   hand-written model Model/Query.v. *)
From Coq Require Import ZifyBool Lia List.
From AwVerif Require Import Base.Prelude Model.PyStr Model.Query Proofs.QueryTotal Gen.GenQuery.
Import ListNotations.
Open Scope Z_scope.

Ltac unfold_chars :=
  unfold c_dq, c_sq, c_lpar, c_rpar, c_comma, c_colon, c_semi, c_eq, c_lbrk, c_bs, c_rbrk, c_us, c_lbrc, c_rbrc in *.

Ltac split_ifs :=
  repeat match goal with
  | |- context [if ?b then _ else _] => let E := fresh "E" in destruct b eqn:E
  end.

(* ---------------------------------------------------------------- the six scanners *)

Lemma bridge_QInteger_check_loop : forall s token,
  gen_QInteger_check_loop1 token s = Ok (token ++ take_digits s).
Proof.
  induction s as [|c t IH]; intro token; cbn [gen_QInteger_check_loop1 take_digits].
  - rewrite app_nil_r. reflexivity.
  - destruct (is_digit c); [rewrite IH, <- app_assoc|rewrite app_nil_r]; reflexivity.
Qed.

Lemma bridge_QInteger_check : forall s, gen_QInteger_check s = Ok (check_integer s).
Proof. intro s. unfold gen_QInteger_check, check_integer. rewrite bridge_QInteger_check_loop. reflexivity. Qed.

Lemma bridge_QVariable_check_loop : forall s i token,
  gen_QVariable_check_loop1 i token s = Ok (token ++ var_scan i s).
Proof.
  induction s as [|c t IH]; intros i token; cbn [gen_QVariable_check_loop1 var_scan].
  - rewrite app_nil_r. reflexivity.
  - unfold_chars. split_ifs; rewrite ?IH, <- ?app_assoc, ?app_nil_r; reflexivity.
Qed.

Lemma bridge_QVariable_check : forall s, gen_QVariable_check s = Ok (check_variable s).
Proof. intro s. unfold gen_QVariable_check, check_variable. rewrite bridge_QVariable_check_loop. reflexivity. Qed.

Lemma bridge_QString_check_loop : forall s token prev q,
  gen_QString_check_loop1 token prev q s = Ok (token ++ str_scan q prev s).
Proof.
  induction s as [|c t IH]; intros token prev q; cbn [gen_QString_check_loop1 str_scan].
  - rewrite app_nil_r. reflexivity.
  - unfold optchar_neqb, prev_not_bs. unfold_chars.
    split_ifs; rewrite ?IH, <- ?app_assoc; reflexivity.
Qed.

Lemma bridge_QString_check : forall s, gen_QString_check s = check_string s.
Proof.
  intro s. unfold gen_QString_check, check_string. destruct (first_char s) as [q| |]; cbn [bind]; try reflexivity.
  unfold_chars. destruct (negb (q =? 34) && negb (q =? 39)); [reflexivity|].
  rewrite bridge_QString_check_loop. cbn [bind app]. reflexivity.
Qed.

Lemma bridge_QFunction_check_loop1 : forall s i,
  gen_QFunction_check_loop1 i false s = Ok (fn_head i s).
Proof.
  induction s as [|c t IH]; intro i; cbn [gen_QFunction_check_loop1 fn_head]; [reflexivity|].
  unfold_chars. split_ifs; rewrite ?IH; reflexivity.
Qed.

(* the bracket-counting loop of QFunction.check / QDict.check / QList.check is the model's bscan *)
Ltac bscan_step IH :=
  cbn [bscan]; unfold bstep, optchar_neqb, prev_not_bs; unfold_chars; cbn [andb];
  split_ifs; first [reflexivity | apply IH | exfalso; lia].

Lemma bridge_QFunction_check_loop2 : forall s i tc sq dq prev,
  gen_QFunction_check_loop2 i tc sq dq prev s = Ok (bscan c_lpar c_rpar true s i tc sq dq prev).
Proof.
  induction s as [|c t IH]; intros i tc sq dq prev; cbn [gen_QFunction_check_loop2]; [reflexivity|].
  bscan_step IH.
Qed.

Lemma bridge_QFunction_check : forall s, gen_QFunction_check s = Ok (check_function s).
Proof.
  intro s. unfold gen_QFunction_check, check_function. rewrite bridge_QFunction_check_loop1. cbn [bind].
  destruct (fn_head 0 s) as [i found]. destruct found; cbn [negb]; [|reflexivity].
  rewrite bridge_QFunction_check_loop2. cbn [bind].
  destruct (bscan c_lpar c_rpar true (drop i s) i 1 false false None) as [i' tc]. destruct (negb (tc =? 0)); reflexivity.
Qed.

Lemma bridge_QDict_check_loop : forall s i tc sq dq prev,
  gen_QDict_check_loop1 i tc sq dq prev s = Ok (fst (bscan c_lbrc c_rbrc false s i tc sq dq prev)).
Proof.
  induction s as [|c t IH]; intros i tc sq dq prev; cbn [gen_QDict_check_loop1]; [reflexivity|].
  bscan_step IH.
Qed.

Lemma bridge_QList_check_loop : forall s i tc sq dq prev,
  gen_QList_check_loop1 i tc sq dq prev s = Ok (fst (bscan c_lbrk c_rbrk false s i tc sq dq prev)).
Proof.
  induction s as [|c t IH]; intros i tc sq dq prev; cbn [gen_QList_check_loop1]; [reflexivity|].
  bscan_step IH.
Qed.

Lemma bridge_QDict_check : forall s, gen_QDict_check s = check_dict s.
Proof.
  intro s. unfold gen_QDict_check, check_dict, check_bracket.
  destruct (first_char s) as [c0| |]; cbn [bind]; try reflexivity. unfold_chars.
  destruct (negb (c0 =? 123)); [reflexivity|]. rewrite bridge_QDict_check_loop. cbn [bind].
  destruct (bscan _ _ _ _ _ _ _ _ _) as [i tc]. reflexivity.
Qed.

Lemma bridge_QList_check : forall s, gen_QList_check s = check_list s.
Proof.
  intro s. unfold gen_QList_check, check_list, check_bracket.
  destruct (first_char s) as [c0| |]; cbn [bind]; try reflexivity. unfold_chars.
  destruct (negb (c0 =? 91)); [reflexivity|]. rewrite bridge_QList_check_loop. cbn [bind].
  destruct (bscan _ _ _ _ _ _ _ _ _) as [i tc]. reflexivity.
Qed.

(* ---------------------------------------------------------------- qtypes, t.check, _parse_token *)

Lemma bridge_qtypes : gen_qtypes = qtypes.
Proof. reflexivity. Qed.

Lemma bridge_check : forall t s, gen_check t s = check t s.
Proof.
  intros [] s; cbn [gen_check check].
  - apply bridge_QString_check.
  - apply bridge_QInteger_check.
  - apply bridge_QFunction_check.
  - apply bridge_QDict_check.
  - apply bridge_QList_check.
  - apply bridge_QVariable_check.
Qed.

Lemma len0_is_empty : forall s : str, Nat.eqb (length s) 0 = is_empty s.
Proof. destruct s; reflexivity. Qed.
Lemma ltb0_len : forall s : str, Nat.ltb 0 (length s) = negb (is_empty s).
Proof. destruct s; reflexivity. Qed.

(* the loop `for t in qtypes: token, string = t.check(string); if token: break` followed by
   `if not token: raise`, against the model's try_types *)
Lemma bridge_parse_token_loop : forall ts s tok0 t0,
  optstr_truthy tok0 = false ->
  bind (gen_parse_token_loop1 s tok0 t0 ts)
       (fun '(string, token, t) =>
          if negb (optstr_truthy token) then Err ParseError else Ok ((t, optstr_get token), string))
  = bind (try_types ts s)
       (fun '(r, s') => match r with
                        | None => Err ParseError
                        | Some (t, token) => Ok ((Some t, token), s')
                        end).
Proof.
  induction ts as [|t ts IH]; intros s tok0 t0 H0; cbn [gen_parse_token_loop1 try_types bind].
  - rewrite H0. reflexivity.
  - rewrite bridge_check. destruct (check t s) as [[tok s']|c|]; cbn [bind]; try reflexivity.
    change (truthy tok) with (optstr_truthy tok).
    destruct (optstr_truthy tok) eqn:E; cbn [bind].
    + rewrite E. reflexivity.
    + apply IH. exact E.
Qed.

Lemma bridge_parse_token : forall s ns, gen_parse_token s ns = parse_token s.
Proof.
  intros s ns. unfold gen_parse_token, parse_token. cbn [negb]. rewrite ?len0_is_empty.
  destruct (is_empty s); [reflexivity|]. cbv zeta. destruct (is_empty (strip s)); [reflexivity|].
  rewrite bridge_qtypes. apply bridge_parse_token_loop. reflexivity.
Qed.

(* ---------------------------------------------------------------- the parse methods *)

Lemma bridge_QString_parse : forall s ns,
  gen_QString_parse s ns = bind (parse_string s) (fun v => Ok (QString v)).
Proof. intros s ns. unfold gen_QString_parse, parse_string. destruct (first_char s); reflexivity. Qed.

Lemma bridge_QInteger_parse : forall md s ns,
  gen_QInteger_parse md s ns =
  match py_int md s with
  | Ok z => Ok (QInteger z)
  | Err ValueError => Err ParseError
  | Err c => Err c
  | OutOfFuel => OutOfFuel
  end.
Proof. intros md s ns. unfold gen_QInteger_parse. destruct (py_int md s) as [z|[]|]; reflexivity. Qed.

Lemma bridge_QVariable_parse : forall s ns, gen_QVariable_parse s ns = Ok (parse_variable ns s).
Proof.
  intros s ns. unfold gen_QVariable_parse, parse_variable, dict_mem, dict_lookup.
  destruct (dict_get ns s); reflexivity.
Qed.

Lemma bridge_QFunction_parse_loop1 : forall s a,
  gen_QFunction_parse_loop1 a s = Ok (a + arg_start_of s)%nat.
Proof.
  induction s as [|c t IH]; intro a; cbn [gen_QFunction_parse_loop1 arg_start_of].
  - rewrite Nat.add_0_r. reflexivity.
  - unfold_chars. destruct (c =? 40); [rewrite Nat.add_0_r; reflexivity|].
    rewrite IH, Nat.add_succ_r. reflexivity.
Qed.

Lemma znorm_len_pred : forall n : nat, znorm n (Z.of_nat n - 1) = (n - 1)%nat.
Proof. intro n. unfold znorm. destruct (Z.of_nat n - 1 <? 0) eqn:E; lia. Qed.
Lemma znorm_of_nat : forall n i : nat, znorm n (Z.of_nat i) = i.
Proof. intros n i. unfold znorm. destruct (Z.of_nat i <? 0) eqn:E; lia. Qed.
Lemma znorm_of_nat_succ : forall n i : nat, znorm n (Z.of_nat i + 1) = (i + 1)%nat.
Proof. intros n i. unfold znorm. destruct (Z.of_nat i + 1 <? 0) eqn:E; lia. Qed.

(* The generated recursion spends one unit of fuel per call of t.parse and per executed loop iteration; the
   model also spends one when a loop is entered with nothing left to do.  Hence: whenever the model does not
   run out of fuel, the generated code returns the same result with the same fuel. *)
Definition refines {A} (g m : res A) : Prop := m = OutOfFuel \/ g = m.

Lemma refines_refl {A} (m : res A) : refines m m.
Proof. right. reflexivity. Qed.

Lemma refines_bind {A B} (g m : res A) (kg km : A -> res B) :
  refines g m -> (forall x, refines (kg x) (km x)) -> refines (bind g kg) (bind m km).
Proof.
  intros [->| ->] K; [left; reflexivity|].
  destruct m as [x|c|]; cbn [bind]; [apply K|right; reflexivity|left; reflexivity].
Qed.

Lemma bind_assoc {A B C} (m : res A) (k1 : A -> res B) (k2 : B -> res C) :
  bind (bind m k1) k2 = bind m (fun x => bind (k1 x) k2).
Proof. destruct m; reflexivity. Qed.

(* entering the (accumulating) argument loop with an empty accumulator *)
Lemma refines_args_enter {B} (g m : res (list qtoken)) (k : list qtoken -> res B) :
  refines g (bind m (fun l => Ok ([] ++ l))) -> refines (bind g k) (bind m k).
Proof.
  intros [E| ->]; destruct m; cbn [bind app] in *; try discriminate;
    first [right; reflexivity | left; reflexivity].
Qed.

(* one more iteration of it: the model conses, the code appends *)
Lemma refines_args_step (g m : res (list qtoken)) a acc :
  refines g (bind m (fun l => Ok ((acc ++ [a]) ++ l))) ->
  refines g (bind (bind m (fun l => Ok (a :: l))) (fun l => Ok (acc ++ l))).
Proof.
  intros [E| ->]; destruct m; cbn [bind] in *; try discriminate;
    first [right; rewrite <- app_assoc; reflexivity | left; reflexivity | right; reflexivity].
Qed.

Ltac done_refines := first [right; reflexivity | left; reflexivity].

Section ParseGroup.
  Variable md : nat.
  Variable ns : namespace.

  Lemma while_args_nil : forall f acc, gen_QFunction_parse_while1 md f acc [] ns = Ok acc.
  Proof. intros [|f] acc; reflexivity. Qed.

  (* the part of the dict loop body after the optional comma, shared by the three copies the
     translator makes of it (one per path through `if len(d) > 0 and entries_str[0] == ","`) *)
  Ltac dict_rest IHt IHd :=
    let key_t := fresh "key_t" in let key_str := fresh "key_str" in let e1 := fresh "e1" in
    let key := fresh "key" in let c := fresh "c" in let r := fresh "r" in
    let val_t := fresh "val_t" in let val_str := fresh "val_str" in let e2 := fresh "e2" in
    let t := fresh "t" in let val := fresh "val" in
    rewrite bridge_parse_token;
    match goal with |- context [parse_token ?e] => destruct (parse_token e) as [[[key_t key_str] e1]|?|] end;
    cbn [bind]; try done_refines;
    destruct key_t as [[]|]; cbn [optqtype_is qtype_eqb negb]; try done_refines;
    rewrite bridge_QString_parse;
    destruct (parse_string key_str) as [key|?|]; cbn [bind qstring_value]; try done_refines;
    destruct (strip e1) as [|c r]; cbn [is_empty first_char bind]; try done_refines;
    unfold_chars; destruct (negb (c =? 58)); try done_refines;
    cbn [drop skipn]; rewrite bridge_parse_token;
    destruct (parse_token r) as [[[val_t val_str] e2]|?|]; cbn [bind]; try done_refines;
    destruct val_t as [t|]; cbn [optqtype_truthy negb]; try done_refines;
    apply refines_bind; [apply IHt|intro val; apply IHd].

  Ltac list_rest IHt IHl :=
    let val_t := fresh "val_t" in let val_str := fresh "val_str" in let e1 := fresh "e1" in
    let t := fresh "t" in let val := fresh "val" in
    rewrite bridge_parse_token;
    match goal with |- context [parse_token ?e] => destruct (parse_token e) as [[[val_t val_str] e1]|?|] end;
    cbn [bind]; try done_refines;
    destruct val_t as [t|]; cbn [optqtype_truthy negb]; try done_refines;
    apply refines_bind; [apply IHt|intro val; apply IHl].

  Lemma bridge_parse_group : forall f,
    (forall t s, refines (gen_parse_tok md f t s ns) (parse_tok md ns f t s)) /\
    (forall acc s, refines (gen_QFunction_parse_while1 md f acc s ns)
                           (bind (parse_args md ns f s) (fun l => Ok (acc ++ l)))) /\
    (forall s d, refines (gen_QDict_parse_while1 md f s d ns) (parse_dict md ns f s d)) /\
    (forall s l, refines (gen_QList_parse_while1 md f s l ns) (parse_list md ns f s l)).
  Proof.
    induction f as [|f (IHt & IHa & IHd & IHl)].
    { repeat split; intros; left; reflexivity. }
    split; [|split; [|split]].
    - (* t.parse *)
      intros t s. cbn [gen_parse_tok parse_tok]. destruct t.
      + right. apply bridge_QString_parse.
      + right. apply bridge_QInteger_parse.
      + rewrite bridge_QFunction_parse_loop1. cbn [bind]. cbv zeta.
        rewrite znorm_len_pred, Nat.add_0_l, <- (Nat.add_1_r (arg_start_of s)).
        apply refines_args_enter. apply IHa.
      + apply refines_bind; [apply IHd|intro; apply refines_refl].
      + apply refines_bind; [apply IHl|intro; apply refines_refl].
      + right. apply bridge_QVariable_parse.
    - (* the argument loop of QFunction.parse *)
      intros acc s. cbn [gen_QFunction_parse_while1 parse_args].
      destruct (is_empty (strip s)); cbn [negb bind]; [right; rewrite app_nil_r; reflexivity|].
      rewrite bridge_parse_token.
      destruct (parse_token s) as [[[arg_t arg] rest]|c|]; cbn [bind]; try done_refines.
      destruct arg_t as [t|]; [|done_refines].
      rewrite bind_assoc. apply refines_bind; [apply IHt|intro a]. cbv zeta.
      destruct (strip rest) as [|c r]; cbn [is_empty negb first_char bind].
      + right. apply while_args_nil.
      + unfold_chars. destruct (negb (c =? 44)); [done_refines|]. cbn [drop skipn].
        apply refines_args_step. apply IHa.
    - (* the entry loop of QDict.parse *)
      intros s d. cbn [gen_QDict_parse_while1 parse_dict].
      rewrite ?(ltb0_len (strip s)).
      destruct (strip s) as [|c0 r0]; cbn [is_empty negb]; [done_refines|]. cbn [first_char bind]. cbv zeta.
      unfold_chars. destruct (Nat.ltb 0 (length d)); cbn [andb]; [destruct (c0 =? 44)|];
        cbn [drop skipn]; dict_rest IHt IHd.
    - (* the entry loop of QList.parse *)
      intros s l. cbn [gen_QList_parse_while1 parse_list].
      rewrite ?(ltb0_len (strip s)).
      destruct (strip s) as [|c0 r0]; cbn [is_empty negb]; [done_refines|]. cbn [first_char bind]. cbv zeta.
      unfold_chars. destruct (Nat.ltb 0 (length l)); cbn [andb]; [destruct (c0 =? 44)|];
        cbn [drop skipn]; list_rest IHt IHl.
  Qed.

  Lemma bridge_parse_tok : forall f t s, refines (gen_parse_tok md f t s ns) (parse_tok md ns f t s).
  Proof. intros f t s. apply (bridge_parse_group f). Qed.
End ParseGroup.

(* ---------------------------------------------------------------- parse(line, namespace) *)

Lemma of_nat_neq_m1 : forall n : nat, (Z.of_nat n =? -1) = false.
Proof. intro n. lia. Qed.

Lemma bridge_parse_stmt : forall md ns line,
  refines (gen_parse_stmt md line ns) (parse_stmt md ns line).
Proof.
  intros md ns line. unfold gen_parse_stmt, parse_stmt, zfind. unfold_chars. cbv zeta.
  destruct (find_char 61 line) as [i|]; [|done_refines].
  rewrite of_nat_neq_m1, znorm_of_nat, znorm_of_nat_succ.
  destruct (is_empty (drop (i + 1) line)); [done_refines|].
  rewrite !bridge_parse_token.
  destruct (parse_token (take i line)) as [[[var_t var] rest]|c|]; cbn [bind]; try done_refines.
  destruct (negb (is_empty (strip rest))); [done_refines|].
  destruct var_t as [[]|]; cbn [optqtype_is qtype_eqb negb]; try done_refines.
  destruct (parse_token (drop (i + 1) line)) as [[[val_t val] rest2]|c|]; cbn [bind]; try done_refines.
  destruct (negb (is_empty rest2)); [done_refines|].
  apply refines_bind; [apply bridge_parse_tok|intro v].
  destruct val_t as [t|]; [|done_refines].
  apply refines_bind; [apply bridge_parse_tok|intro v2; apply refines_refl].
Qed.

(* query() only parses stripped, non-empty statements; for those the model never runs out of fuel
   (Proofs/QueryTotal.parse_stmt_good), so the generated statement parser IS the model's *)
Lemma bridge_parse_stmt_exact : forall md ns s0, strip s0 <> [] ->
  gen_parse_stmt md (strip s0) ns = parse_stmt md ns (strip s0).
Proof.
  intros md ns s0 H. destruct (bridge_parse_stmt md ns (strip s0)) as [E|E]; [|exact E].
  pose proof (parse_stmt_good md ns s0 H) as G. rewrite E in G. destruct G.
Qed.

Lemma bridge_create_namespace : gen_create_namespace = Ok create_namespace.
Proof. reflexivity. Qed.

Lemma bridge_get_return : forall ns, gen_get_return ns = get_return ns.
Proof.
  intro ns. unfold gen_get_return, get_return, dict_mem, dict_lookup.
  change [82; 69; 84; 85; 82; 78] with s_RETURN.
  destruct (dict_get ns s_RETURN); reflexivity.
Qed.

(* ---------------------------------------------------------------- functions.py: q2_typecheck *)

Lemma bridge_verify_variable_is_type : forall a t,
  gen_verify_variable_is_type a t = if isinstance a t then Ok tt else Err FunctionError.
Proof. intros a t. unfold gen_verify_variable_is_type. destruct (isinstance a t); reflexivity. Qed.

Lemma skipn_nth_cons {A} : forall (l : list A) i, (i < length l)%nat ->
  exists a, nth_error l i = Some a /\ skipn i l = a :: skipn (S i) l.
Proof.
  induction l as [|x l IH]; intros i H; cbn [length] in H; [lia|].
  destruct i as [|i]; [exists x; split; reflexivity|].
  destruct (IH i) as (a & E1 & E2); [lia|]. exists a. split; [exact E1|exact E2].
Qed.

(* the index-driven loop `for i, p in enumerate(sig.parameters): .. if i >= len(args): break .. args[i]`
   against the model's simultaneous recursion over parameters and arguments *)
Lemma bridge_typecheck_loop : forall sig i args,
  gen_typecheck_loop1 i args sig = typecheck sig (skipn i args).
Proof.
  induction sig as [|k sig IH]; intros i args; cbn [gen_typecheck_loop1 typecheck]; [reflexivity|].
  destruct (Nat.leb (length args) i) eqn:E.
  - rewrite skipn_all2 by (apply Nat.leb_le; exact E). reflexivity.
  - apply Nat.leb_gt in E. destruct (skipn_nth_cons args i E) as (a & E1 & E2). rewrite E2.
    destruct k; cbn [pk_annotation_in pk_no_default andb]; try apply IH.
    assert (Ht : existsb (ptype_eqb t) [PList; PStr; PInt; PFloat] = true) by (destruct t; reflexivity).
    rewrite Ht. cbn [andb]. unfold list_index. rewrite E1. cbn [bind pk_annotation].
    rewrite bridge_verify_variable_is_type. destruct (isinstance a t); cbn [bind]; [apply IH|reflexivity].
Qed.

Lemma bridge_typecheck : forall sig args, gen_typecheck sig args = typecheck sig args.
Proof.
  intros sig args. unfold gen_typecheck. rewrite bridge_typecheck_loop. cbn [skipn].
  destruct (typecheck sig args) as [[]|c|]; reflexivity.
Qed.

(* ---------------------------------------------------------------- functions.py: q2_function's wrapper g *)

(* functions[name](datastore, namespace, *values): which of the two leading arguments reach the function *)
Lemma bridge_q2_function_g : forall sig (vals : list arg),
  gen_q2_function_g sig ADatastore ANamespace vals =
  Ok ((if existsb is_pdatastore sig then [ADatastore] else []) ++
      (if existsb is_pnamespace sig then [ANamespace] else []) ++ vals).
Proof.
  intros sig vals. unfold gen_q2_function_g.
  change (existsb pk_is_namespace sig) with (existsb is_pnamespace sig).
  change (existsb pk_is_datastore sig) with (existsb is_pdatastore sig).
  destruct (existsb is_pnamespace sig), (existsb is_pdatastore sig); reflexivity.
Qed.

(* the interpreter side (the six interpret methods, interpret(), query(), the decorator composition) is translated
   by translate/k_query_interp.py and bridged in Bridge/BridgeQueryInterp.v *)

(* ---------------------------------------------------------------- the generated code computes (non-vacuity) *)

From Coq Require Import String.
Local Open Scope string_scope.

Example gen_parse_stmt_computes :
  gen_parse_stmt 4300 (zs "RETURN = f([1, {'a': x}], ""s,)"", g( 2 ))") create_namespace
  = Ok (QVariable (zs "RETURN") VNone,
        QFunction (zs "f")
          [QList [QInteger 1; QDict [(zs "a", QVariable (zs "x") VNone)]]; QString (zs "s,)");
           QFunction (zs "g") [QInteger 2]]).
Proof. vm_compute. reflexivity. Qed.

Example gen_typecheck_computes :
  gen_typecheck [PDatastore; PTyped PStr; PTyped PInt; PDefault] [ADatastore; AVal (VStr []); AVal (VStr [])]
  = Err FunctionError
  /\ gen_typecheck [PTyped PList; PTyped PInt] [AVal (VList [])] = Ok tt.
Proof. split; reflexivity. Qed.
