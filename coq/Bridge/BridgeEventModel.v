(* Tie B for Model/EventModel.v (C13, C01): aw_core/models.py re-translated from /repo on every run
   (translate/k_models.py -> Gen/GenEventModel.v) equals the hand-written model.
   The generated functions work on Python-level values (pydt: aware / naive datetimes, evdict: the
   dict an Event is, both defined in the fixed vocabulary at the head of the Gen file); the
   lemmas relate them to the model through `aware` (an aware datetime from the model's pair) and
   `dict_of_event` (the dict of a finished event). *)
From Coq Require Import ZArith Bool List Ascii PrimFloat Lia.
From AwVerif Require Import Base.Prelude Model.PyFloat Model.IsoTime Model.EventModel
  Proofs.EventProofs Gen.GenEventModel.
Open Scope Z_scope.

Definition aware (uo : Z * Z) : pydt := PyAware (fst uo) (snd uo).
Definition dt_pair (d : pydt) : res (Z * Z) :=
  match d with PyAware u o => Ok (u, o) | PyNaive _ => OutOfFuel end.

(* ---- _timestamp_parse ---- *)
Lemma bridge_timestamp_parse_aware : forall t,
  gen_timestamp_parse t = bind (timestamp_parse t) (fun uo => Ok (aware uo)).
Proof.
  intros [u o|l|s];
    cbv [gen_timestamp_parse timestamp_parse ms_floor_float iso8601_parse_date aware bind fst snd dt_microsecond
         dt_local dt_replace_microsecond dt_has_tzinfo negb dt_replace_tzinfo_utc].
  - destruct (fdiv_int_int ((u + o) mod 1000000) 1000) as [q|c|]; try reflexivity.
    destruct (int_of_float q) as [i|c|]; reflexivity.
  - rewrite Z.add_0_r.
    destruct (fdiv_int_int (l mod 1000000) 1000) as [q|c|]; try reflexivity.
    destruct (int_of_float q) as [i|c|]; try reflexivity.
    rewrite Z.sub_0_r. reflexivity.
  - destruct (parse_iso s) as [[u o]|c|]; try reflexivity.
    destruct (fdiv_int_int ((u + o) mod 1000000) 1000) as [q|c|]; try reflexivity.
    destruct (int_of_float q) as [i|c|]; reflexivity.
Qed.
Print Assumptions bridge_timestamp_parse_aware.

(* the form of the task statement: as the model's pair (utc, off) *)
Lemma bridge_timestamp_parse : forall t, bind (gen_timestamp_parse t) dt_pair = timestamp_parse t.
Proof.
  intros t. rewrite bridge_timestamp_parse_aware.
  destruct (timestamp_parse t) as [[u o]|c|]; reflexivity.
Qed.
Print Assumptions bridge_timestamp_parse.

(* ---- the setters ---- *)
(* timestamp: _timestamp_parse(x).astimezone(timezone.utc) is stored under "timestamp" *)
Lemma bridge_set_timestamp : forall d t,
  gen_set_timestamp d t = bind (set_timestamp t) (fun u => Ok (set_d_timestamp d (PyAware u 0))).
Proof.
  intros d t. unfold gen_set_timestamp, set_timestamp. rewrite bridge_timestamp_parse_aware.
  destruct (timestamp_parse t) as [[u o]|c|]; cbn [bind aware fst snd dt_astimezone_utc]; try reflexivity.
  destruct (dt_check u) as [u'|c|]; reflexivity.
Qed.
Print Assumptions bridge_set_timestamp.

(* duration: timedelta kept, numbers.Real -> timedelta(seconds=...) (int / float constructors) *)
Lemma bridge_set_duration : forall d x,
  gen_set_duration d x = bind (set_duration x) (fun k => Ok (set_d_duration d k)).
Proof. intros d [k|s|f]; reflexivity. Qed.
Print Assumptions bridge_set_duration.
Lemma bridge_set_duration_else : gen_set_duration_else_raises = TypeError.
Proof. reflexivity. Qed.
Print Assumptions bridge_set_duration_else.

Lemma bridge_set_id : forall d i, gen_set_id d i = Ok (set_d_id d i).
Proof. reflexivity. Qed.
Print Assumptions bridge_set_id.
Lemma bridge_set_data : forall d x, gen_set_data d x = Ok (set_d_data d x).
Proof. reflexivity. Qed.
Print Assumptions bridge_set_data.

(* ---- the getters: on a finished event they are the record projections; on an empty dict the defaults ---- *)
Lemma bridge_get_id : forall e, gen_get_id (dict_of_event e) = Ok (eid e).
Proof. intros [[i|] t k x]; reflexivity. Qed.
Print Assumptions bridge_get_id.
Lemma bridge_get_timestamp : forall e, gen_get_timestamp (dict_of_event e) = Ok (PyAware (ts e) 0).
Proof. reflexivity. Qed.
Print Assumptions bridge_get_timestamp.
Lemma bridge_get_duration : forall e, gen_get_duration (dict_of_event e) = Ok (dur e).
Proof. reflexivity. Qed.
Print Assumptions bridge_get_duration.
Lemma bridge_get_data : forall ed e, gen_get_data ed (dict_of_event e) = Ok (data e).
Proof. reflexivity. Qed.
Print Assumptions bridge_get_data.
Lemma bridge_get_defaults : forall ed,
  gen_get_id ev_empty = Ok None /\ gen_get_duration ev_empty = Ok 0 /\ gen_get_data ed ev_empty = Ok ed
  /\ gen_get_timestamp ev_empty = Err KeyError /\ gen_get_id (set_d_id ev_empty None) = Ok None.
Proof. repeat split; reflexivity. Qed.
Print Assumptions bridge_get_defaults.

(* ---- Event.__init__ ----
   The source parses the timestamp twice (explicitly, then again inside the property setter); the
   first lemma is the literal shape, the second collapses it to Model's mk_event with the
   idempotence of _timestamp_parse (Proofs/EventProofs.v, which rests on the float fact
   ms_floor_float_exact). *)
Lemma bridge_init_shape : forall ed i t d x,
  gen_init ed i t d x =
  bind (timestamp_parse t) (fun uo =>
  bind (set_timestamp (TsDt (fst uo) (snd uo))) (fun u =>
  bind (set_duration d) (fun k =>
  Ok (dict_of_event (mkEvent i u k (or_empty_dict ed x)))))).
Proof.
  intros ed i t d x. unfold gen_init. cbn [gen_set_id bind]. rewrite bridge_timestamp_parse_aware.
  destruct (timestamp_parse t) as [[u o]|c|]; cbn [bind aware fst snd ts_in_of_dt]; try reflexivity.
  rewrite bridge_set_timestamp.
  destruct (set_timestamp (TsDt u o)) as [u'|c|]; cbn [bind]; try reflexivity.
  rewrite bridge_set_duration.
  destruct (set_duration d) as [k|c|]; reflexivity.
Qed.
Print Assumptions bridge_init_shape.

Lemma floor_ms_idem : forall l, floor_ms (floor_ms l) = floor_ms l.
Proof.
  intros l. apply floor_ms_aligned. unfold ms_aligned, floor_ms.
  rewrite Z.mul_comm. apply Z.mod_mul. lia.
Qed.

Lemma timestamp_parse_idem : forall t u o,
  timestamp_parse t = Ok (u, o) -> timestamp_parse (TsDt u o) = Ok (u, o).
Proof.
  assert (K : forall L o, timestamp_parse (TsDt (floor_ms L - o) o) = Ok (floor_ms L - o, o)).
  { intros L o. rewrite timestamp_parse_dt. replace (floor_ms L - o + o) with (floor_ms L) by lia.
    now rewrite floor_ms_idem. }
  intros [u0 o0|l|s] u o H.
  - rewrite timestamp_parse_dt in H. inversion H; subst. apply K.
  - rewrite timestamp_parse_naive in H. inversion H; subst.
    replace (floor_ms l) with (floor_ms l - 0) by lia. apply K.
  - destruct (parse_iso s) as [[u1 o1]|c|] eqn:E.
    + rewrite (timestamp_parse_str s u1 o1 E) in H. inversion H; subst. apply K.
    + unfold timestamp_parse in H. rewrite E in H. discriminate.
    + unfold timestamp_parse in H. rewrite E in H. discriminate.
Qed.

Lemma bridge_init : forall ed i t d x,
  gen_init ed i t d x = bind (mk_event i t d (or_empty_dict ed x)) (fun e => Ok (dict_of_event e)).
Proof.
  intros ed i t d x. rewrite bridge_init_shape. unfold mk_event, set_timestamp at 2.
  destruct (timestamp_parse t) as [[u o]|c|] eqn:E; cbn [bind fst snd]; try reflexivity.
  unfold set_timestamp. rewrite (timestamp_parse_idem t u o E). cbn [bind fst].
  destruct (dt_check u) as [u'|c|]; cbn [bind]; try reflexivity.
  destruct (set_duration d) as [k|c|]; reflexivity.
Qed.
Print Assumptions bridge_init.
(* data=None (or {}) stands for the empty dict, data=x for x *)
Lemma bridge_init_data : forall ed x, or_empty_dict ed (Some x) = x /\ or_empty_dict ed None = ed.
Proof. split; reflexivity. Qed.
Print Assumptions bridge_init_data.

(* ---- to_json_dict / to_json_str ---- *)
(* both steps can only fail with OverflowError (OtherError), so the lemma does not depend on the order of the
   two independent statements of to_json_dict *)
Definition ok_or_other {A} (r : res A) : Prop :=
  match r with Ok _ => True | Err c => c = OtherError | OutOfFuel => False end.
Lemma dt_check_shape : forall u, ok_or_other (dt_check u).
Proof. intros u. unfold dt_check. destruct ((min_us <=? u) && (u <=? max_us)); exact I || reflexivity. Qed.
Lemma total_seconds_shape : forall k, ok_or_other (total_seconds_of_us k).
Proof.
  intros k. unfold total_seconds_of_us, fdiv_int_int, us_per_s. cbn [Z.eqb].
  destruct ((Z.abs k <=? two53) && (Z.abs 1000000 <=? two53)); [exact I|].
  cbv zeta. destruct (is_infinity _); exact I || reflexivity.
Qed.
Lemma bridge_to_json_dict : forall e, gen_to_json_dict e = to_json e.
Proof.
  intros e. unfold gen_to_json_dict, to_json. cbn [dt_astimezone_utc].
  pose proof (dt_check_shape (ts e)) as A. pose proof (total_seconds_shape (dur e)) as B.
  destruct (dt_check (ts e)) as [u|c|]; destruct (total_seconds_of_us (dur e)) as [f|c'|];
    cbn [ok_or_other] in A, B; try contradiction; subst; reflexivity.
Qed.
Print Assumptions bridge_to_json_dict.
Lemma bridge_to_json_str : forall e, gen_to_json_str e = to_json e.
Proof.
  intros e. unfold gen_to_json_str. rewrite bridge_to_json_dict.
  destruct (to_json e) as [j|c|]; reflexivity.
Qed.
Print Assumptions bridge_to_json_str.

(* ---- __eq__ (timestamp, duration, data; not id) and __lt__ (timestamps) ---- *)
Lemma bridge_event_eq : forall a b,
  gen_event_eq a b = Ok ((ts a =? ts b) && (dur a =? dur b) && (data a =? data b)).
Proof. reflexivity. Qed.
Print Assumptions bridge_event_eq.
Lemma bridge_event_eq_ignores_id : forall a b i j, gen_event_eq (set_eid a i) (set_eid b j) = gen_event_eq a b.
Proof. reflexivity. Qed.
Print Assumptions bridge_event_eq_ignores_id.
Lemma bridge_event_lt : forall a b, gen_event_lt a b = Ok (ts a <? ts b).
Proof. reflexivity. Qed.
Print Assumptions bridge_event_lt.
Lemma bridge_event_cmp_else : gen_event_eq_else_raises = TypeError /\ gen_event_lt_else_raises = TypeError.
Proof. split; reflexivity. Qed.
Print Assumptions bridge_event_cmp_else.
