(* Tie B for C09: the definitions regenerated on every run from the installed
   timeslot/timeslot.py and from /repo's aw_transform/filter_period_intersect.py
   (translate/k_timeslot.py -> Gen/GenTimeslot.v) are extensionally the hand-written models
   the theorems of Props/C09.v are about.  The loop bodies of _intersecting_eventpairs and
   period_union are tied as step functions; the loop skeletons, the sorts, the seeding of
   merged_events and the final data-clearing pass are matched syntactically by the
   translator (exact statement text) and tied by correspondence (tie A). *)
From AwVerif Require Import Base.Prelude Model.Timeslot Model.Intersect Gen.GenTimeslot.
From Coq Require Import ZifyBool.

(* close a goal gen = model: syntactically equal after unfolding, or equal after deciding
   every comparison (a harmless reordering still bridges; <= turned into <, swapped
   operands, max turned into min, a dropped branch do not) *)
Ltac split_atoms :=
  repeat match goal with
  | |- context [?a <=? ?b] => let E := fresh "E" in destruct (a <=? b) eqn:E
  | |- context [?a <? ?b] => let E := fresh "E" in destruct (a <? b) eqn:E
  | |- context [?a =? ?b] => let E := fresh "E" in destruct (a =? b) eqn:E
  end.
Ltac bridge_close :=
  first [ reflexivity
        | split_atoms; cbn [andb orb negb];
          first [reflexivity | exfalso; lia | repeat f_equal; lia] ].

Lemma bridge_slot_duration : forall p, gen_slot_duration p = slot_duration p.
Proof. intros p. cbv [gen_slot_duration slot_duration]. first [reflexivity | lia]. Qed.

Lemma bridge_slot_contains : forall p q, gen_slot_contains p q = slot_contains p q.
Proof. intros p q. cbv [gen_slot_contains slot_contains]. bridge_close. Qed.

Lemma bridge_slot_overlaps : forall p q, gen_slot_overlaps p q = slot_overlaps p q.
Proof.
  intros p q. cbv [gen_slot_overlaps slot_overlaps gen_slot_contains slot_contains]. bridge_close.
Qed.

Lemma bridge_slot_adjacent : forall p q, gen_slot_adjacent p q = slot_adjacent p q.
Proof. intros p q. cbv [gen_slot_adjacent slot_adjacent]. bridge_close. Qed.

Lemma bridge_slot_intersection : forall p q, gen_slot_intersection p q = slot_intersection p q.
Proof.
  intros p q. cbv [gen_slot_intersection slot_intersection gen_slot_contains slot_contains].
  bridge_close.
Qed.

Lemma bridge_slot_gap : forall p q, gen_slot_gap p q = slot_gap p q.
Proof. intros p q. cbv [gen_slot_gap slot_gap]. bridge_close. Qed.

Lemma bridge_slot_union : forall p q, gen_slot_union p q = slot_union p q.
Proof.
  intros p q. cbv [gen_slot_union slot_union]. rewrite bridge_slot_gap.
  destruct (slot_gap p q); first [reflexivity | f_equal; f_equal; lia].
Qed.

Lemma bridge_get_event_period : forall e, gen_get_event_period e = get_event_period e.
Proof. intros e. cbv [gen_get_event_period get_event_period]. first [reflexivity | f_equal; lia]. Qed.

Lemma bridge_replace_event_period : forall e p,
  gen_replace_event_period e p = replace_event_period e p.
Proof.
  intros e p. cbv [gen_replace_event_period replace_event_period set_dur set_ts].
  rewrite bridge_slot_duration. cbn [eid ts dur data]. first [reflexivity | f_equal; lia].
Qed.

(* one iteration of the while loop of _intersecting_eventpairs: what is yielded and which
   index advances are exactly what the regenerated body says *)
Lemma bridge_sweep_body : forall f e1 r1 e2 r2,
  sweep (S f) (e1 :: r1) (e2 :: r2) =
  match gen_sweep_step e1 e2 with
  | (y, (a1, a2)) =>
      let rest := sweep f (if a1 then r1 else e1 :: r1) (if a2 then r2 else e2 :: r2) in
      match y with
      | Some ip => bind rest (fun r => Ok ((e1, e2, ip) :: r))
      | None => rest
      end
  end.
Proof.
  intros f e1 r1 e2 r2. cbv [gen_sweep_step]. cbv zeta.
  rewrite bridge_slot_intersection. rewrite ?(bridge_get_event_period e1), ?(bridge_get_event_period e2). cbn [sweep].
  destruct (slot_intersection (get_event_period e1) (get_event_period e2)) as [ip|].
  - destruct (tend (get_event_period e1) <=? tend (get_event_period e2)); reflexivity.
  - destruct (tend (get_event_period e1) <=? tstart (get_event_period e2)); [reflexivity|].
    destruct (tend (get_event_period e2) <=? tstart (get_event_period e1)); reflexivity.
Qed.

(* one iteration of the for loop of period_union: the new top of merged_events *)
Lemma bridge_union_body : forall last_event older e rest,
  union_loop (last_event :: older) (e :: rest) =
  bind (gen_union_step last_event e) (fun top => union_loop (top ++ older) rest).
Proof.
  intros last_event older e rest. cbv [gen_union_step]. cbv zeta.
  rewrite bridge_slot_gap, bridge_slot_union. rewrite ?(bridge_get_event_period e), ?(bridge_get_event_period last_event). cbn [union_loop].
  destruct (slot_gap (get_event_period e) (get_event_period last_event)) as [g|] eqn:Eg.
  - reflexivity.
  - destruct (slot_union (get_event_period e) (get_event_period last_event)) as [np| |]; cbn [bind app];
      [rewrite (bridge_replace_event_period last_event np)|..]; reflexivity.
Qed.

Print Assumptions bridge_slot_intersection.
Print Assumptions bridge_slot_gap.
Print Assumptions bridge_slot_union.
Print Assumptions bridge_sweep_body.
Print Assumptions bridge_union_body.
