(* Tie B for C14: the definitions regenerated from /repo's current migration.py, sqlite.py and
   peewee.py (translate/k_migration.py -> Gen/GenMigration.v) are the hand-written model the
   theorems of Props/C14.v are about. *)
From AwVerif Require Import Base.Prelude Model.StoreBase Model.SqliteStore Model.PeeweeStore
  Model.Migration Model.MigrationCommit Gen.GenMigration.

(* the copy loop: statement order, the positional binding of create_bucket's seven parameters
   to the fields of the legacy bucket dict, get_events' limit, id stripping, bulk insert *)
Lemma bridge_loop_script : gen_loop_script = LOOP_SCRIPT.
Proof. reflexivity. Qed.
Print Assumptions bridge_loop_script.

(* detect_db_files: separator, component indices, "v" prefix, truthiness guards *)
Lemma bridge_detect_db_files : forall listing n v,
  gen_detect_db_files listing n v = detect_db_files listing n v.
Proof. intros. reflexivity. Qed.
Print Assumptions bridge_detect_db_files.

(* check_for_migration: sid literal, legacy name, "-testing" iff testing, version 2, len > 0 *)
Lemma bridge_check_for_migration : forall sid testing listing,
  gen_check_for_migration sid testing listing = check_for_migration sid testing listing.
Proof. intros sid [] listing; reflexivity. Qed.
Print Assumptions bridge_check_for_migration.

(* default file names of the two stores *)
Lemma bridge_sq_filename : forall testing, gen_sq_filename testing = sq_filename testing.
Proof. intros []; reflexivity. Qed.
Print Assumptions bridge_sq_filename.

Lemma bridge_pw_filename : forall testing, gen_pw_filename testing = pw_filename testing.
Proof. intros []; reflexivity. Qed.
Print Assumptions bridge_pw_filename.

(* the guard of SqliteStorage.__init__ *)
Lemma bridge_sq_init_migrates : forall testing p listing,
  gen_sq_init_migrates testing p listing = sq_init_migrates testing p listing.
Proof. intros [] p listing; reflexivity. Qed.
Print Assumptions bridge_sq_init_migrates.

(* self.commit() right after check_for_migration(self) *)
Lemma bridge_init_commits : gen_init_commits_after_migration = INIT_COMMITS_AFTER_MIGRATION.
Proof. reflexivity. Qed.
Print Assumptions bridge_init_commits.
