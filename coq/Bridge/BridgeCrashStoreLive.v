(* Tie B for the CONTENTS of the statements of the state-level model (Model/CrashStore.v):
   the effect of every call's statement script on the connection's own view, and the value
   the call returns, are those of the methods of SqliteStorage as re-translated from
   /repo's source on every run (translate/k_sqlstore.py -> Gen/GenSqliteStore.v, bridged to
   [sq_step] by Bridge/BridgeSqliteStore.v).  With Bridge/BridgeCrashStore.v (shape and
   commit positions of the scripts) both halves of the composed model are tied to the
   source.  A changed SQL text is refused by the translator and this file stops compiling. *)
From AwVerif Require Import Base.Prelude Model.Commit.
From AwVerif Require Import Model.StoreBase Model.SqliteStore Gen.GenSqliteStore Bridge.BridgeSqliteStore.
From AwVerif Require Import Model.CrashStore Proofs.CrashStoreProofs Proofs.CrashStoreState.

Lemma bridge_crash_live : forall c o,
  cop_live c (Std o) = fst (gen_sq_step c o) /\ cop_out c (Std o) = snd (gen_sq_step c o).
Proof. intros. rewrite bridge_sq_step. split; [apply cop_live_std|reflexivity]. Qed.
Print Assumptions bridge_crash_live.

Lemma bridge_crash_live_history : forall lazy d0 t0 h tr,
  map fst tr = hist_script d0 (map Std h) ->
  live (cr_run lazy (cr_init d0 t0) tr) = fold_left (fun c o => fst (gen_sq_step c o)) h d0.
Proof. intros. rewrite bridge_sq_run. apply live_view_history. assumption. Qed.
Print Assumptions bridge_crash_live_history.
