(* Tie B for the INTERPRETER side of the query language (C17, C11): the definitions that translate/k_query_interp.py
   re-translates on every run from /repo/aw_query/query2.py (the six interpret methods as gen_interp, interpret(),
   query() with its statement loop) and from the registration sites of /repo/aw_query/functions.py
   (gen_call_registered: the decorator stack around every built-in) equal Model/Query.v's interp, interpret_stmt,
   run_stmts, run and call_builtin - pointwise in the world of the built-in bodies. *)
From Coq Require Import ZifyBool Lia List.
From AwVerif Require Import Base.Prelude Model.PyStr Model.Query Proofs.QueryTotal Gen.GenQuery Bridge.BridgeQuery.
Import ListNotations.
Open Scope Z_scope.

Section BridgeInterp.
  Variable md : nat.
  Variable table : list builtin.
  Variable W : Type.
  Variable buckets : W -> str -> bool.
  Variable body : str -> list arg -> W -> (value + errclass) * W.

  (* computations are compared pointwise in the world (no functional extensionality) *)
  Definition eqM {X} (a b : M W X) : Prop := forall w, a w = b w.

  Lemma eqM_bind {X Y} (a b : M W X) (ka kb : X -> M W Y) :
    eqM a b -> (forall x, eqM (ka x) (kb x)) -> eqM (bindM W a ka) (bindM W b kb).
  Proof.
    intros H K w. unfold bindM. rewrite H. destruct (b w) as [[x|c|] w']; [apply K|reflexivity|reflexivity].
  Qed.

  Lemma bindM_lift_ok {X Y} (x : X) (k : X -> M W Y) w : bindM W (lift W (Ok x)) k w = k x w.
  Proof. reflexivity. Qed.

  Lemma bindM_ret_r {X} (m : M W X) w : bindM W m (fun x => ret W x) w = m w.
  Proof. unfold bindM, ret. destruct (m w) as [[x|c|] w']; reflexivity. Qed.

  (* ------------------------------------------------------------ functions[name]( *call_args ) *)

  Lemma typecheck_not_typeerror sig args : typecheck sig args <> Err TypeError.
  Proof. destruct (typecheck_outcome sig args) as [E|E]; rewrite E; discriminate. Qed.

  (* the decorator stack read off the registration sites (q2_function's wrapper, then q2_typecheck's, then the
     positional call of the function itself), under QFunction.interpret's `except TypeError`, is call_builtin *)
  Lemma bridge_call_registered : forall b vals w,
    match gen_call_registered W buckets body b (ADatastore :: ANamespace :: map AVal vals) w with
    | (Err TypeError, w') => (Err InterpretError, w')
    | r => r
    end = call_builtin W buckets body b vals w.
  Proof.
    intros b vals w. unfold gen_call_registered, call_builtin.
    rewrite bridge_q2_function_g, bindM_lift_ok, bridge_typecheck.
    set (args := (if existsb is_pdatastore (b_sig b) then [ADatastore] else []) ++ _).
    unfold bindM at 1 2, lift.
    destruct (typecheck_outcome (b_sig b) args) as [E|E]; rewrite E; [|reflexivity].
    unfold call_positional. destruct (arity_ok (b_sig b) (length args)); cbn [negb]; [|reflexivity].
    destruct (run_body W buckets body b args w) as [[v|[]|] w']; reflexivity.
  Qed.

  (* ------------------------------------------------------------ the three loops over sub-tokens *)

  Notation tokfun := (qtoken -> namespace -> M W (value * namespace)).

  (* `for value in self.value: expanded_list.append(value.interpret(..))` (accumulating) is interp_seq (consing) *)
  Lemma bridge_QList_loop (f g : tokfun) : forall l,
    Forall (fun a => forall ns, eqM (f a ns) (g a ns)) l ->
    forall acc ns,
      eqM (gen_QList_interpret_loop1 W f acc ns l)
          (bindM W (interp_seq W g l ns) (fun '(vs, ns') => ret W (acc ++ vs, ns'))).
  Proof.
    induction 1 as [|a l Ha _ IH]; intros acc ns w.
    - cbn [interp_seq]. unfold bindM, ret. rewrite app_nil_r. reflexivity.
    - cbn [gen_QList_interpret_loop1 interp_seq]. unfold bindM at 1 2 3. rewrite Ha.
      destruct (g a ns w) as [[[v ns1]|c|] w1]; [|reflexivity|reflexivity].
      rewrite IH. unfold bindM, ret. destruct (interp_seq W g l ns1 w1) as [[[vs ns2]|c|] w2]; [|reflexivity|reflexivity].
      rewrite <- app_assoc. reflexivity.
  Qed.

  (* `for arg in self.args: call_args.append(arg.interpret(..))`: the same, every value becoming an argument *)
  Lemma bridge_QFunction_loop (f g : tokfun) : forall l,
    Forall (fun a => forall ns, eqM (f a ns) (g a ns)) l ->
    forall acc ns,
      eqM (gen_QFunction_interpret_loop1 W f acc ns l)
          (bindM W (interp_seq W g l ns) (fun '(vs, ns') => ret W (acc ++ map AVal vs, ns'))).
  Proof.
    induction 1 as [|a l Ha _ IH]; intros acc ns w.
    - cbn [interp_seq]. unfold bindM, ret. cbn [map]. rewrite app_nil_r. reflexivity.
    - cbn [gen_QFunction_interpret_loop1 interp_seq]. unfold bindM at 1 2 3. rewrite Ha.
      destruct (g a ns w) as [[[v ns1]|c|] w1]; [|reflexivity|reflexivity].
      rewrite IH. unfold bindM, ret. destruct (interp_seq W g l ns1 w1) as [[[vs ns2]|c|] w2]; [|reflexivity|reflexivity].
      cbn [map]. rewrite <- app_assoc. reflexivity.
  Qed.

  (* `for key, value in self.value.items(): expanded_dict[key] = value.interpret(..)` is interp_entries *)
  Lemma bridge_QDict_loop (f g : tokfun) : forall d,
    Forall (fun kv => forall ns, eqM (f (snd kv) ns) (g (snd kv) ns)) d ->
    forall acc ns, eqM (gen_QDict_interpret_loop1 W f acc ns d) (interp_entries W g d acc ns).
  Proof.
    induction 1 as [|[k a] d Ha _ IH]; intros acc ns w; [reflexivity|].
    cbn [gen_QDict_interpret_loop1 interp_entries snd] in *. unfold bindM. rewrite Ha.
    destruct (g a ns w) as [[[v ns1]|c|] w1]; [apply IH|reflexivity|reflexivity].
  Qed.

  (* ------------------------------------------------------------ t.interpret(datastore, namespace) *)

  Theorem bridge_interp : forall t ns,
    eqM (gen_interp table W buckets body t ns) (interp table W buckets body t ns).
  Proof.
    induction t as [z|n c|s|n args IH|d IH|l IH] using qtoken_ind2; intros ns w; cbn [gen_interp interp].
    - reflexivity.
    - destruct (dict_mem ns n); reflexivity.
    - reflexivity.
    - unfold registry_mem, registry_lookup. destruct (find_builtin table n) as [b|]; cbn [negb]; [|reflexivity].
      unfold bindM at 1. rewrite (bridge_QFunction_loop _ _ args IH). unfold bindM at 1 5.
      destruct (interp_seq W (interp table W buckets body) args ns w) as [[[vs ns1]|c|] w1]; [|reflexivity|reflexivity].
      unfold ret at 1. cbn [app]. unfold bindM at 1. rewrite bindM_lift_ok, bindM_ret_r.
      pose proof (bridge_call_registered b vs w1) as H. unfold bindM at 1. rewrite <- H.
      destruct (gen_call_registered W buckets body b (ADatastore :: ANamespace :: map AVal vs) w1) as [[r|[]|] w2];
        reflexivity.
    - unfold bindM. rewrite (bridge_QDict_loop _ _ d IH). reflexivity.
    - unfold bindM at 1. rewrite (bridge_QList_loop _ _ l IH). unfold bindM, ret.
      destruct (interp_seq W (interp table W buckets body) l ns w) as [[[vs ns1]|c|] w1]; reflexivity.
  Qed.

  (* ------------------------------------------------------------ interpret(var, val, namespace, datastore) *)

  (* `var.name` exists on QVariable and on QFunction tokens (both __init__s store a name); the model's var_name knows
     QVariable only.  parse() hands interpret() a QVariable (QueryTotal.parse_stmt_var), for which they agree. *)
  Lemma bridge_attr_name_var : forall n c, gen_attr_name (QVariable n c) = var_name (QVariable n c).
  Proof. reflexivity. Qed.

  Lemma bridge_attr_name : forall t, (forall n a, t <> QFunction n a) -> gen_attr_name t = var_name t.
  Proof. intros [] H; try reflexivity. exfalso. eapply H. reflexivity. Qed.

  Lemma bridge_interpret_stmt : forall var val ns, (forall n a, var <> QFunction n a) ->
    eqM (gen_interpret table W buckets body var val ns) (interpret_stmt table W buckets body var val ns).
  Proof.
    intros var val ns Hv w. unfold gen_interpret, interpret_stmt. unfold bindM at 1 3. rewrite bridge_interp.
    destruct (interp table W buckets body val ns w) as [[[v ns1]|c|] w1]; [|reflexivity|reflexivity].
    rewrite (bridge_attr_name var Hv). reflexivity.
  Qed.

  (* ------------------------------------------------------------ query(): the statement loop and the whole run *)

  Lemma is_empty_false_neq (s : str) : is_empty s = false -> s <> [].
  Proof. destruct s; [discriminate|]. intros _ H. discriminate H. Qed.

  (* exact: every statement the loop parses is stripped and non-empty, where the generated statement parser IS the
     model's (BridgeQuery.bridge_parse_stmt_exact) - no OutOfFuel caveat is left at this level *)
  Theorem bridge_query_loop : forall stmts ns,
    eqM (gen_query_loop1 md table W buckets body ns stmts) (run_stmts table W buckets body md stmts ns).
  Proof.
    induction stmts as [|s rest IH]; intros ns w; [reflexivity|].
    cbn [gen_query_loop1 run_stmts]. cbv zeta.
    destruct (is_empty (strip s)) eqn:E; cbn [negb]; [apply IH|].
    rewrite (bridge_parse_stmt_exact md ns s (is_empty_false_neq _ E)).
    unfold bindM at 1 3, lift.
    destruct (parse_stmt md ns (strip s)) as [[var val]|c|] eqn:P; [|reflexivity|reflexivity].
    destruct (parse_stmt_var md ns _ _ _ P) as (n & c & ->).
    unfold bindM. rewrite bridge_interpret_stmt by (intros; discriminate).
    destruct (interpret_stmt table W buckets body (QVariable n c) val ns w) as [[ns1|c1|] w1];
      [apply IH|reflexivity|reflexivity].
  Qed.

  (* query(name, query, starttime, endtime, datastore), starttime / endtime as their isoformat() texts *)
  Theorem bridge_query : forall name q starttime endtime,
    eqM (gen_query md table W buckets body name q starttime endtime)
        (run table W buckets body md name starttime endtime q).
  Proof.
    intros name q st et w. unfold gen_query, run. rewrite bridge_create_namespace, bindM_lift_ok. cbv zeta.
    change (dict_set (dict_set (dict_set create_namespace [78; 65; 77; 69] (VStr name))
                               [83; 84; 65; 82; 84; 84; 73; 77; 69] (VStr st)) [69; 78; 68; 84; 73; 77; 69] (VStr et))
      with (initial_namespace name st et).
    change 59 with c_semi.
    unfold bindM at 1 3. rewrite bridge_query_loop.
    destruct (run_stmts table W buckets body md (split c_semi q) (initial_namespace name st et) w) as [[ns1|c|] w1];
      [|reflexivity|reflexivity].
    rewrite bindM_ret_r, bridge_get_return. reflexivity.
  Qed.

  (* the same as plain equalities of outcome and final world *)
  Corollary bridge_query_outcome : forall name q starttime endtime w,
    gen_query md table W buckets body name q starttime endtime w =
    run table W buckets body md name starttime endtime q w.
  Proof. intros. apply bridge_query. Qed.
End BridgeInterp.

(* C17's totality theorem (Props/C17.C17_total, stated about the model) transferred to query() as re-translated from
   the source on this run: a value, a parse / interpret / function error, or an error class that a built-in body call
   itself returned - never out of fuel, never any other class *)
Theorem gen_query_total :
  forall table W buckets (body : str -> list arg -> W -> (value + errclass) * W)
         max_digits name starttime endtime text w,
  match fst (gen_query max_digits table W buckets body name text starttime endtime w) with
  | Ok _ => True
  | Err ParseError | Err InterpretError | Err FunctionError => True
  | Err c => exists n args w', fst (body n args w') = inr c
  | OutOfFuel => False
  end.
Proof. intros. rewrite bridge_query_outcome. apply run_total. Qed.

(* ---------------------------------------------------------------- the generated interpreter computes (non-vacuity) *)

From Coq Require Import String.
Local Open Scope string_scope.

Definition ex_table : list builtin :=
  [mkBuiltin (zs "nop") [] BodyNop;
   mkBuiltin (zs "echo") [PVarargs] BodyEcho;
   mkBuiltin (zs "limit_events") [PTyped PList; PTyped PInt] BodyAbstract].
Definition ex_body (n : str) (a : list arg) (w : nat) : (value + errclass) * nat := (inl (VOpaque 7), S w).
Definition ex_query (q : string) : res value * nat :=
  gen_query 4300 ex_table nat (fun _ _ => true) ex_body (zs "n") (zs q) (zs "s") (zs "e") 0%nat.

Example gen_query_computes :
  ex_query "x = 2; y = [x, {'k': nop(), 'k': 'v'}]; RETURN = echo(y, NAME, limit_events([], x));"
  = (Ok (VList [VList [VInt 2; VDict [(zs "k", VStr (zs "v"))]]; VStr (zs "n"); VOpaque 7]), 1%nat).
Proof. vm_compute. reflexivity. Qed.

Example gen_query_error_classes :
  ex_query "RETURN = nop(1);" = (Err InterpretError, 0%nat)            (* wrong count: TypeError translated *)
  /\ ex_query "RETURN = limit_events(1, 2);" = (Err FunctionError, 0%nat)   (* type check *)
  /\ ex_query "RETURN = nope();" = (Err InterpretError, 0%nat)
  /\ ex_query "RETURN = zz;" = (Err InterpretError, 0%nat)
  /\ ex_query "x = 1" = (Err ParseError, 0%nat).                         (* no RETURN *)
Proof. repeat split; vm_compute; reflexivity. Qed.
