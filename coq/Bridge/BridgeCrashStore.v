(* Tie B reaches the state-level model (Model/CrashStore.v) through the refinement of
   Proofs/CrashStoreProofs.v: the script of every call of Model/CrashStore.v, with the
   contents of its statements forgotten, is the script regenerated from sqlite.py's current
   source by translate/k_commit.py, and its conditional_commit / commit keep the refinement
   relation with the regenerated ones.  (What each statement does to the tables is
   Model/SqliteStore.v's [sql_*] functions; Props/C06State.v [C06_live_view_is_store_model]
   ties a call's effect on the live view to [sq_step].) *)
From AwVerif Require Import Base.Prelude Model.Commit Gen.GenCommit Bridge.BridgeCommit.
From AwVerif Require Import Model.StoreBase Model.SqliteStore Model.CrashStore Proofs.CrashStoreProofs.

Lemma bridge_crash_script : forall tokf c o,
  map (forget_micro tokf) (sscript c o) = gen_expand (forget_op tokf c o).
Proof. intros. rewrite bridge_expand. apply forget_script. Qed.
Print Assumptions bridge_crash_script.

Lemma bridge_crash_cond_commit : forall tokf d0 iss ss cs lazy k c,
  Rel tokf d0 iss ss cs ->
  Rel tokf d0 iss (cr_cond_commit lazy k c ss) (gen_cond_commit lazy k c cs).
Proof. intros. rewrite bridge_cond_commit. apply rel_cond_commit. assumption. Qed.
Print Assumptions bridge_crash_cond_commit.

Lemma bridge_crash_commit : forall tokf d0 iss ss cs now,
  Rel tokf d0 iss ss cs -> Rel tokf d0 iss (cr_commit now ss) (gen_commit now cs).
Proof. intros. rewrite bridge_commit. apply rel_commit. assumption. Qed.
Print Assumptions bridge_crash_commit.
