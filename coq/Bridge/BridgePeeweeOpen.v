(* Tie B for C14's clause "the legacy file itself is left untouched": what
   PeeweeStorage.__init__ does to the file it opens, regenerated from /repo's current
   aw_datastore/storages/peewee.py (translate/k_migration.py, kernels peewee_open_* ->
   Gen/GenPeeweeOpen.v), is the I/O script the theorems C14_open_* of Props/C14.v are about
   (Model/PeeweeOpen.v). *)
From AwVerif Require Import Base.Prelude Model.StoreBase Model.SqliteStore Model.PeeweeStore
  Model.Migration Model.PeeweeOpen Gen.GenPeeweeOpen.

(* the statement sequence of __init__ after the file-name head: the handle is initialised
   with `filepath`, connected, both tables created with safe=True, closed, auto_migrate(filepath),
   connected, bucket_keys refreshed - in this order, none under a condition *)
Lemma bridge_open_init_script : gen_init_script = INIT_SCRIPT.
Proof. reflexivity. Qed.
Print Assumptions bridge_open_init_script.

(* `_db = SqliteExtDatabase(None)`: no pragma (and no other argument; both models are bound
   to this handle through BaseModel.Meta - checked by the translator) *)
Lemma bridge_open_db_pragmas : gen_db_pragmas = DB_PRAGMAS.
Proof. reflexivity. Qed.
Print Assumptions bridge_open_db_pragmas.

(* auto_migrate: a handle of its own on `path` without pragmas, the datastr column test on
   bucketmodel, `if not has_datastr: add_column(bucketmodel, datastr)`, close; nothing else *)
Lemma bridge_open_am_script : gen_am_script = AM_SCRIPT.
Proof. reflexivity. Qed.
Print Assumptions bridge_open_am_script.

(* the field declarations of BucketModel / EventModel: table, columns, indexes *)
Lemma bridge_open_tables : forall t,
  gen_table_name t = table_name t /\ gen_table_columns t = table_columns t /\
  gen_table_indexes t = table_indexes t.
Proof. intros []; repeat split; reflexivity. Qed.
Print Assumptions bridge_open_tables.

(* hence the constructor read off the source is the one of the theorems *)
Lemma bridge_open_io : forall fs h f,
  run_osteps gen_db_pragmas gen_am_script f gen_init_script (mkW fs h []) = pw_open_io fs h f.
Proof.
  intros. rewrite bridge_open_init_script, bridge_open_db_pragmas, bridge_open_am_script. reflexivity.
Qed.
Print Assumptions bridge_open_io.
