(* Tie B for heartbeats.py: the definition regenerated from /repo's current source is
   extensionally the hand-written model the theorems of C08/C07 are about. *)
From AwVerif Require Import Base.Prelude Model.Heartbeat Gen.GenHeartbeat.
From Coq Require Import ZifyBool.

Ltac split_ifs :=
  repeat match goal with
  | |- context [if ?b then _ else _] => let E := fresh "E" in destruct b eqn:E
  end.

Lemma bridge_heartbeat_merge : forall l h p,
  gen_heartbeat_merge l h p = heartbeat_merge l h p.
Proof.
  intros l h p. cbv [gen_heartbeat_merge heartbeat_merge set_dur].
  split_ifs; try reflexivity; try (exfalso; lia); f_equal; f_equal; lia.
Qed.
Print Assumptions bridge_heartbeat_merge.

(* heartbeat_reduce: the regenerated loop keeps `reduced` in order and mutates its last element; the model keeps
   it reversed.  The loop never reads reduced[-1] of an empty list (no IndexError), for every input. *)
Lemma py_last_rev_cons (x : event) l : py_last (rev (x :: l)) = Some x.
Proof. unfold py_last. rewrite rev_involutive. reflexivity. Qed.

Lemma py_set_last_rev_cons (x y : event) l : py_set_last (rev (x :: l)) y = rev (y :: l).
Proof. unfold py_set_last. cbn [rev]. rewrite removelast_last. reflexivity. Qed.

Lemma bridge_reduce_loop : forall p evs last older,
  gen_reduce_loop p (rev (last :: older)) evs = Ok (reduce_loop p (last :: older) evs).
Proof.
  intros p evs. induction evs as [|hb rest IH]; intros last older.
  - reflexivity.
  - cbn [gen_reduce_loop reduce_loop]. rewrite py_last_rev_cons, bridge_heartbeat_merge.
    destruct (heartbeat_merge last hb p) as [merged|].
    + rewrite py_set_last_rev_cons. apply IH.
    + change (rev (last :: older) ++ [hb]) with (rev (hb :: last :: older)). apply IH.
Qed.

Lemma bridge_heartbeat_reduce : forall events p,
  gen_heartbeat_reduce events p = Ok (heartbeat_reduce events p).
Proof.
  intros [|first rest] p; [reflexivity|].
  cbn [gen_heartbeat_reduce heartbeat_reduce app]. apply (bridge_reduce_loop p rest first []).
Qed.
Print Assumptions bridge_heartbeat_reduce.
