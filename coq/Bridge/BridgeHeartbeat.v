(* Tie B for heartbeats.py: the definition regenerated from /repo's current source is
   extensionally the hand-written model the theorems of C08/C07 are about. *)
From AwVerif Require Import Base.Prelude Model.Heartbeat Gen.GenHeartbeat.
From Coq Require Import ZifyBool.

Ltac split_ifs :=
  repeat match goal with
  | |- context [if ?b then _ else _] => let E := fresh "E" in destruct b eqn:E
  end.

Lemma bridge_heartbeat_merge : forall l h p,
  gen_heartbeat_merge l h p = heartbeat_merge l h p.
Proof.
  intros l h p. cbv [gen_heartbeat_merge heartbeat_merge set_dur].
  split_ifs; try reflexivity; try (exfalso; lia); f_equal; f_equal; lia.
Qed.
Print Assumptions bridge_heartbeat_merge.
