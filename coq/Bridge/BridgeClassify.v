(* Tie B for aw_transform/classify.py: the definitions regenerated from /repo's current
   source (Gen/GenClassify.v, by translate/k_classify.py) are extensionally the hand-written
   model the theorems of C19 are about. *)
From AwVerif Require Import Base.Prelude Model.ClassifyBase Model.Classify Gen.GenClassify.
From Coq Require Import ZifyBool.

Ltac split_ifs :=
  repeat match goal with
  | |- context [if ?b then _ else _] => let E := fresh "E" in destruct b eqn:E
  end.

Lemma existsb_pointwise : forall {A} (f g : A -> bool) l,
  (forall x, f x = g x) -> existsb f l = existsb g l.
Proof.
  intros A f g l H. induction l as [|x t IH]; cbn [existsb]; [reflexivity|].
  rewrite H, IH. reflexivity.
Qed.

Lemma if_true_false : forall b : bool, (if b then true else false) = b.
Proof. destruct b; reflexivity. Qed.

Lemma bridge_rule_init : forall spec, gen_rule_init spec = rule_init spec.
Proof.
  intros spec. cbv [gen_rule_init rule_init optstr_truthy py_re_compile].
  destruct (s_regex spec) as [p|]; [|reflexivity].
  destruct (str_truthy p); reflexivity.
Qed.
Print Assumptions bridge_rule_init.

Lemma bridge_rule_match : forall re r e,
  gen_rule_match re r e = rule_match re r (c_data e).
Proof.
  intros re r e. cbv [gen_rule_match rule_match rule_values regex_truthy].
  destruct (r_regex r) as [[p ic]|]; [|reflexivity].
  rewrite if_true_false. apply existsb_pointwise.
  intros [[s| |]|]; reflexivity.
Qed.
Print Assumptions bridge_rule_match.

Lemma bridge_pick_deepest_cat : forall t1 t2,
  gen_pick_deepest_cat t1 t2 = pick_deepest_cat t1 t2.
Proof.
  intros t1 t2. cbv [gen_pick_deepest_cat pick_deepest_cat].
  split_ifs; first [reflexivity | exfalso; lia].
Qed.
Print Assumptions bridge_pick_deepest_cat.

Lemma fold_left_pointwise : forall {A B} (f g : A -> B -> A) l a,
  (forall x y, f x y = g x y) -> fold_left f l a = fold_left g l a.
Proof.
  intros A B f g l. induction l as [|y t IH]; intros a H; cbn [fold_left]; [reflexivity|].
  rewrite H. apply IH. exact H.
Qed.

Lemma bridge_pick_category : forall cats, gen_pick_category cats = pick_category cats.
Proof.
  intros cats. cbv [gen_pick_category pick_category uncategorized].
  apply fold_left_pointwise. exact bridge_pick_deepest_cat.
Qed.
Print Assumptions bridge_pick_category.

Lemma filter_pointwise : forall {A} (f g : A -> bool) l,
  (forall x, f x = g x) -> filter f l = filter g l.
Proof.
  intros A f g l H. induction l as [|x t IH]; cbn [filter]; [reflexivity|].
  rewrite H, IH. reflexivity.
Qed.

Lemma bridge_categorize_one : forall re e classes,
  gen_categorize_one re e classes = categorize_one re classes e.
Proof.
  intros re e classes. cbv [gen_categorize_one categorize_one matching].
  rewrite bridge_pick_category.
  rewrite (filter_pointwise _ (fun cr => rule_match re (snd cr) (c_data e)));
    [reflexivity|]. intros cr. apply bridge_rule_match.
Qed.
Print Assumptions bridge_categorize_one.

Lemma bridge_tag_one : forall re e classes,
  gen_tag_one re e classes = tag_one re classes e.
Proof.
  intros re e classes. cbv [gen_tag_one tag_one matching].
  rewrite (filter_pointwise _ (fun cr => rule_match re (snd cr) (c_data e)));
    [reflexivity|]. intros cr. apply bridge_rule_match.
Qed.
Print Assumptions bridge_tag_one.
