(* Tie B for union_no_overlap.py: the definitions regenerated from /repo's current source
   (_split_event and the body of the merge loop) are extensionally the hand-written model the
   theorems of C15 are about.  The loop skeleton around the body (deep copies, the two indices,
   `while e1_i < len(events1) and e2_i < len(events2)`, the two tail appends) is matched
   syntactically by translate/k_union_no_overlap.py. *)
From AwVerif Require Import Base.Prelude Model.UnionNoOverlap Gen.GenUnionNoOverlap.
From Coq Require Import ZifyBool.

Lemma bridge_split_event : forall e dt, gen_split_event e dt = split_event e dt.
Proof.
  intros e dt. cbv [gen_split_event split_event gen_assign_timestamp floor_ms].
  destruct ((ts e <? dt) && (dt <? ts e + dur e)); reflexivity.
Qed.
Print Assumptions bridge_split_event.

(* a path result of the generated body (appended events, e1_i advanced?, e2_i advanced?, the
   current events2[e2_i]) as a loop state *)
Definition step_of_gen (e1 : event) (r1 : list event) (r2 : list event)
    (g : res (list event * bool * bool * event)) : step_result :=
  match g with
  | Ok (emit, adv1, adv2, head2) =>
      Next emit (if adv1 then r1 else e1 :: r1) (if adv2 then r2 else head2 :: r2)
  | Err c => Raise c
  | OutOfFuel => Raise OtherError
  end.

Lemma bridge_uno_step : forall e1 r1 e2 r2,
  step_of_gen e1 r1 r2 (gen_uno_body e1 e2) = uno_step e1 r1 e2 r2.
Proof.
  intros e1 r1 e2 r2. unfold gen_uno_body, uno_step. cbv zeta.
  destruct (ts e2 + dur e2 <=? ts e1); [reflexivity|].
  destruct (ts e1 + dur e1 <=? ts e2); [reflexivity|].
  destruct (ts e2 <? ts e1).
  - rewrite (bridge_split_event e2 (ts e1)).
    destruct (split_event e2 (ts e1)) as [b [a|]];
      destruct (ts e2 + dur e2 >? ts e1 + dur e1); try reflexivity.
    rewrite (bridge_split_event a (ts e1 + dur e1)).
    destruct (split_event a (ts e1 + dur e1)) as [x [y|]]; reflexivity.
  - destruct (ts e2 + dur e2 >? ts e1 + dur e1); [|reflexivity].
    rewrite (bridge_split_event e2 (ts e1 + dur e1)).
    destruct (split_event e2 (ts e1 + dur e1)) as [x [y|]]; reflexivity.
Qed.
Print Assumptions bridge_uno_step.
