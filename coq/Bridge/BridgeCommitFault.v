(* Tie B for the commit bookkeeping under engine faults (C18, Model/CommitFault.v): the
   definitions regenerated from /repo's current source by translate/k_commitfault.py are
   extensionally the hand-written model Props/C18fault.v is about.  What these lemmas add to
   Bridge/BridgeCommit.v is the ORDER of `self.conn.commit()` and the two assignments of
   commit(): the assignments placed before the engine call run also when it raises, so a
   commit() that takes `last_commit = now` (or resets the counter) first no longer leaves the
   state [code_commit_raises] says it leaves, and [bridge_commit_f] fails on its raising branch
   (the fault-free [bridge_commit] cannot see it: flush, set_last and set_n commute).  A
   try/except, a retry loop or any other statement in commit() / conditional_commit() is
   refused by the translator. *)
From AwVerif Require Import Base.Prelude Model.Commit Model.CommitFault Gen.GenCommitFault.
From Coq Require Import ZifyBool.

Lemma bridge_commit_f : forall ok now fs, gen_commit_f ok now fs = commit_f ok now fs.
Proof. intros [|] now [[cm pd n lc] lo]; reflexivity. Qed.
Print Assumptions bridge_commit_f.

(* the raising branch on its own: nothing was assigned, the clock was not read, the exception
   leaves commit() *)
Lemma bridge_commit_raises : forall now fs,
  gen_commit_f false now fs = (mkFS (fst (code_commit_raises now (cs fs))) (last_ok fs), true) /\
  code_commit_raises now (cs fs) = (cs fs, true).
Proof. intros now [[cm pd n lc] lo]. split; reflexivity. Qed.
Print Assumptions bridge_commit_raises.

Lemma bridge_cond_commit_f : forall lazy k c e fs,
  gen_cond_commit_f lazy k c e fs = cond_commit_f lazy k c e fs.
Proof.
  intros lazy k c [e1 e2 e3] [[cm pd n lc] lo].
  unfold gen_cond_commit_f, cond_commit_f, cond_commit_f_with, gen_commit_f, commit_f_with,
    code_commit_raises, fbind, upd, THRESHOLD, MAX_AGE.
  cbn -[Z.gtb Z.add Z.sub].
  destruct lazy; cbn -[Z.gtb Z.add Z.sub];
    repeat (match goal with |- context [if ?b then _ else _] => destruct b eqn:? end;
            cbn -[Z.gtb Z.add Z.sub] in *);
    first [reflexivity | discriminate | exfalso; lia].
Qed.
Print Assumptions bridge_cond_commit_f.
