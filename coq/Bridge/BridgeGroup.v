(* Tie B for sort_by.py and filter_keyvals: the definitions regenerated from /repo's
   current source (coq/Gen/GenGroup.v, written in the Python primitives of
   Model/GroupPy.v) are extensionally the hand-written model of Model/Group.v that the
   theorems of C16 are about.  In particular no KeyError can escape the predicate, and
   CPython's reverse=True sort (reverse, stable ascending sort, reverse) is the stable
   sort on the negated key. *)
From AwVerif Require Import Base.Prelude Model.Group Model.GroupPy Gen.GenGroup Proofs.GroupSort.
From Coq Require Import Sorted ZifyBool.

(* ------------------------------------------------------------------ filter_keyvals *)

Lemma memZ_existsb : forall v l, memZ v l = existsb (fun x => x =? v) l.
Proof. intros v l. induction l as [|x t IH]; cbn [memZ existsb]; [reflexivity | rewrite IH; reflexivity]. Qed.

Lemma bridge_kv_predicate : forall key vals e,
  gen_kv_predicate key vals e = Ok (kv_predicate key vals e).
Proof.
  intros key vals e.
  unfold gen_kv_predicate, kv_predicate, py_and, py_in_dict, py_getitem, py_in_list.
  destruct (lookup key (gdata e)) as [v|]; cbn [bind].
  - rewrite memZ_existsb. reflexivity.
  - reflexivity.
Qed.
Print Assumptions bridge_kv_predicate.

Lemma filter_res_ok : forall {A} (p : A -> res bool) (q : A -> bool) l,
  (forall x, p x = Ok (q x)) -> filter_res p l = Ok (filter q l).
Proof.
  intros A p q l H. induction l as [|x t IH]; cbn [filter_res filter]; [reflexivity|].
  rewrite H, IH. cbn [bind]. destruct (q x); reflexivity.
Qed.

Lemma bridge_filter_keyvals : forall events key vals exclude,
  gen_filter_keyvals events key vals exclude = Ok (filter_keyvals events key vals exclude).
Proof.
  intros events key vals exclude. unfold gen_filter_keyvals, filter_keyvals.
  destruct exclude; apply filter_res_ok; intros x; rewrite bridge_kv_predicate; reflexivity.
Qed.
Print Assumptions bridge_filter_keyvals.

(* ------------------------------------------------------------------ sorting *)

Lemma bridge_sort_by_timestamp : forall events,
  gen_sort_by_timestamp events = sort_by_timestamp events.
Proof. reflexivity. Qed.
Print Assumptions bridge_sort_by_timestamp.

Section StableUnique.
  Context {A : Type} (key : A -> Z).

  (* a sorted list is determined by its per-key sub-sequences: all stable sorts agree *)
  Lemma sorted_stable_unique : forall l1 l2,
    StronglySorted (key_le key) l1 -> StronglySorted (key_le key) l2 ->
    (forall k, filter (fun a => key a =? k) l1 = filter (fun a => key a =? k) l2) ->
    l1 = l2.
  Proof.
    induction l1 as [|x t1 IH]; intros l2 S1 S2 H.
    - destruct l2 as [|y t2]; [reflexivity|].
      specialize (H (key y)). cbn [filter] in H. rewrite Z.eqb_refl in H. discriminate.
    - destruct l2 as [|y t2].
      { specialize (H (key x)). cbn [filter] in H. rewrite Z.eqb_refl in H. discriminate. }
      apply StronglySorted_inv in S1. destruct S1 as [S1 F1].
      apply StronglySorted_inv in S2. destruct S2 as [S2 F2].
      assert (Hxy : key y <= key x).
      { pose proof (H (key x)) as Hx. cbn [filter] in Hx. rewrite Z.eqb_refl in Hx.
        assert (Hin : In x (filter (fun a => key a =? key x) (y :: t2))).
        { cbn [filter]. rewrite <- Hx. left. reflexivity. }
        apply filter_In in Hin. destruct Hin as [[Hin|Hin] _].
        - subst. lia.
        - rewrite Forall_forall in F2. apply F2 in Hin. unfold key_le in Hin. lia. }
      assert (Hyx : key x <= key y).
      { pose proof (H (key y)) as Hy. cbn [filter] in Hy. rewrite Z.eqb_refl in Hy.
        assert (Hin : In y (filter (fun a => key a =? key y) (x :: t1))).
        { cbn [filter]. rewrite Hy. left. reflexivity. }
        apply filter_In in Hin. destruct Hin as [[Hin|Hin] _].
        - subst. lia.
        - rewrite Forall_forall in F1. apply F1 in Hin. unfold key_le in Hin. lia. }
      assert (Hk : key x = key y) by lia.
      pose proof (H (key x)) as Hx. cbn [filter] in Hx. rewrite Z.eqb_refl in Hx.
      replace (key y =? key x) with true in Hx by lia.
      inversion Hx as [[Hhead Htail]]. subst y. f_equal.
      apply IH; [exact S1 | exact S2 |]. intros k.
      destruct (key x =? k) eqn:E.
      + assert (k = key x) by lia. subst k. exact Htail.
      + specialize (H k). cbn [filter] in H. rewrite E in H. exact H.
  Qed.
End StableUnique.

Lemma ss_impl : forall {A} (R R' : A -> A -> Prop) l,
  (forall a b, R a b -> R' a b) -> StronglySorted R l -> StronglySorted R' l.
Proof.
  intros A R R' l Himp H. induction H as [|x t Hs IH Hf].
  - apply SSorted_nil.
  - apply SSorted_cons; [exact IH|]. eapply Forall_impl; [|exact Hf]. intros a. apply Himp.
Qed.

Lemma ss_snoc : forall {A} (R : A -> A -> Prop) l x,
  StronglySorted R l -> Forall (fun a => R a x) l -> StronglySorted R (l ++ [x]).
Proof.
  intros A R l x H. induction H as [|y t Hs IH Hf]; intros Hall; cbn [app].
  - apply SSorted_cons; [apply SSorted_nil | apply Forall_nil].
  - inversion Hall as [|? ? Hy Ht]; subst. apply SSorted_cons.
    + apply IH. exact Ht.
    + apply Forall_app. split; [exact Hf|]. apply Forall_cons; [exact Hy | apply Forall_nil].
Qed.

Lemma ss_rev : forall {A} (R : A -> A -> Prop) l,
  StronglySorted R l -> StronglySorted (fun a b => R b a) (rev l).
Proof.
  intros A R l H. induction H as [|x t Hs IH Hf]; cbn [rev].
  - apply SSorted_nil.
  - apply ss_snoc; [exact IH|]. apply Forall_rev. exact Hf.
Qed.

Lemma filter_rev' : forall {A} (p : A -> bool) l, filter p (rev l) = rev (filter p l).
Proof.
  intros A p l. induction l as [|x t IH]; cbn [rev filter]; [reflexivity|].
  rewrite filter_app, IH. cbn [filter]. destruct (p x); cbn [rev]; [reflexivity | apply app_nil_r].
Qed.

(* sorted(..., reverse=True) = the stable ascending sort on the negated key *)
Lemma sorted_reverse_is_neg_sort : forall {A} (key : A -> Z) l,
  py_sorted_reverse key l = sort_by (fun a => - key a) l.
Proof.
  intros A key l. unfold py_sorted_reverse.
  apply (sorted_stable_unique (fun a => - key a)).
  - apply (ss_impl (fun a b => key_le key b a)).
    + unfold key_le. intros a b Hab. lia.
    + apply ss_rev. apply sort_by_sorted.
  - apply sort_by_sorted.
  - intros k. rewrite (sort_by_stable (fun a => - key a)).
    assert (E : forall l', filter (fun a => - key a =? k) l' = filter (fun a => key a =? - k) l').
    { intros l'. apply filter_ext. intros a.
      destruct (- key a =? k) eqn:E1; destruct (key a =? - k) eqn:E2; try reflexivity; exfalso; lia. }
    rewrite !E, filter_rev', (sort_by_stable key), filter_rev', rev_involutive. reflexivity.
Qed.

Lemma bridge_sort_by_duration : forall events,
  gen_sort_by_duration events = sort_by_duration events.
Proof.
  intros events. unfold gen_sort_by_duration, sort_by_duration.
  apply (sorted_reverse_is_neg_sort (fun e => gdur e)).
Qed.
Print Assumptions bridge_sort_by_duration.

(* ------------------------------------------------------------------ limit_events / concat *)

Lemma bridge_limit_events : forall events count,
  gen_limit_events events count = limit_events events count.
Proof.
  intros events count. unfold gen_limit_events, py_slice_to, limit_events.
  destruct (count <? 0) eqn:E.
  - f_equal. lia.
  - destruct (count <=? Z.of_nat (length events)) eqn:E2.
    + f_equal. lia.
    + rewrite !firstn_all2; [reflexivity | lia | lia].
Qed.
Print Assumptions bridge_limit_events.

Lemma bridge_concat : forall a b, gen_concat a b = concat_events a b.
Proof. reflexivity. Qed.
Print Assumptions bridge_concat.
