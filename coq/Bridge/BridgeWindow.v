(* Tie B for C03: the kernels of the window path re-translated from /repo on every run
   (translate/k_window.py -> Gen/GenWindow.v) equal the hand-written model. *)
From Coq Require Import ZifyBool.
From AwVerif Require Import Base.Prelude Model.StoreBase Model.MemStore Model.PeeweeStore Model.Window
  Gen.GenWindow.

(* datastore.py Bucket.get: an aware window edge (UTC instant, utcoffset) is converted to UTC and
   rounded on the fields of that reading -- the statement-by-statement translation equals the
   model for EVERY utcoffset, and is the function round_start / round_end of the instant.
   (On a tree without the conversion -- before 49e3288 -- the generated definitions keep the
   caller's offset and these lemmas do not prove.) *)
Lemma bridge_round_start_tz : forall t off, gen_round_start t off = bucket_round_start_tz t off.
Proof. reflexivity. Qed.
Lemma bridge_round_end_tz : forall t off, gen_round_end t off = bucket_round_end_tz t off.
Proof. reflexivity. Qed.
Lemma bridge_round_start : forall t off, gen_round_start t off = round_start t.
Proof. reflexivity. Qed.
Lemma bridge_round_end : forall t off, gen_round_end t off = round_end t.
Proof. reflexivity. Qed.
Lemma bridge_bucket_get_round : forall ws we o1 o2,
  (option_map (fun t => gen_round_start t o1) ws, option_map (fun t => gen_round_end t o2) we)
  = bucket_get_round ws we.
Proof. intros [ws|] [we|] o1 o2; reflexivity. Qed.
(* Bucket.get_eventcount forwards the raw edges *)
Lemma bridge_count_forwards_raw_edges : gen_count_forwards_raw_edges = true.
Proof. reflexivity. Qed.

(* memory.py: the two filters of get_events and the predicate of get_eventcount *)
Lemma bridge_mem_start : forall ws e, gen_mem_start ws e = mem_window_start ws e.
Proof. reflexivity. Qed.
Lemma bridge_mem_end : forall we e, gen_mem_end we e = mem_window_end we e.
Proof. reflexivity. Qed.
Lemma bridge_mem_count : forall es st en,
  mem_count es st en = Z.of_nat (length (filter (gen_mem_count st en) es)).
Proof. reflexivity. Qed.

(* peewee.py: the trimming loop of get_events *)
Lemma bridge_pw_clip : forall st en e, gen_pw_clip st en e = pw_clip st en e.
Proof.
  intros st en e. unfold gen_pw_clip, pw_clip, set_ts_floor.
  destruct st as [ws|]; [destruct (ts e <? ws)|]; destruct en as [we|];
    cbn [ts dur set_dur set_ts]; rewrite ?Z.gtb_ltb; reflexivity.
Qed.

(* sqlite.py: SQL text, parameter expressions and argument order are the ones
   Model/SqliteStore.v (sql_select_events, sql_count_events) and Model/Window.v (sqx_lo,
   sqx_hi) give a meaning to *)
Lemma bridge_sqlite_get_events : gen_sqlite_get_events_ok = true.
Proof. reflexivity. Qed.
Lemma bridge_sqlite_get_eventcount : gen_sqlite_get_eventcount_ok = true.
Proof. reflexivity. Qed.
