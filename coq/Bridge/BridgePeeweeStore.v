(* Tie B for aw_datastore/storages/peewee.py: the state-passing functions regenerated from /repo's current
   source by translate/k_pwstore.py (Gen/GenPeeweeStore.v: one gen_pw_<method> per method of PeeweeStorage, the
   peewee query expressions as values of a small query record) are extensionally the hand-written model
   Model/PeeweeStore.v: gen_pw_step c o = pw_step c o for every operation.  A swapped argument, a dropped or
   re-ordered WHERE conjunct, another ORDER BY, a changed constant (chunk size, the 24 h prefilter), another
   comparison, a dropped `if`, a moved statement or another exception class changes the generated term and one
   of the lemmas below stops compiling. *)
From Coq Require Import ZifyBool.
From AwVerif Require Import Base.Prelude Model.StoreBase Model.PeeweeStore Gen.GenWindow Bridge.BridgeWindow
  Gen.GenPeeweeStore.

(* ---- generic facts about the query record and the loop combinator ---- *)
Lemma hd_error_filter : forall {A} (p : A -> bool) l, hd_error (filter p l) = find p l.
Proof. intros A p l. induction l as [|x t IH]; [reflexivity|]. cbn. destruct (p x); [reflexivity|exact IH]. Qed.

Lemma filter_true : forall {A} (l : list A), filter (fun _ => true) l = l.
Proof. intros A l. induction l as [|x t IH]; [reflexivity|]. cbn. now rewrite IH. Qed.

Lemma pbind_ret : forall {A} (m : pwstate * res A), pbind m (fun c a => (c, Ok a)) = m.
Proof. intros A [c [a|k|]]; reflexivity. Qed.

Lemma chunks_aux_map : forall {A B} (f : A -> B) n l k cur,
  chunks_aux n k (map f cur) (map f l) = map (map f) (chunks_aux n k cur l).
Proof.
  intros A B f n l. induction l as [|x t IH]; intros k cur.
  - destruct cur as [|a cur]; [reflexivity|]. cbn [map chunks_aux].
    change (f a :: map f cur) with (map f (a :: cur)). rewrite <- map_rev. reflexivity.
  - cbn [map chunks_aux]. destruct k as [|[|k']].
    + change (f x :: map f cur) with (map f (x :: cur)). rewrite <- map_rev.
      change (@nil B) with (map f []). rewrite IH. reflexivity.
    + change (f x :: map f cur) with (map f (x :: cur)). rewrite <- map_rev.
      change (@nil B) with (map f []). rewrite IH. reflexivity.
    + change (f x :: map f cur) with (map f (x :: cur)). apply IH.
Qed.

Lemma chunks_map : forall {A B} (f : A -> B) n l, chunks n (map f l) = map (map f) (chunks n l).
Proof. intros. unfold chunks. change (@nil B) with (map f []). apply chunks_aux_map. Qed.

Lemma pw_for_ok : forall {A} (step : pwstate -> A -> pwstate) l c,
  pw_for (fun c x => (step c x, Ok tt)) l c = (fold_left step l c, Ok tt).
Proof. intros A step l. induction l as [|x t IH]; intro c; [reflexivity|]. cbn. apply IH. Qed.

Lemma fold_left_map : forall {A B C} (f : A -> B) (g : C -> B -> C) l c,
  fold_left g (map f l) c = fold_left (fun c x => g c (f x)) l c.
Proof. intros A B C f g l. induction l as [|x t IH]; intro c; [reflexivity|]. cbn. apply IH. Qed.

Lemma fold_left_ext : forall {A C} (g h : C -> A -> C), (forall c x, g c x = h c x) ->
  forall l c, fold_left g l c = fold_left h l c.
Proof. intros A C g h E l. induction l as [|x t IH]; intro c; [reflexivity|]. cbn. rewrite E. apply IH. Qed.

(* ---- schema and the three codec functions ---- *)
Lemma bridge_pw_schema : gen_pw_schema_ok = true.
Proof. reflexivity. Qed.
Print Assumptions bridge_pw_schema.

(* EventModel.from_event: which event field goes to which column *)
Lemma bridge_pw_from_event : forall k e,
  gen_pw_from_event k e = mkNrow (eid e) k (ts e) (dur e) (data e).
Proof. reflexivity. Qed.
Print Assumptions bridge_pw_from_event.

(* EventModel.json and the Event constructor applied to it: the row decode *)
Lemma bridge_pw_event_json : forall r, gen_pw_event_json r = prow_event r.
Proof. reflexivity. Qed.
Print Assumptions bridge_pw_event_json.

(* BucketModel.json: every key reads its own column *)
Lemma bridge_pw_bucket_json : forall r, gen_pw_bucket_json r = (pb_id r, pb_meta r).
Proof. intros [k i [t cl h cr n d]]. reflexivity. Qed.
Print Assumptions bridge_pw_bucket_json.

(* ---- statement functions ---- *)
(* update_bucket_keys: {bucket.id: bucket.key for bucket in BucketModel.select()} *)
Lemma bridge_pw_update_bucket_keys : forall c, gen_pw_update_bucket_keys c = (refresh_keys c, Ok tt).
Proof.
  intro c. unfold gen_pw_update_bucket_keys, q_rows, select_where, refresh_keys, pw_with_keys. cbn [q_all q_pred q_ord q_lim].
  rewrite filter_true. reflexivity.
Qed.
Print Assumptions bridge_pw_update_bucket_keys.

(* _get_event: WHERE id = ? AND bucket = bucket_keys[..] (conjunct order of the source), None on DoesNotExist *)
Lemma bridge_pw__get_event : forall c b i,
  gen_pw__get_event c b i =
  (c, match pw_key c b with Some k => Ok (pw_select_event c k i) | None => Err KeyError end).
Proof.
  intros c b i. unfold gen_pw__get_event. destruct (pw_key c b) as [k|]; [|reflexivity].
  unfold q_first, q_rows, select_where, pw_select_event. cbn [q_where q_all q_pred q_ord q_lim andb].
  rewrite hd_error_filter. destruct (find _ (pw_events c)); reflexivity.
Qed.
Print Assumptions bridge_pw__get_event.

(* _get_last: WHERE bucket = ? ORDER BY timestamp DESC, first row; DoesNotExist is not caught *)
Lemma bridge_pw__get_last : forall c b,
  gen_pw__get_last c b =
  (c, match pw_key c b with
      | Some k => match pw_select_last c k with Some r => Ok r | None => Err OtherError end
      | None => Err KeyError
      end).
Proof.
  intros c b. unfold gen_pw__get_last. destruct (pw_key c b) as [k|]; [|reflexivity].
  unfold q_first, q_rows, pw_select_last, pw_order_ts_desc. cbn [q_where q_order_by q_all q_pred q_ord q_lim andb].
  destruct (sort_by _ _); reflexivity.
Qed.
Print Assumptions bridge_pw__get_last.

(* _where_range: the three conjuncts, their guards, operand order, the 24 h constant *)
Lemma bridge_pw__where_range : forall q st en r,
  q_pred (gen_pw__where_range q st en) r = q_pred q r && pw_in_range st en r.
Proof.
  intros q st en r. unfold gen_pw__where_range, pw_in_range, pw_prefilter, pw_window_start, pw_window_end, DAY_US.
  destruct st as [ws|], en as [we|]; cbn [q_where q_pred];
    rewrite ?andb_true_r, <- ?andb_assoc; reflexivity.
Qed.
Print Assumptions bridge_pw__where_range.
Lemma bridge_pw__where_range_ord : forall q st en,
  q_ord (gen_pw__where_range q st en) = q_ord q /\ q_lim (gen_pw__where_range q st en) = q_lim q.
Proof. intros q [ws|] [we|]; split; reflexivity. Qed.
Print Assumptions bridge_pw__where_range_ord.

(* ---- operations ---- *)
(* replace: through the bucket-scoped _get_event; None.timestamp = .. -> AttributeError; the three assigned columns *)
Lemma bridge_pw_replace_nat : forall c b i e,
  gen_pw_replace c b i e =
  match pw_key c b with
  | None => (c, Err KeyError)
  | Some k => match pw_select_event c k i with
              | None => (c, Err AttributeError)
              | Some r => (pw_save_event c (mkPerow (pe_id r) (pe_bucket r) (ts e) (dur e) (data e)),
                           Ok (set_eid e (Some (pe_id r))))
              end
  end.
Proof.
  intros c b i e. unfold gen_pw_replace. rewrite bridge_pw__get_event.
  destruct (pw_key c b) as [k|]; [|reflexivity]. cbn [pbind].
  destruct (pw_select_event c k i) as [r|]; reflexivity.
Qed.
Print Assumptions bridge_pw_replace_nat.

Lemma bridge_pw_replace : forall c b i e, gen_pw_op_replace c b i e = pw_step c (Replace b i e).
Proof.
  intros c b i e. unfold gen_pw_op_replace, gen_pw_out. rewrite bridge_pw_replace_nat.
  cbn [pw_step]. unfold pw_replace. destruct (pw_key c b) as [k|]; [|reflexivity].
  destruct (pw_select_event c k i) as [r|]; reflexivity.
Qed.
Print Assumptions bridge_pw_replace.

(* insert_one: an event that carries an id goes through replace (same argument order), else from_event + save() *)
Lemma bridge_pw_insert_one : forall c b e, gen_pw_op_insert_one c b e = pw_step c (InsertOne b e).
Proof.
  intros c b e. unfold gen_pw_op_insert_one, gen_pw_out, gen_pw_insert_one. cbn [pw_step].
  destruct (eid e) as [i|] eqn:E.
  - rewrite pbind_ret, bridge_pw_replace_nat. unfold pw_replace.
    destruct (pw_key c b) as [k|]; [|reflexivity]. destruct (pw_select_event c k i) as [r|]; reflexivity.
  - destruct (pw_key c b) as [k|]; [|reflexivity].
    unfold pw_save_new. rewrite bridge_pw_from_event. cbn [n_id]. rewrite E. reflexivity.
Qed.
Print Assumptions bridge_pw_insert_one.

(* insert_many: the upsert loop = pw_upserts *)
Lemma bridge_pw_upsert_loop : forall es c b,
  pw_for (fun c1 v_e => pbind (gen_pw_replace c1 b (fst v_e) (snd v_e)) (fun c3 _ => (c3, Ok tt))) (with_ids es) c =
  match pw_upserts c b es with
  | (c', Ok _) => (c', Ok tt)
  | (c', Err k) => (c', Err k)
  | (c', OutOfFuel) => (c', OutOfFuel)
  end.
Proof.
  induction es as [|e t IH]; intros c b; [reflexivity|].
  unfold with_ids. cbn [flat_map pw_upserts]. fold (with_ids t).
  destruct (eid e) as [i|]; [|cbn [app]; apply IH].
  cbn [app pw_for fst snd]. rewrite bridge_pw_replace_nat. unfold pw_replace.
  destruct (pw_key c b) as [k|]; [|reflexivity].
  destruct (pw_select_event c k i) as [r|]; [|reflexivity].
  cbn [pbind]. apply IH.
Qed.
Print Assumptions bridge_pw_upsert_loop.

Lemma bridge_pw_insert_many : forall c b es, gen_pw_op_insert_many c b es = pw_step c (InsertMany b es).
Proof.
  intros c b es. unfold gen_pw_op_insert_many, gen_pw_out, gen_pw_insert_many. cbn [pw_step].
  cbv zeta. rewrite bridge_pw_upsert_loop.
  destruct (pw_upserts c b es) as [c1 [o|k|]]; cbn [pbind]; try reflexivity.
  fold pno_id.
  change (filter (fun v_event : event => match eid v_event with Some _ => false | None => true end) es)
    with (filter pno_id es).
  destruct (filter pno_id es) as [|x news] eqn:F; [reflexivity|].
  destruct (pw_key c1 b) as [k|]; [|reflexivity].
  rewrite chunks_map, pw_for_ok. cbn [pbind]. f_equal.
  rewrite fold_left_map. apply fold_left_ext. intros c2 chunk.
  unfold pw_insert_rows. rewrite fold_left_map. reflexivity.
Qed.
Print Assumptions bridge_pw_insert_many.

(* replace_last: through _get_last (ORDER BY timestamp DESC), same three columns *)
Lemma bridge_pw_replace_last : forall c b e, gen_pw_op_replace_last c b e = pw_step c (ReplaceLast b e).
Proof.
  intros c b e. unfold gen_pw_op_replace_last, gen_pw_out, gen_pw_replace_last. rewrite bridge_pw__get_last.
  cbn [pw_step]. destruct (pw_key c b) as [k|]; [|reflexivity].
  destruct (pw_select_last c k) as [r|]; reflexivity.
Qed.
Print Assumptions bridge_pw_replace_last.

(* delete: both WHERE conjuncts, the row count *)
Lemma bridge_pw_delete : forall c b i, gen_pw_op_delete c b i = pw_step c (Delete b i).
Proof.
  intros c b i. unfold gen_pw_op_delete, gen_pw_out, gen_pw_delete. cbn [pw_step].
  destruct (pw_key c b) as [k|]; reflexivity.
Qed.
Print Assumptions bridge_pw_delete.

Lemma bridge_pw_get_event : forall c b i, gen_pw_op_get_event c b i = pw_step c (GetEvent b i).
Proof.
  intros c b i. unfold gen_pw_op_get_event, gen_pw_out, gen_pw_get_event. rewrite bridge_pw__get_event.
  cbn [pw_step]. destruct (pw_key c b) as [k|]; [|reflexivity].
  cbn [pbind]. destruct (pw_select_event c k i); reflexivity.
Qed.
Print Assumptions bridge_pw_get_event.

(* get_events: limit == 0 first, then the key lookup; WHERE bucket AND range, ORDER BY timestamp DESC, LIMIT; decode; trim *)
Lemma bridge_pw_get_events : forall c b limit st en,
  gen_pw_op_get_events c b limit st en = pw_step c (GetEvents b limit st en).
Proof.
  intros c b limit st en. unfold gen_pw_op_get_events, gen_pw_out, gen_pw_get_events. cbn [pw_step].
  destruct (limit =? 0); [reflexivity|].
  destruct (pw_key c b) as [k|]; [|reflexivity].
  cbv zeta. cbn [pbind]. do 3 f_equal.
  rewrite map_map, map_map. unfold q_rows.
  destruct (bridge_pw__where_range_ord
              (q_limit (q_order_by (q_where q_all (fun r => pe_bucket r =? k)) (sort_by (fun r => - pe_ts r))) limit)
              st en) as [Eo El].
  rewrite Eo, El. cbn [q_limit q_order_by q_ord q_lim].
  unfold select_where.
  rewrite (filter_ext _ (fun r => (pe_bucket r =? k) && pw_in_range st en r))
    by (intro r; rewrite bridge_pw__where_range; reflexivity).
  apply map_ext. intro r. rewrite bridge_pw_clip. reflexivity.
Qed.
Print Assumptions bridge_pw_get_events.

Lemma bridge_pw_get_eventcount : forall c b st en,
  gen_pw_op_get_eventcount c b st en = pw_step c (GetEventCount b st en).
Proof.
  intros c b st en. unfold gen_pw_op_get_eventcount, gen_pw_out, gen_pw_get_eventcount. cbn [pw_step].
  destruct (pw_key c b) as [k|]; [|reflexivity].
  cbv zeta. cbn [pbind]. do 3 f_equal. unfold q_count, q_rows, rowcount.
  destruct (bridge_pw__where_range_ord (q_where q_all (fun r => pe_bucket r =? k)) st en) as [Eo El].
  rewrite Eo, El. cbn [q_where q_all q_ord q_lim]. unfold select_where.
  rewrite (filter_ext _ (fun r => (pe_bucket r =? k) && pw_in_range st en r))
    by (intro r; rewrite bridge_pw__where_range; reflexivity).
  reflexivity.
Qed.
Print Assumptions bridge_pw_get_eventcount.

(* ---- bucket methods ---- *)
(* create_bucket: keyword -> column binding of BucketModel.create, then the cache refresh *)
Lemma bridge_pw_create_bucket : forall c b m, gen_pw_op_create_bucket c b m = pw_step c (CreateBucket b m).
Proof.
  intros c b [t cl h cr n d]. unfold gen_pw_op_create_bucket, gen_pw_out, gen_pw_create_bucket.
  cbn [pw_step m_type m_client m_hostname m_created m_name m_data].
  destruct (pw_insert_bucket c b _) as [c1|k|]; try reflexivity.
  rewrite bridge_pw_update_bucket_keys. reflexivity.
Qed.
Print Assumptions bridge_pw_create_bucket.

(* update_bucket: cache membership, the five `is not None` guards and the column each assigns, save() *)
Lemma bridge_pw_update_bucket : forall c b ty cl ho na da,
  gen_pw_op_update_bucket c b ty cl ho na da = pw_step c (UpdateBucket b ty cl ho na da).
Proof.
  intros c b ty cl ho na da. unfold gen_pw_op_update_bucket, gen_pw_out, gen_pw_update_bucket. cbn [pw_step].
  destruct (pw_key c b) as [k|]; [|reflexivity].
  unfold q_first, q_rows, select_where, pw_get_bucket. cbn [q_where q_all q_pred q_ord q_lim andb].
  rewrite hd_error_filter. destruct (find _ (pw_buckets c)) as [r|]; [|reflexivity].
  destruct ty, cl, ho, na, da; reflexivity.
Qed.
Print Assumptions bridge_pw_update_bucket.

(* delete_bucket: events first, then the bucket row, then the cache refresh *)
Lemma bridge_pw_delete_bucket : forall c b, gen_pw_op_delete_bucket c b = pw_step c (DeleteBucket b).
Proof.
  intros c b. unfold gen_pw_op_delete_bucket, gen_pw_out, gen_pw_delete_bucket. cbn [pw_step].
  destruct (pw_key c b) as [k|] eqn:K; [|reflexivity].
  cbn [q_delete fst snd]. cbv zeta.
  change (pw_key (pw_with_events c _) b) with (pw_key c b). rewrite K.
  rewrite bridge_pw_update_bucket_keys. reflexivity.
Qed.
Print Assumptions bridge_pw_delete_bucket.

Lemma bridge_pw_get_metadata : forall c b, gen_pw_op_get_metadata c b = pw_step c (GetMetadata b).
Proof.
  intros c b. unfold gen_pw_op_get_metadata, gen_pw_out, gen_pw_get_metadata. cbn [pw_step].
  destruct (pw_key c b) as [k|]; [|reflexivity].
  unfold q_first, q_rows, select_where, pw_get_bucket. cbn [q_where q_all q_pred q_ord q_lim andb].
  rewrite hd_error_filter. destruct (find _ (pw_buckets c)) as [r|]; [|reflexivity].
  cbv zeta. rewrite bridge_pw_bucket_json. reflexivity.
Qed.
Print Assumptions bridge_pw_get_metadata.

Lemma bridge_pw_buckets : forall c, gen_pw_op_buckets c = pw_step c Buckets.
Proof.
  intro c. unfold gen_pw_op_buckets, gen_pw_out, gen_pw_buckets, q_rows, select_where. cbn [pw_step pbind].
  cbn [q_all q_pred q_ord q_lim]. rewrite filter_true. do 3 f_equal.
  apply map_ext. intro r. rewrite bridge_pw_bucket_json. reflexivity.
Qed.
Print Assumptions bridge_pw_buckets.

(* ---- every operation ---- *)
Theorem bridge_pw_step : forall c o, gen_pw_step c o = pw_step c o.
Proof.
  intros c o. destruct o; unfold gen_pw_step.
  - apply bridge_pw_create_bucket.
  - apply bridge_pw_update_bucket.
  - apply bridge_pw_delete_bucket.
  - apply bridge_pw_buckets.
  - apply bridge_pw_get_metadata.
  - apply bridge_pw_insert_one.
  - apply bridge_pw_insert_many.
  - apply bridge_pw_replace.
  - apply bridge_pw_replace_last.
  - apply bridge_pw_delete.
  - apply bridge_pw_get_event.
  - apply bridge_pw_get_events.
  - apply bridge_pw_get_eventcount.
Qed.
Print Assumptions bridge_pw_step.
