(* loads (dumps v) = v for every JSON value of the domain; consequences. *)
From AwVerif Require Import Base.Prelude Model.Json Proofs.JsonStr Proofs.JsonNum Proofs.JsonFuel.
Open Scope Z_scope.

(* --- induction over nested values -------------------------------------------------------- *)
Section JInd.
  Variable P : jvalue -> Prop.
  Hypothesis Hnull : P JNull.
  Hypothesis Hbool : forall b, P (JBool b).
  Hypothesis Hint : forall n, P (JInt n).
  Hypothesis Hfloat : forall t, P (JFloat t).
  Hypothesis Hstr : forall s, P (JStr s).
  Hypothesis Hlist : forall l, Forall P l -> P (JList l).
  Hypothesis Hdict : forall kvs, Forall (fun kv => P (snd kv)) kvs -> P (JDict kvs).
  Fixpoint jvalue_ind' (v : jvalue) : P v :=
    match v with
    | JNull => Hnull
    | JBool b => Hbool b
    | JInt n => Hint n
    | JFloat t => Hfloat t
    | JStr s => Hstr s
    | JList l =>
        Hlist l ((fix go (l : list jvalue) : Forall P l :=
                    match l with
                    | [] => Forall_nil _
                    | x :: t => Forall_cons x (jvalue_ind' x) (go t)
                    end) l)
    | JDict kvs =>
        Hdict kvs ((fix go (l : list (list Z * jvalue)) : Forall (fun kv => P (snd kv)) l :=
                      match l with
                      | [] => Forall_nil _
                      | kv :: t => Forall_cons kv (jvalue_ind' (snd kv)) (go t)
                      end) kvs)
    end.
End JInd.

(* --- the text of containers ----------------------------------------------------------------- *)
Fixpoint arr_items (l : list jvalue) : list Z :=
  match l with
  | [] => [c_rbrk]
  | x :: t => dumps_text x ++ match t with [] => [c_rbrk] | _ :: _ => t_itemsep ++ arr_items t end
  end.

Fixpoint obj_items (l : list (list Z * jvalue)) : list Z :=
  match l with
  | [] => [c_rbrc]
  | (k, x) :: t =>
      quote k ++ t_keysep ++ dumps_text x ++
      match t with [] => [c_rbrc] | _ :: _ => t_itemsep ++ obj_items t end
  end.

Lemma dumps_text_list l : dumps_text (JList l) = c_lbrk :: arr_items l.
Proof.
  reflexivity.
Qed.

Lemma dumps_text_dict kvs : dumps_text (JDict kvs) = c_lbrc :: obj_items kvs.
Proof.
  reflexivity.
Qed.

(* --- first character of a text ---------------------------------------------------------------- *)
Definition first_ok (s : list Z) : Prop :=
  exists c tl, s = c :: tl /\ is_ws c = false /\ c <> c_rbrk /\ c <> 65279.

Lemma num_first_range c : c = c_minus \/ is_digit c = true -> 45 <= c < 58.
Proof.
  intros [->|H]; [unfold c_minus; lia|]. unfold is_digit in H. apply andb_prop in H. destruct H as [H1 H2].
  apply Z.leb_le in H1, H2. lia.
Qed.

Lemma first_ok_num c tl : c = c_minus \/ is_digit c = true -> first_ok (c :: tl).
Proof.
  intros H. exists c, tl. split; [reflexivity|].
  assert (45 <= c < 58).
  { destruct H as [->|H]; [unfold c_minus; lia|]. unfold is_digit in H. apply andb_prop in H. destruct H as [H1 H2].
    apply Z.leb_le in H1, H2. lia. }
  unfold is_ws, c_rbrk. repeat split; lia.
Qed.

Lemma dumps_first v : wf v -> first_ok (dumps_text v).
Proof.
  destruct v; intros Hwf; unfold wf in Hwf; cbn [wfb] in Hwf.
  - exists 110, [117; 108; 108]. repeat split; discriminate.
  - destruct b; [exists 116, [114; 117; 101]|exists 102, [97; 108; 115; 101]]; repeat split; discriminate.
  - cbn [dumps_text]. pose proof (scan_intpart_repr n [] I) as H. rewrite app_nil_r in H.
    destruct (scan_intpart_decomp _ _ _ H) as (_ & _ & c & i' & -> & Hc). now apply first_ok_num.
  - cbn [dumps_text]. unfold float_tok_ok in Hwf.
    apply orb_prop in Hwf. destruct Hwf as [H|H]; [apply orb_prop in H; destruct H as [H|H]; [apply orb_prop in H; destruct H as [H|H]|]|].
    + apply str_eqb_eq in H. subst. eexists _, _. repeat split; discriminate.
    + apply str_eqb_eq in H. subst. eexists _, _. repeat split; discriminate.
    + apply str_eqb_eq in H. subst. eexists _, _. repeat split; discriminate.
    + destruct (match_number tok) as [[[[i f] e] r]|] eqn:E; [|discriminate].
      destruct (match_number_decomp _ _ _ _ _ E) as (-> & _ & c & i' & -> & Hc). now apply first_ok_num.
  - exists c_dq, (escape_str s ++ [c_dq]). repeat split; discriminate.
  - rewrite dumps_text_list. eexists _, _. repeat split; discriminate.
  - rewrite dumps_text_dict. eexists _, _. repeat split; discriminate.
Qed.

Lemma skip_ws_first s rest : first_ok s -> skip_ws (s ++ rest) = s ++ rest.
Proof. intros (c & tl & -> & H & _). cbn [app skip_ws]. now rewrite H. Qed.

(* --- what may follow a value in a text written by dumps -------------------------------------- *)
Definition delim (rest : list Z) : Prop :=
  match rest with [] => True | c :: _ => c = c_comma \/ c = c_rbrk \/ c = c_rbrc end.

Lemma delim_hnn rest : delim rest -> hnn rest.
Proof. destruct rest as [|c rest]; [trivial|]. intros [->| [->| ->]]; reflexivity. Qed.

(* --- more fuel for the loops ------------------------------------------------------------------- *)
Lemma arr_loop_fuel_mono f f' s : (f <= f')%nat -> arr_loop f s <> OutOfFuel -> arr_loop f' s = arr_loop f s.
Proof.
  induction 1 as [|f' Hle IH]; intros H; [reflexivity|].
  rewrite <- (IH H). apply (mono f'). now rewrite (IH H).
Qed.
Lemma obj_loop_fuel_mono f f' s : (f <= f')%nat -> obj_loop f s <> OutOfFuel -> obj_loop f' s = obj_loop f s.
Proof.
  induction 1 as [|f' Hle IH]; intros H; [reflexivity|].
  rewrite <- (IH H). apply (mono f'). now rewrite (IH H).
Qed.

Lemma scan_value_more f f' s x : scan_value f s = Ok x -> (f <= f')%nat -> scan_value f' s = Ok x.
Proof. intros H Hle. rewrite (scan_value_fuel_mono _ _ _ Hle); [exact H|]. rewrite H. discriminate. Qed.
Lemma arr_loop_more f f' s x : arr_loop f s = Ok x -> (f <= f')%nat -> arr_loop f' s = Ok x.
Proof. intros H Hle. rewrite (arr_loop_fuel_mono _ _ _ Hle); [exact H|]. rewrite H. discriminate. Qed.
Lemma obj_loop_more f f' s x : obj_loop f s = Ok x -> (f <= f')%nat -> obj_loop f' s = Ok x.
Proof. intros H Hle. rewrite (obj_loop_fuel_mono _ _ _ Hle); [exact H|]. rewrite H. discriminate. Qed.

(* --- the round trip of one value inside a text --------------------------------------------------- *)
Definition reads_back (v : jvalue) : Prop :=
  forall rest, delim rest -> exists f, scan_value f (dumps_text v ++ rest) = Ok (v, rest).

Lemma arr_items_scan l : l <> [] -> Forall (fun x => wf x /\ reads_back x) l ->
  forall rest, exists f, arr_loop f (arr_items l ++ rest) = Ok (l, rest).
Proof.
  induction l as [|x t IH]; [contradiction|]. intros _ Hall rest.
  inversion Hall as [|? ? [Hwx Hx] Ht]; subst. cbn [arr_items].
  destruct t as [|y t'].
  - destruct (Hx (c_rbrk :: rest)) as [f Hf]; [right; left; reflexivity|].
    exists (S f). rewrite arr_loop_S, <- app_assoc. cbn [app]. rewrite Hf. reflexivity.
  - destruct (Hx (t_itemsep ++ arr_items (y :: t') ++ rest)) as [f1 Hf1]; [left; reflexivity|].
    destruct (IH ltac:(discriminate) Ht rest) as [f2 Hf2].
    exists (S (Nat.max f1 f2)). rewrite arr_loop_S, <- !app_assoc.
    rewrite (scan_value_more _ _ _ _ Hf1 (Nat.le_max_l _ _)). cbn [bind2]. unfold arr_cont, t_itemsep. cbn [app skip_ws].
    change (is_ws 44) with false. cbv iota. change (44 =? c_rbrk) with false. change (44 =? c_comma) with true. cbv iota.
    cbn [skip_ws]. change (is_ws 32) with true. cbv iota.
    inversion Ht as [|? ? [Hwy _] _]; subst.
    rewrite (skip_ws_first _ rest). 2:{ cbn [arr_items]. destruct (dumps_first y Hwy) as (c & tl & E & H1 & H2 & H3). rewrite E. now exists c, (tl ++ match t' with [] => [c_rbrk] | _ :: _ => t_itemsep ++ arr_items t' end). }
    rewrite (arr_loop_more _ _ _ _ Hf2 (Nat.le_max_r _ _)). reflexivity.
Qed.

Lemma obj_items_cons k x t :
  obj_items ((k, x) :: t) =
  c_dq :: escape_str k ++ c_dq :: c_colon :: 32 :: dumps_text x ++
    match t with [] => [c_rbrc] | _ :: _ => t_itemsep ++ obj_items t end.
Proof. cbn [obj_items]. unfold quote, t_keysep. cbn [app]. rewrite <- app_assoc. reflexivity. Qed.

Lemma obj_items_scan l : l <> [] ->
  Forall (fun kv => str_ok (fst kv) = true /\ wf (snd kv) /\ reads_back (snd kv)) l ->
  forall rest, exists f, obj_loop f (tl (obj_items l) ++ rest) = Ok (l, rest).
Proof.
  induction l as [|[k x] t IH]; [contradiction|]. intros _ Hall rest.
  inversion Hall as [|? ? (Hk & Hwx & Hx) Ht]; subst. cbn [fst snd] in *.
  rewrite obj_items_cons. cbn [tl].
  destruct t as [|[k2 y] t'].
  - destruct (Hx (c_rbrc :: rest)) as [f Hf]; [right; right; reflexivity|].
    exists (S f). rewrite obj_loop_S, <- app_assoc. cbn [app]. rewrite <- app_assoc. cbn [app].
    rewrite (scanstring_escape k Hk). cbn [bind2]. unfold obj_cont1. cbn [skip_ws].
    change (is_ws c_colon) with false. cbv iota. change (c_colon =? c_colon) with true. cbv iota.
    cbn [skip_ws]. change (is_ws 32) with true. cbv iota.
    rewrite (skip_ws_first (dumps_text x)); [|now apply dumps_first].
    rewrite Hf. reflexivity.
  - destruct (Hx (t_itemsep ++ obj_items ((k2, y) :: t') ++ rest)) as [f1 Hf1]; [left; reflexivity|].
    destruct (IH ltac:(discriminate) Ht rest) as [f2 Hf2].
    exists (S (Nat.max f1 f2)). rewrite obj_loop_S, <- app_assoc. cbn [app]. rewrite <- !app_assoc. cbn [app].
    rewrite (scanstring_escape k Hk). cbn [bind2]. unfold obj_cont1. cbn [skip_ws].
    change (is_ws c_colon) with false. cbv iota. change (c_colon =? c_colon) with true. cbv iota.
    cbn [skip_ws]. change (is_ws 32) with true. cbv iota.
    rewrite (skip_ws_first (dumps_text x)); [|now apply dumps_first].
    rewrite (scan_value_more _ _ _ _ Hf1 (Nat.le_max_l _ _)). cbn [bind2]. unfold obj_cont2, t_itemsep. cbn [app skip_ws].
    change (is_ws 44) with false. cbv iota. change (44 =? c_rbrc) with false. change (44 =? c_comma) with true. cbv iota.
    cbn [skip_ws]. change (is_ws 32) with true. cbv iota.
    rewrite obj_items_cons in *. cbn [app skip_ws tl] in *. change (is_ws c_dq) with false. cbv iota.
    change (c_dq =? c_dq) with true. cbv iota.
    rewrite (obj_loop_more _ _ _ _ Hf2 (Nat.le_max_r _ _)). reflexivity.
Qed.

(* --- dict(pairs) of distinct keys ----------------------------------------------------------------- *)
Lemma dict_set_fresh d k v : Forall (fun kv => str_eqb (fst kv) k = false) d -> dict_set d k v = d ++ [(k, v)].
Proof.
  induction 1 as [|[k' v'] d Hk Hd IH]; [reflexivity|]. cbn [dict_set app]. cbn [fst] in Hk. rewrite Hk, IH. reflexivity.
Qed.

Lemma keys_distinct_app_cons acc k t :
  keys_distinct (map fst acc ++ k :: t) = true -> Forall (fun kv : list Z * jvalue => str_eqb (fst kv) k = false) acc.
Proof.
  induction acc as [|[k' v'] acc IH]; [constructor|]. cbn [map app keys_distinct fst]. intros H.
  apply andb_prop in H. destruct H as [H1 H2]. constructor; [|now apply IH].
  cbn [fst]. apply negb_true_iff in H1. rewrite existsb_app in H1. apply orb_false_elim in H1. destruct H1 as [_ H1].
  cbn [existsb] in H1. now apply orb_false_elim in H1.
Qed.

Lemma dict_of_pairs_distinct_aux kvs : forall acc, keys_distinct (map fst (acc ++ kvs)) = true ->
  fold_left (fun d kv => dict_set d (fst kv) (snd kv)) kvs acc = acc ++ kvs.
Proof.
  induction kvs as [|[k v] t IH]; intros acc H; [now rewrite app_nil_r|].
  cbn [fold_left fst snd]. rewrite dict_set_fresh.
  - rewrite IH; rewrite <- app_assoc; [reflexivity|exact H].
  - rewrite map_app in H. cbn [map fst] in H. now apply keys_distinct_app_cons in H.
Qed.

Lemma dict_of_pairs_distinct kvs : keys_distinct (map fst kvs) = true -> dict_of_pairs kvs = kvs.
Proof. intros H. unfold dict_of_pairs. now rewrite dict_of_pairs_distinct_aux. Qed.

(* --- every value of the domain reads back -------------------------------------------------------- *)
Lemma wf_list l : wf (JList l) -> Forall wf l.
Proof. unfold wf. cbn [wfb]. rewrite forallb_forall, Forall_forall. auto. Qed.

Lemma wf_dict kvs : wf (JDict kvs) ->
  Forall (fun kv => str_ok (fst kv) = true /\ wf (snd kv)) kvs /\ keys_distinct (map fst kvs) = true.
Proof.
  unfold wf. cbn [wfb]. intros H. apply andb_prop in H. destruct H as [H1 H2]. split; [|exact H2].
  rewrite forallb_forall in H1. rewrite Forall_forall. intros kv Hin. specialize (H1 kv Hin). now apply andb_prop in H1.
Qed.

Theorem value_reads_back v : wf v -> reads_back v.
Proof.
  induction v using jvalue_ind'; intros Hwf rest Hd.
  - exists 1%nat. reflexivity.
  - exists 1%nat. destruct b; reflexivity.
  - exists 1%nat. rewrite scan_value_S. cbn [dumps_text]. unfold value_body.
    pose proof (scan_intpart_repr n [] I) as H. rewrite app_nil_r in H.
    destruct (scan_intpart_decomp _ _ _ H) as (_ & _ & c & i' & E & Hc).
    pose proof (scan_scalar_int n rest Hwf (delim_hnn _ Hd)) as Hs. rewrite E in *. cbn [app] in *.
    apply num_first_range in Hc.
    replace (c =? c_dq) with false by (symmetry; apply Z.eqb_neq; unfold c_dq; lia).
    replace (c =? c_lbrc) with false by (symmetry; apply Z.eqb_neq; unfold c_lbrc; lia).
    replace (c =? c_lbrk) with false by (symmetry; apply Z.eqb_neq; unfold c_lbrk; lia).
    exact Hs.
  - exists 1%nat. rewrite scan_value_S. cbn [dumps_text]. unfold value_body.
    pose proof (scan_scalar_float t rest Hwf (delim_hnn _ Hd)) as Hs.
    destruct (dumps_first (JFloat t) Hwf) as (c & tl & E & _). cbn [dumps_text] in E. rewrite E in *. cbn [app] in *.
    assert (Hc : 45 <= c < 91).
    { unfold wf in Hwf. cbn [wfb] in Hwf. unfold float_tok_ok in Hwf.
      apply orb_prop in Hwf. destruct Hwf as [H|H]; [apply orb_prop in H; destruct H as [H|H]; [apply orb_prop in H; destruct H as [H|H]|]|].
      - apply str_eqb_eq in H. injection H as -> _. lia.
      - apply str_eqb_eq in H. injection H as -> _. lia.
      - apply str_eqb_eq in H. injection H as -> _. unfold c_minus. lia.
      - destruct (match_number (c :: tl)) as [[[[i f] e] r]|] eqn:E2; [|discriminate].
        destruct (match_number_decomp _ _ _ _ _ E2) as (E3 & _ & c' & i' & -> & Hc). injection E3 as -> _.
        apply num_first_range in Hc. lia. }
    replace (c =? c_dq) with false by (symmetry; apply Z.eqb_neq; unfold c_dq; lia).
    replace (c =? c_lbrc) with false by (symmetry; apply Z.eqb_neq; unfold c_lbrc; lia).
    replace (c =? c_lbrk) with false by (symmetry; apply Z.eqb_neq; unfold c_lbrk; lia).
    exact Hs.
  - exists 1%nat. rewrite scan_value_S. cbn [dumps_text]. unfold quote, value_body. cbn [app].
    change (c_dq =? c_dq) with true. cbv iota. rewrite <- app_assoc. cbn [app].
    rewrite (scanstring_escape s Hwf). reflexivity.
  - rewrite dumps_text_list. destruct l as [|x t].
    + exists 1%nat. reflexivity.
    + destruct (arr_items_scan (x :: t) ltac:(discriminate)) with (rest := rest) as [f Hf].
      { apply wf_list in Hwf. rewrite Forall_forall in *. intros y Hy. split; [now apply Hwf|]. apply H; [exact Hy|now apply Hwf]. }
      exists (S f). rewrite scan_value_S. unfold value_body. cbn [app].
      change (c_lbrk =? c_dq) with false. change (c_lbrk =? c_lbrc) with false. change (c_lbrk =? c_lbrk) with true. cbv iota.
      apply wf_list in Hwf. inversion Hwf as [|? ? Hwx _]; subst.
      rewrite (skip_ws_first (arr_items (x :: t))).
      2:{ cbn [arr_items]. destruct (dumps_first x Hwx) as (c & tl & E & H1 & H2 & H3). rewrite E. now eexists c, _. }
      destruct (dumps_first x Hwx) as (c & tl & E & H1 & H2 & H3).
      cbn [arr_items] in *. rewrite E in *. cbn [app] in *.
      replace (c =? c_rbrk) with false by (symmetry; now apply Z.eqb_neq).
      rewrite Hf. reflexivity.
  - rewrite dumps_text_dict. destruct kvs as [|[k x] t].
    + exists 1%nat. reflexivity.
    + destruct (wf_dict _ Hwf) as [Hall Hkeys].
      destruct (obj_items_scan ((k, x) :: t) ltac:(discriminate)) with (rest := rest) as [f Hf].
      { rewrite Forall_forall in *. intros kv Hin. destruct (Hall kv Hin) as [H1 H2]. repeat split; try assumption. now apply H. }
      exists (S f). rewrite scan_value_S. unfold value_body. cbn [app].
      change (c_lbrc =? c_dq) with false. change (c_lbrc =? c_lbrc) with true. cbv iota.
      rewrite obj_items_cons in *. cbn [app skip_ws tl] in *. change (is_ws c_dq) with false. cbv iota.
      change (c_dq =? c_rbrc) with false. change (c_dq =? c_dq) with true. cbv iota.
      rewrite Hf. cbn [bind2]. rewrite (dict_of_pairs_distinct _ Hkeys). reflexivity.
Qed.

(* --- loads after dumps ------------------------------------------------------------------------------ *)
Theorem loads_dumps_text v : wf v -> loads (dumps_text v) = Ok v.
Proof.
  intros Hwf. destruct (value_reads_back v Hwf [] I) as [f Hf]. rewrite app_nil_r in Hf.
  pose proof (dumps_first v Hwf) as Hfirst. pose proof (skip_ws_first _ [] Hfirst) as Hws. rewrite app_nil_r in Hws.
  destruct Hfirst as (c & tl & E & _ & _ & Hbom).
  unfold loads. rewrite E. replace (c =? 65279) with false by (symmetry; now apply Z.eqb_neq).
  rewrite <- E, Hws, (scan_value_any_fuel _ _ _ Hf). reflexivity.
Qed.

Lemma wfb_ints_ok v : wf v -> ints_ok v = true.
Proof.
  unfold wf. induction v using jvalue_ind'; cbn [wfb ints_ok]; try reflexivity; try (intros H0; exact H0).
  - intros Hw. rewrite forallb_forall in *. rewrite Forall_forall in H. intros x Hx. apply H; [exact Hx|now apply Hw].
  - intros Hw. apply andb_prop in Hw. destruct Hw as [Hw _]. rewrite forallb_forall in *. rewrite Forall_forall in H.
    intros kv Hin. apply H; [exact Hin|]. specialize (Hw kv Hin). now apply andb_prop in Hw.
Qed.

Theorem dumps_wf v : wf v -> dumps v = Ok (dumps_text v).
Proof. intros H. unfold dumps. now rewrite (wfb_ints_ok v H). Qed.

Theorem json_roundtrip v : wf v -> bind (dumps v) loads = Ok v.
Proof. intros H. rewrite (dumps_wf v H). cbn [bind]. now apply loads_dumps_text. Qed.

Theorem dumps_injective v1 v2 : wf v1 -> wf v2 -> dumps v1 = dumps v2 -> v1 = v2.
Proof.
  intros H1 H2 E. rewrite (dumps_wf _ H1), (dumps_wf _ H2) in E. injection E as E.
  pose proof (loads_dumps_text v1 H1) as L1. rewrite E, (loads_dumps_text v2 H2) in L1. now injection L1.
Qed.

(* --- the text is printable ASCII ------------------------------------------------------------------ *)
Lemma arr_items_printable l : Forall (fun x => Forall printable (dumps_text x)) l -> Forall printable (arr_items l).
Proof.
  induction 1 as [|x t Hx Ht IH]; cbn [arr_items].
  - repeat constructor; unfold printable, c_rbrk; lia.
  - apply Forall_app. split; [exact Hx|]. destruct t; [repeat constructor; unfold printable, c_rbrk; lia|].
    apply Forall_app. split; [|exact IH]. repeat constructor; unfold printable; lia.
Qed.

Lemma obj_items_printable l : Forall (fun kv => Forall printable (dumps_text (snd kv))) l -> Forall printable (obj_items l).
Proof.
  induction 1 as [|[k x] t Hx Ht IH]; cbn [obj_items].
  - repeat constructor; unfold printable, c_rbrc; lia.
  - apply Forall_app. split; [apply quote_printable|]. apply Forall_app. split; [repeat constructor; unfold printable; lia|].
    apply Forall_app. split; [exact Hx|]. destruct t; [repeat constructor; unfold printable, c_rbrc; lia|].
    apply Forall_app. split; [|exact IH]. repeat constructor; unfold printable; lia.
Qed.

Theorem dumps_text_printable v : wf v -> Forall printable (dumps_text v).
Proof.
  induction v using jvalue_ind'; intros Hwf.
  - repeat constructor; unfold printable; lia.
  - destruct b; repeat constructor; unfold printable; lia.
  - apply int_repr_printable.
  - now apply float_tok_printable.
  - apply quote_printable.
  - rewrite dumps_text_list. constructor; [unfold printable, c_lbrk; lia|]. apply arr_items_printable.
    apply wf_list in Hwf. rewrite Forall_forall in *. intros x Hx. apply H; [exact Hx|now apply Hwf].
  - rewrite dumps_text_dict. constructor; [unfold printable, c_lbrc; lia|]. apply obj_items_printable.
    destruct (wf_dict _ Hwf) as [Hall _]. rewrite Forall_forall in *. intros kv Hin. apply H; [exact Hin|]. now apply Hall.
Qed.
