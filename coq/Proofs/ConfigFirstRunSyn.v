(* First-run neutrality from a condition on the text of the document alone: no [table]
   header path runs through (or equals) an [[array-of-tables]] header path of the document.
   This file derives the hypothesis of Proofs/ConfigFirstRun.v (every [table] header names a
   table reached through tables only) from that condition, by an invariant of the line-level
   reading parse_lines. *)
From AwVerif Require Import Base.Prelude Model.Config Proofs.ConfigProofs Proofs.ConfigIO
  Proofs.ConfigFirstRun.

(* ------------------------------------------------------------------------------------ *)
(* vocabulary *)

Definition prefix (q p : list Z) : Prop := exists r, p = q ++ r.

(* a value written inline (right-hand side of key = value) contains no array of tables
   that a key path could reach *)
Definition aot_free (v : toml) : Prop := forall q xs, get_in q v <> Some (Aot xs).

Definition line_aot_free (l : line) : Prop :=
  match l with KeyVal _ v => aot_free v | _ => True end.

(* the condition on the text: no [p] header with an [[q]] header such that q is a prefix of p *)
Definition no_header_under_aot (doc : list line) : Prop :=
  forall p q, In p (headers doc) -> In q (array_headers doc) -> ~ prefix q p.

(* every array of tables of t that is reached through tables only sits at a path of AS *)
Definition aots_in (AS : list (list Z)) (t : table) : Prop :=
  forall q xs, get q t = Some (Aot xs) -> In q AS.

(* t' has every table that t has *)
Definition ext (t t' : table) : Prop := forall p, tab_path p t -> tab_path p t'.

Definition no_aot_on (p : list Z) (t : table) : Prop :=
  forall q xs, prefix q p -> get q t <> Some (Aot xs).

(* ------------------------------------------------------------------------------------ *)
(* association lists, continued *)

Lemma lookup_app_some : forall k t t2 v, lookup k t = Some v -> lookup k (t ++ t2) = Some v.
Proof.
  induction t as [|[k' v'] t IH]; cbn; intros t2 v H; [discriminate|].
  destruct (k' =? k); [assumption|now apply IH].
Qed.

Lemma lookup_app_none : forall k t t2, lookup k t = None -> lookup k (t ++ t2) = lookup k t2.
Proof.
  induction t as [|[k' v'] t IH]; cbn; intros t2 H; [reflexivity|].
  destruct (k' =? k); [discriminate|now apply IH].
Qed.

Lemma lookup_set_key_same : forall k v t w, lookup k t = Some w -> lookup k (set_key k v t) = Some v.
Proof.
  induction t as [|[k' v'] t IH]; cbn; intros w H; [discriminate|].
  destruct (k' =? k) eqn:E; cbn; rewrite E; [reflexivity|now apply IH with w].
Qed.

Lemma lookup_set_key_other : forall k k0 v t, k0 <> k -> lookup k (set_key k0 v t) = lookup k t.
Proof.
  induction t as [|[k' v'] t IH]; cbn; intros Hne; [reflexivity|].
  destruct (k' =? k0) eqn:E0; cbn.
  - apply Z.eqb_eq in E0. subst k'.
    destruct (k0 =? k) eqn:E; [apply Z.eqb_eq in E; contradiction|reflexivity].
  - destruct (k' =? k); [reflexivity|now apply IH].
Qed.

Lemma lookup_single : forall k k0 v, lookup k [(k0, v)] = if k0 =? k then Some v else None.
Proof. reflexivity. Qed.

(* get / tab_path one step *)
Lemma get_cons : forall k q t,
  get (k :: q) t = match lookup k t with Some v => get_in q v | None => None end.
Proof. reflexivity. Qed.

Lemma get_in_aot_nil : forall q xs ys, get_in q (Aot xs) = Some (Aot ys) -> q = [].
Proof. intros [|k q] xs ys H; [reflexivity|discriminate]. Qed.

Lemma get_in_leaf_not_aot : forall q l xs, get_in q (Leaf l) <> Some (Aot xs).
Proof. intros [|k q] l xs H; discriminate. Qed.

Lemma get_nil_not_aot : forall q xs, get q [] <> Some (Aot xs).
Proof. intros [|k q] xs H; discriminate. Qed.

(* ------------------------------------------------------------------------------------ *)
(* at_path: what it does to the set of tables and to the reachable arrays of tables *)

Lemma ext_refl : forall t, ext t t.
Proof. intros t p H. exact H. Qed.

Lemma ext_trans : forall t1 t2 t3, ext t1 t2 -> ext t2 t3 -> ext t1 t3.
Proof. intros t1 t2 t3 H1 H2 p H. apply H2, H1, H. Qed.

Lemma ext_app : forall t t2, ext t (t ++ t2).
Proof.
  intros t t2 [|k p] H; [exact I|]. cbn [tab_path] in *.
  destruct (lookup k t) as [v|] eqn:E; [|contradiction].
  now rewrite (lookup_app_some _ _ t2 _ E).
Qed.

Lemma at_path_ext : forall r f t t',
  (forall x x', f x = Ok x' -> ext x x') ->
  at_path r f t = Ok t' -> ext t t'.
Proof.
  induction r as [|k r IH]; intros f t t' Hf H.
  - now apply Hf.
  - cbn [at_path] in H.
    destruct (lookup k t) as [[l|t1|xs]|] eqn:Ek.
    + discriminate.
    + destruct (at_path r f t1) as [x'| |] eqn:Er; cbn [bind] in H; try discriminate.
      inversion H; subst t'. clear H.
      pose proof (IH f t1 x' Hf Er) as Hext.
      intros [|k0 p] Hp; [exact I|]. cbn [tab_path] in *.
      destruct (Z.eq_dec k k0) as [->|Hne].
      * rewrite Ek in Hp. rewrite (lookup_set_key_same _ _ _ _ Ek). now apply Hext.
      * now rewrite lookup_set_key_other by assumption.
    + destruct (split_last xs) as [[init [l|t1|ys]]|]; try discriminate.
      destruct (at_path r f t1) as [x'| |] eqn:Er; cbn [bind] in H; try discriminate.
      inversion H; subst t'. clear H.
      intros [|k0 p] Hp; [exact I|]. cbn [tab_path] in *.
      destruct (Z.eq_dec k k0) as [->|Hne].
      * rewrite Ek in Hp. contradiction.
      * now rewrite lookup_set_key_other by assumption.
    + destruct (at_path r f []) as [x'| |] eqn:Er; cbn [bind] in H; try discriminate.
      inversion H; subst t'. apply ext_app.
Qed.

(* arrays of tables reachable through tables after at_path: old ones, or new ones made by f
   below the path *)
Lemma at_path_aots : forall r f (newq : list Z -> Prop) t t',
  (forall x x' q xs, f x = Ok x' -> get q x' = Some (Aot xs) ->
                     newq q \/ exists xs', get q x = Some (Aot xs')) ->
  at_path r f t = Ok t' ->
  forall q xs, get q t' = Some (Aot xs) ->
    (exists q0, q = r ++ q0 /\ newq q0) \/ exists xs', get q t = Some (Aot xs').
Proof.
  induction r as [|k r IH]; intros f newq t t' Hf H q xs Hq.
  - cbn [at_path] in H. destruct (Hf _ _ _ _ H Hq) as [Hn|Ho]; [left; now exists q|now right].
  - cbn [at_path] in H.
    destruct q as [|k0 q0]; [discriminate|].
    destruct (lookup k t) as [[l|t1|ys]|] eqn:Ek.
    + discriminate.
    + destruct (at_path r f t1) as [x'| |] eqn:Er; cbn [bind] in H; try discriminate.
      inversion H; subst t'. clear H. rewrite get_cons in Hq.
      destruct (Z.eq_dec k k0) as [->|Hne].
      * rewrite (lookup_set_key_same _ _ _ _ Ek) in Hq.
        destruct (IH f newq t1 x' Hf Er q0 xs Hq) as [[q1 [-> Hn]]|[xs' Ho]].
        -- left. now exists q1.
        -- right. exists xs'. rewrite get_cons, Ek. exact Ho.
      * rewrite lookup_set_key_other in Hq by assumption. right. exists xs. now rewrite get_cons.
    + destruct (split_last ys) as [[init [l|t1|zs]]|]; try discriminate.
      destruct (at_path r f t1) as [x'| |] eqn:Er; cbn [bind] in H; try discriminate.
      inversion H; subst t'. clear H. rewrite get_cons in Hq.
      destruct (Z.eq_dec k k0) as [->|Hne].
      * rewrite (lookup_set_key_same _ _ _ _ Ek) in Hq.
        apply get_in_aot_nil in Hq. subst q0. right. exists ys. now rewrite get_cons, Ek.
      * rewrite lookup_set_key_other in Hq by assumption. right. exists xs. now rewrite get_cons.
    + destruct (at_path r f []) as [x'| |] eqn:Er; cbn [bind] in H; try discriminate.
      inversion H; subst t'. clear H. rewrite get_cons in Hq.
      destruct (lookup k0 t) as [w|] eqn:Ek0.
      * rewrite (lookup_app_some _ _ _ _ Ek0) in Hq. right. exists xs. now rewrite get_cons, Ek0.
      * rewrite (lookup_app_none _ _ _ Ek0), lookup_single in Hq.
        destruct (k =? k0) eqn:E; [|discriminate]. apply Z.eqb_eq in E. subst k0.
        destruct (IH f newq [] x' Hf Er q0 xs Hq) as [[q1 [-> Hn]]|[xs' Ho]].
        -- left. now exists q1.
        -- exfalso. exact (get_nil_not_aot _ _ Ho).
Qed.

(* a path that meets no array of tables is opened through tables only *)
Lemma at_path_tab_path : forall p f t t',
  no_aot_on p t -> at_path p f t = Ok t' -> tab_path p t'.
Proof.
  induction p as [|k p IH]; intros f t t' Hno H; [exact I|].
  cbn [at_path] in H. cbn [tab_path].
  destruct (lookup k t) as [[l|t1|ys]|] eqn:Ek.
  - discriminate.
  - destruct (at_path p f t1) as [x'| |] eqn:Er; cbn [bind] in H; try discriminate.
    inversion H; subst t'. rewrite (lookup_set_key_same _ _ _ _ Ek).
    apply (IH f t1 x'); [|assumption].
    intros q xs [r Hr] Hq. apply (Hno (k :: q) xs).
    + exists r. cbn. now rewrite Hr.
    + now rewrite get_cons, Ek.
  - exfalso. apply (Hno [k] ys); [now exists p|]. now rewrite get_cons, Ek.
  - destruct (at_path p f []) as [x'| |] eqn:Er; cbn [bind] in H; try discriminate.
    inversion H; subst t'. rewrite (lookup_app_none _ _ _ Ek), lookup_single, Z.eqb_refl.
    apply (IH f [] x'); [|assumption].
    intros q xs _ Hq. exact (get_nil_not_aot _ _ Hq).
Qed.

(* ------------------------------------------------------------------------------------ *)
(* the three functions applied at the end of a path *)

Lemma ok_spec_aots : forall (x x' : table) q xs,
  (fun t : table => Ok t) x = Ok x' -> get q x' = Some (Aot xs) ->
  False \/ exists xs', get q x = Some (Aot xs').
Proof. intros x x' q xs H Hq. inversion H; subst. right. now exists xs. Qed.

Lemma ok_ext : forall x x' : table, (fun t : table => Ok t) x = Ok x' -> ext x x'.
Proof. intros x x' H. inversion H; subst. apply ext_refl. Qed.

Lemma put_new_ext : forall k v x x', put_new k v x = Ok x' -> ext x x'.
Proof.
  unfold put_new. intros k v x x' H. destruct (mem k x); [discriminate|].
  inversion H; subst. apply ext_app.
Qed.

Lemma put_new_aots : forall k v, aot_free v -> forall x x' q xs,
  put_new k v x = Ok x' -> get q x' = Some (Aot xs) ->
  False \/ exists xs', get q x = Some (Aot xs').
Proof.
  unfold put_new. intros k v Hv x x' q xs H Hq. destruct (mem k x); [discriminate|].
  inversion H; subst x'. clear H. right.
  destruct q as [|k0 q0]; [discriminate|]. rewrite get_cons in Hq.
  destruct (lookup k0 x) as [w|] eqn:Ek0.
  - rewrite (lookup_app_some _ _ _ _ Ek0) in Hq. exists xs. now rewrite get_cons, Ek0.
  - rewrite (lookup_app_none _ _ _ Ek0), lookup_single in Hq.
    destruct (k =? k0); [|discriminate]. exfalso. exact (Hv _ _ Hq).
Qed.

Lemma push_aot_ext : forall k x x', push_aot k x = Ok x' -> ext x x'.
Proof.
  unfold push_aot. intros k x x' H.
  destruct (lookup k x) as [[l|t1|ys]|] eqn:Ek; try discriminate.
  - inversion H; subst x'. intros [|k0 p] Hp; [exact I|]. cbn [tab_path] in *.
    destruct (Z.eq_dec k k0) as [->|Hne].
    + rewrite Ek in Hp. contradiction.
    + now rewrite lookup_set_key_other by assumption.
  - inversion H; subst x'. apply ext_app.
Qed.

Lemma push_aot_aots : forall k x x' q xs,
  push_aot k x = Ok x' -> get q x' = Some (Aot xs) ->
  q = [k] \/ exists xs', get q x = Some (Aot xs').
Proof.
  unfold push_aot. intros k x x' q xs H Hq.
  destruct q as [|k0 q0]; [discriminate|]. rewrite get_cons in Hq.
  destruct (lookup k x) as [[l|t1|ys]|] eqn:Ek; try discriminate.
  - inversion H; subst x'. clear H.
    destruct (Z.eq_dec k k0) as [->|Hne].
    + rewrite (lookup_set_key_same _ _ _ _ Ek) in Hq. apply get_in_aot_nil in Hq. subst. now left.
    + rewrite lookup_set_key_other in Hq by assumption. right. exists xs. now rewrite get_cons.
  - inversion H; subst x'. clear H.
    destruct (lookup k0 x) as [w|] eqn:Ek0.
    + rewrite (lookup_app_some _ _ _ _ Ek0) in Hq. right. exists xs. now rewrite get_cons, Ek0.
    + rewrite (lookup_app_none _ _ _ Ek0), lookup_single in Hq.
      destruct (k =? k0) eqn:E; [|discriminate]. apply Z.eqb_eq in E. subst k0.
      apply get_in_aot_nil in Hq. subst. now left.
Qed.

Lemma split_last_app : forall {X} (l : list X) i x, split_last l = Some (i, x) -> l = i ++ [x].
Proof.
  induction l as [|a l IH]; intros i x H; [discriminate|].
  cbn [split_last] in H. destruct l as [|b l'].
  - inversion H; subst. reflexivity.
  - destruct (split_last (b :: l')) as [[i' y]|] eqn:E; [|discriminate].
    inversion H; subst. cbn. f_equal. now apply IH.
Qed.

(* ------------------------------------------------------------------------------------ *)
(* the invariant of parse_from *)

Lemma parse_step_inv : forall AS t cur l t1 cur1,
  parse_step (t, cur) l = Ok (t1, cur1) ->
  line_aot_free l ->
  incl (array_headers [l]) AS ->
  (forall p, In p (headers [l]) -> forall q, In q AS -> ~ prefix q p) ->
  aots_in AS t ->
  aots_in AS t1 /\ ext t t1 /\ Forall (fun p => tab_path p t1) (headers [l]).
Proof.
  intros AS t cur l t1 cur1 H Hfree Hincl Hnh Hinv.
  destruct l as [| |p|p|kp v|b]; cbn [parse_step] in H.
  - inversion H; subst. repeat split; [assumption|apply ext_refl|constructor].
  - inversion H; subst. repeat split; [assumption|apply ext_refl|constructor].
  - (* Header *)
    destruct p as [|k p]; [discriminate|].
    destruct (at_path (k :: p) (fun x => Ok x) t) as [r| |] eqn:E; cbn [bind] in H; try discriminate.
    inversion H; subst r cur1. clear H.
    split; [|split].
    + intros q xs Hq.
      destruct (at_path_aots _ _ (fun _ => False) _ _ ok_spec_aots E q xs Hq) as [[q0 [_ []]]|[xs' Ho]].
      now apply (Hinv q xs').
    + apply (at_path_ext _ _ _ _ ok_ext E).
    + cbn [headers]. constructor; [|constructor].
      apply (at_path_tab_path (k :: p) (fun x => Ok x) t t1); [|exact E].
      intros q xs Hpre Hq.
      refine (Hnh (k :: p) _ q _ Hpre); [now left|].
      now apply (Hinv q xs).
  - (* ArrayHeader *)
    destruct (split_last p) as [[q k]|] eqn:Esl; [|discriminate].
    destruct (at_path q (push_aot k) t) as [r| |] eqn:E; cbn [bind] in H; try discriminate.
    inversion H; subst r cur1. clear H.
    split; [|split].
    + intros q' xs Hq.
      destruct (at_path_aots _ _ (fun q0 => q0 = [k]) _ _ (push_aot_aots k) E q' xs Hq)
        as [[q0 [-> ->]]|[xs' Ho]].
      * apply Hincl. cbn [array_headers]. left. now apply split_last_app.
      * now apply (Hinv q' xs').
    + apply (at_path_ext _ _ _ _ (push_aot_ext k) E).
    + constructor.
  - (* KeyVal *)
    destruct (split_last kp) as [[q k]|] eqn:Esl; [|discriminate].
    destruct (at_path (cur ++ q) (put_new k v) t) as [r| |] eqn:E; cbn [bind] in H; try discriminate.
    inversion H; subst r cur1. clear H.
    split; [|split].
    + intros q' xs Hq.
      destruct (at_path_aots _ _ (fun _ => False) _ _ (put_new_aots k v Hfree) E q' xs Hq)
        as [[q0 [_ []]]|[xs' Ho]].
      now apply (Hinv q' xs').
    + apply (at_path_ext _ _ _ _ (put_new_ext k v) E).
    + constructor.
  - discriminate.
Qed.

Lemma headers_cons : forall l doc, headers (l :: doc) = headers [l] ++ headers doc.
Proof. intros [] doc; reflexivity. Qed.

Lemma array_headers_cons : forall l doc,
  array_headers (l :: doc) = array_headers [l] ++ array_headers doc.
Proof. intros [] doc; reflexivity. Qed.

Lemma parse_from_inv : forall AS doc t cur t' cur',
  parse_from (t, cur) doc = Ok (t', cur') ->
  Forall line_aot_free doc ->
  incl (array_headers doc) AS ->
  (forall p, In p (headers doc) -> forall q, In q AS -> ~ prefix q p) ->
  aots_in AS t ->
  aots_in AS t' /\ ext t t' /\ Forall (fun p => tab_path p t') (headers doc).
Proof.
  intros AS. induction doc as [|l doc IH]; intros t cur t' cur' H Hfree Hincl Hnh Hinv.
  - inversion H; subst. repeat split; [assumption|apply ext_refl|constructor].
  - cbn [parse_from] in H.
    destruct (parse_step (t, cur) l) as [[t1 cur1]| |] eqn:E; cbn [bind] in H; try discriminate.
    inversion Hfree as [|? ? Hl Hdoc]; subst.
    rewrite array_headers_cons in Hincl. rewrite headers_cons in Hnh |- *.
    destruct (parse_step_inv AS t cur l t1 cur1 E Hl) as [Hinv1 [Hext1 Htp1]].
    + intros q Hq. apply Hincl. apply in_or_app. now left.
    + intros p Hp. apply Hnh. apply in_or_app. now left.
    + assumption.
    + destruct (IH t1 cur1 t' cur' H Hdoc) as [Hinv' [Hext' Htp']].
      * intros q Hq. apply Hincl. apply in_or_app. now right.
      * intros p Hp. apply Hnh. apply in_or_app. now right.
      * assumption.
      * split; [assumption|]. split; [now apply ext_trans with t1|].
        apply Forall_app. split; [|assumption].
        eapply Forall_impl; [|exact Htp1]. intros p Hp. now apply Hext'.
Qed.

Lemma headers_are_tables : forall doc t,
  Forall line_aot_free doc ->
  no_header_under_aot doc ->
  parse_lines doc = Ok t ->
  Forall (fun p => tab_path p t) (headers doc).
Proof.
  intros doc t Hfree Hnh Hparse. unfold parse_lines in Hparse.
  destruct (parse_from ([], []) doc) as [[t' cur']| |] eqn:E; cbn [bind] in Hparse; try discriminate.
  inversion Hparse; subst t'. cbn [fst].
  destruct (parse_from_inv (array_headers doc) doc [] [] t cur' E Hfree) as [_ [_ H]].
  - apply incl_refl.
  - intros p Hp q Hq. now apply Hnh.
  - intros q xs Hq. exfalso. exact (get_nil_not_aot _ _ Hq).
  - exact H.
Qed.

(* ------------------------------------------------------------------------------------ *)

Lemma first_run_neutral_syntactic : forall doc t,
  one_line_values doc ->
  Forall line_aot_free doc ->
  no_header_under_aot doc ->
  parse_lines doc = Ok t ->
  exists s, parse_lines (comment_out doc) = Ok s /\ merge t s = t.
Proof.
  intros doc t H1 Hfree Hnh Hparse.
  apply first_run_neutral; [assumption|assumption|].
  now apply headers_are_tables.
Qed.

Lemma first_run_then_later_loads_syntactic : forall doc t,
  one_line_values doc ->
  Forall line_aot_free doc ->
  no_header_under_aot doc ->
  parse_lines doc = Ok t ->
  let r1 := load_lines doc None in
  lr_value r1 = Ok t /\
  lr_file r1 = Some (comment_out doc) /\
  forall r, lr_file r = lr_file r1 ->
    let r2 := load_lines doc (lr_file r) in
    lr_value r2 = Ok t /\ lr_file r2 = lr_file r1 /\ writes (lr_trace r2) = [].
Proof.
  intros doc t H1 Hfree Hnh Hparse.
  apply first_run_then_later_loads; [assumption|assumption|].
  now apply headers_are_tables.
Qed.

(* inline values made of leaves and tables are aot_free *)
Lemma aot_free_leaf : forall l, aot_free (Leaf l).
Proof. intros l q xs. apply get_in_leaf_not_aot. Qed.

Lemma aot_free_tab : forall es, (forall k v, In (k, v) es -> aot_free v) -> aot_free (Tab es).
Proof.
  intros es H [|k q] xs Hq; [discriminate|].
  cbn [get_in] in Hq. destruct (lookup k es) as [v|] eqn:E; [|discriminate].
  exact (H k v (lookup_In _ _ _ E) q xs Hq).
Qed.
