(* C07 on the sqlite back end model: representation invariant, the three per-operation
   lemmas proved from the SQL statement functions of Model/SqliteStore.v, instantiation. *)
From Coq Require Import Permutation Sorted ZifyBool.
From AwVerif Require Import Base.Prelude Model.Heartbeat Model.StoreBase Model.SqliteStore Model.Ingest
  Proofs.HeartbeatProofs Proofs.IngestBase.

(* What the lemmas need of a reachable database: bucket rowids and event ids are primary
   keys, and the AUTOINCREMENT counter is at least every issued event id. *)
Definition sq_inv (c : sqstate) : Prop :=
  NoDup (map br_rowid (sq_buckets c)) /\
  NoDup (map er_id (sq_events c)) /\
  Forall (fun r => er_id r <= sq_seq_e c) (sq_events c).

(* get_events without a window still filters `endtime >= 0 AND starttime <= MAX_TIMESTAMP` *)
Definition sq_rd (e : event) : Prop := 0 <= eend e /\ ts e <= MAX_TIMESTAMP.

Definition rows_of (c : sqstate) (rid : Z) : list erow :=
  filter (fun e => er_bucket e =? rid) (sq_events c).

Lemma sq_view_inv : forall c b m es,
  sq_view c b = Some (m, es) ->
  exists r, find (fun r => br_id r =? b) (sq_buckets c) = Some r /\
            sql_bucket_rowid c b = Some (br_rowid r) /\
            m = br_meta r /\ es = map row_event (rows_of c (br_rowid r)).
Proof.
  intros c b m es H. unfold sq_view in H. unfold sql_bucket_rowid.
  destruct (find (fun r => br_id r =? b) (sq_buckets c)) as [r|] eqn:E; [|discriminate].
  inversion H; subst. exists r. repeat split.
Qed.

Lemma map_snoc_inv : forall {A B} (f : A -> B) l a x,
  map f l = a ++ [x] -> exists l0 y, l = l0 ++ [y] /\ map f l0 = a /\ f y = x.
Proof.
  intros A B f l a x H. destruct (list_snoc_cases l) as [->|(l0 & y & ->)].
  - cbn in H. destruct a; discriminate.
  - rewrite map_app in H. cbn [map] in H. apply app_inj_tail in H. destruct H as [H1 H2].
    exists l0, y. repeat split; assumption.
Qed.

Lemma rowid_distinct : forall bs b b' r r',
  NoDup (map br_rowid bs) ->
  find (fun r => br_id r =? b) bs = Some r -> find (fun r => br_id r =? b') bs = Some r' ->
  b' <> b -> br_rowid r' <> br_rowid r.
Proof.
  intros bs b b' r r' Hn Hr Hr' Hne E. apply find_some in Hr, Hr'.
  destruct Hr as [Hin Hb], Hr' as [Hin' Hb'].
  assert (r' = r) by (eapply NoDup_map_inj; eassumption). subst r'. lia.
Qed.

Lemma order_rows : forall rows,
  StronglySorted (fun a b => er_start a < er_start b) rows ->
  sql_order_start_desc_id_desc rows = rev rows.
Proof.
  intros rows Hs. unfold sql_order_start_desc_id_desc.
  apply sort_desc_of_perm; [exact Hs|apply sort_by_perm].
Qed.

Lemma rows_sorted : forall rows,
  incr_ts (map row_event rows) -> StronglySorted (fun a b => er_start a < er_start b) rows.
Proof.
  intros rows H. unfold incr_ts in H.
  exact (proj1 (SS_map row_event (fun a b => ts a < ts b) rows) H).
Qed.

Lemma row_event_set_cells : forall r e, row_event (set_cells r e) = set_eid e (Some (er_id r)).
Proof.
  intros r e. unfold row_event, set_cells, set_eid. cbn [er_id er_start er_end er_data].
  f_equal. lia.
Qed.

Definition upd (i : Z) (e : event) (r : erow) : erow :=
  if eq_nullable (er_id r) (Some i) then set_cells r e else r.

Lemma upd_bucket : forall i e r, er_bucket (upd i e r) = er_bucket r.
Proof. intros. unfold upd. destruct (eq_nullable _ _); reflexivity. Qed.
Lemma upd_id : forall i e r, er_id (upd i e r) = er_id r.
Proof. intros. unfold upd. destruct (eq_nullable _ _); reflexivity. Qed.
Lemma upd_other : forall i e r, er_id r <> i -> upd i e r = r.
Proof. intros i e r H. unfold upd, eq_nullable. destruct (er_id r =? i) eqn:E; [lia|reflexivity]. Qed.
Lemma upd_hit : forall e r, upd (er_id r) e r = set_cells r e.
Proof. intros. unfold upd, eq_nullable. rewrite Z.eqb_refl. reflexivity. Qed.

Lemma sq_read : forall st b m es,
  sq_inv st -> sq_view st b = Some (m, es) -> incr_ts es -> Forall sq_rd es ->
  sq_step st (GetEvents b 1 None None) = (st, Ok (OEvents (firstn 1 (rev es)))).
Proof.
  intros st b m es _ Hv Hs Hrd. destruct (sq_view_inv _ _ _ _ Hv) as (r & Hf & Hrid & -> & ->).
  cbn [sq_step]. change (1 =? 0) with false. change (1 <? 0) with false. cbv iota.
  unfold sql_select_events. rewrite Hrid. unfold select_where.
  assert (E : filter (fun r0 => eq_nullable (er_bucket r0) (Some (br_rowid r)) &&
                               sq_in_window (sq_window_lo None) (sq_window_hi None) r0) (sq_events st)
              = rows_of st (br_rowid r)).
  { unfold rows_of. apply (filter_and_same (fun r0 => er_bucket r0 =? br_rowid r)).
    intros x Hx Hb. rewrite Forall_map, Forall_forall in Hrd.
    assert (Hin : In x (rows_of st (br_rowid r))) by (apply filter_In; split; assumption).
    specialize (Hrd x Hin). destruct Hrd as [H1 H2]. unfold eend, row_event in H1, H2. cbn [ts dur] in H1, H2.
    unfold sq_in_window, sq_window_lo, sq_window_hi. lia. }
  rewrite E. rewrite order_rows by (apply rows_sorted; exact Hs).
  unfold sql_limit. change (1 <? 0) with false. cbv iota. change (Z.to_nat 1) with 1%nat.
  rewrite <- firstn_map, map_rev. reflexivity.
Qed.

Lemma sq_replace_last : forall st b m es l i e,
  sq_inv st -> sq_view st b = Some (m, es ++ [l]) -> incr_ts (es ++ [l]) -> ids_ok (es ++ [l]) ->
  eid l = Some i ->
  exists st' o, sq_step st (ReplaceLast b e) = (st', Ok o) /\
                sq_view st' b = Some (m, es ++ [set_eid e (Some i)]) /\
                frame sq_view st st' b /\ sq_inv st'.
Proof.
  intros st b m es l i e (Hnb & Hne & Hseq) Hv Hs _ Hl.
  destruct (sq_view_inv _ _ _ _ Hv) as (r & Hf & Hrid & -> & Hes).
  symmetry in Hes. destruct (map_snoc_inv _ _ _ _ Hes) as (rows0 & rl & Hrows & Hes0 & Hrl).
  assert (Hi : er_id rl = i). { subst l. cbn in Hl. congruence. }
  rewrite <- Hes in Hs. apply rows_sorted in Hs.
  (* the statement's sub-select finds rl *)
  assert (Hnew : sql_newest_id st b = Some i).
  { unfold sql_newest_id. rewrite Hrid. unfold select_where.
    change (filter (fun r0 => eq_nullable (er_bucket r0) (Some (br_rowid r))) (sq_events st))
      with (rows_of st (br_rowid r)).
    rewrite order_rows by exact Hs. rewrite Hrows, rev_app_distr. cbn [rev app]. rewrite Hi. reflexivity. }
  assert (Hst : sql_update_newest st b e = with_events st (map (upd i e) (sq_events st)) (sq_seq_e st)).
  { unfold sql_update_newest. rewrite Hnew. reflexivity. }
  assert (Hrl_in : In rl (sq_events st) /\ er_bucket rl = br_rowid r).
  { assert (H : In rl (rows_of st (br_rowid r))) by (rewrite Hrows; apply in_or_app; right; left; reflexivity).
    apply filter_In in H. destruct H as [H1 H2]. split; [exact H1|lia]. }
  destruct Hrl_in as [Hrl_in Hrl_b].
  (* a row with rl's id is rl *)
  assert (Honly : forall x, In x (sq_events st) -> er_id x = i -> x = rl).
  { intros x Hx Hxi. eapply NoDup_map_inj; [exact Hne|exact Hx|exact Hrl_in|congruence]. }
  assert (Hfilter : forall rid, filter (fun e0 => er_bucket e0 =? rid) (map (upd i e) (sq_events st))
                                = map (upd i e) (rows_of st rid)).
  { intros rid. unfold rows_of. apply filter_map_comm. intros x. rewrite upd_bucket. reflexivity. }
  exists (sql_update_newest st b e), (OBool true). split; [reflexivity|]. rewrite Hst. split; [|split].
  - unfold sq_view. cbn [with_events sq_buckets sq_events]. rewrite Hf. rewrite Hfilter, Hrows, map_app.
    cbn [map]. rewrite map_app. cbn [map]. f_equal. f_equal. f_equal.
    + rewrite <- Hes0. f_equal. apply map_id_on. intros x Hx. apply upd_other. intros Hxi.
      assert (Hxin : In x (sq_events st)).
      { assert (H : In x (rows_of st (br_rowid r))) by (rewrite Hrows; apply in_or_app; left; exact Hx).
        apply filter_In in H. tauto. }
      pose proof (Honly x Hxin Hxi) as ->. rewrite Hrows in Hs. apply SS_app in Hs.
      destruct Hs as (_ & _ & Hlt). specialize (Hlt rl rl Hx (or_introl eq_refl)). lia.
    + rewrite <- Hi, upd_hit, row_event_set_cells. reflexivity.
  - intros b' Hb. unfold sq_view. cbn [with_events sq_buckets sq_events].
    destruct (find (fun r0 => br_id r0 =? b') (sq_buckets st)) as [r'|] eqn:Hf'; [|reflexivity].
    rewrite Hfilter. f_equal. f_equal. f_equal. apply map_id_on. intros x Hx. apply upd_other. intros Hxi.
    apply filter_In in Hx. destruct Hx as [Hxin Hxb]. pose proof (Honly x Hxin Hxi) as ->.
    eapply (rowid_distinct _ b b' r r'); try eassumption. lia.
  - unfold sq_inv. cbn [with_events sq_buckets sq_events sq_seq_e]. split; [exact Hnb|].
    assert (Hids : map er_id (map (upd i e) (sq_events st)) = map er_id (sq_events st)).
    { rewrite map_map. apply map_ext. intros x. apply upd_id. }
    split; [rewrite Hids; exact Hne|].
    apply Forall_map. rewrite Forall_forall in *. intros x Hx. rewrite upd_id. apply Hseq. exact Hx.
Qed.

Lemma sq_insert : forall st b m es e,
  sq_inv st -> sq_view st b = Some (m, es) -> eid e = None ->
  exists st' o i, sq_step st (InsertOne b e) = (st', Ok o) /\
                  sq_view st' b = Some (m, es ++ [set_eid e (Some i)]) /\
                  ~ In (Some i) (map eid es) /\ frame sq_view st st' b /\ sq_inv st'.
Proof.
  intros st b m es e (Hnb & Hne & Hseq) Hv _.
  destruct (sq_view_inv _ _ _ _ Hv) as (r & Hf & Hrid & -> & ->).
  set (i := sq_seq_e st + 1).
  set (row := mkErow i (br_rowid r) (ts e) (ts e + dur e) (data e)).
  assert (Hstep : sq_step st (InsertOne b e)
                  = (with_events st (sq_events st ++ [row]) i, Ok (OEvent (Some (set_eid e (Some i)))))).
  { cbn [sq_step]. unfold sql_insert_event. rewrite Hrid. reflexivity. }
  assert (Hfresh : forall x, In x (sq_events st) -> er_id x <> i).
  { intros x Hx. rewrite Forall_forall in Hseq. specialize (Hseq x Hx). unfold i. lia. }
  eexists _, _, i. split; [exact Hstep|]. split; [|split; [|split]].
  - unfold sq_view. cbn [with_events sq_buckets sq_events]. rewrite Hf.
    rewrite filter_app. cbn [filter]. unfold row at 1. cbn [er_bucket]. rewrite Z.eqb_refl.
    rewrite map_app. cbn [map]. f_equal. f_equal. f_equal. f_equal.
    unfold row_event, row, set_eid. cbn [er_id er_start er_end er_data]. f_equal. lia.
  - intros Hin. rewrite map_map in Hin. apply in_map_iff in Hin. destruct Hin as (x & Hx & Hin).
    cbn in Hx. apply filter_In in Hin. destruct Hin as [Hin _]. apply (Hfresh x Hin). congruence.
  - intros b' Hb. unfold sq_view. cbn [with_events sq_buckets sq_events].
    destruct (find (fun r0 => br_id r0 =? b') (sq_buckets st)) as [r'|] eqn:Hf'; [|reflexivity].
    rewrite filter_app. cbn [filter]. unfold row at 1. cbn [er_bucket].
    pose proof (rowid_distinct _ b b' r r' Hnb Hf Hf' Hb) as Hd.
    destruct (br_rowid r =? br_rowid r') eqn:E; [lia|]. rewrite app_nil_r. reflexivity.
  - unfold sq_inv. cbn [with_events sq_buckets sq_events sq_seq_e]. split; [exact Hnb|]. split.
    + rewrite map_app. cbn [map]. apply NoDup_snoc; [exact Hne|]. intros Hin.
      apply in_map_iff in Hin. destruct Hin as (x & Hx & Hin). apply (Hfresh x Hin). exact Hx.
    + apply Forall_app. split.
      * eapply Forall_impl; [|exact Hseq]. intros x Hx. cbn beta in *. unfold i. lia.
      * repeat constructor. cbn. lia.
Qed.

Lemma sq_rd_eid : forall e i, sq_rd e -> sq_rd (set_eid e i).
Proof. intros e i H. exact H. Qed.

Lemma sq_rd_merge : forall l h p m, sq_rd l -> heartbeat_merge l h p = Some m -> sq_rd m.
Proof.
  intros l h p m [H1 H2] Hm. destruct (merge_keeps _ _ _ _ Hm) as (_ & Ht & _ & Hd).
  unfold sq_rd, eend in *. lia.
Qed.

(* ---- the property on the sqlite model ---- *)

Lemma sq_ingest_eq_reduce : forall st b p m stream,
  sq_inv st -> sq_view st b = Some (m, []) ->
  Forall (fun h => eid h = None /\ 0 <= eend h /\ ts h <= MAX_TIMESTAMP) stream ->
  StronglySorted (fun a c => ts a < ts c) stream ->
  exists st' o es',
    ingest_stream sq_step st b p stream = (st', Ok o) /\
    sq_view st' b = Some (m, es') /\
    map strip_id es' = heartbeat_reduce stream p /\
    (forall b', b' <> b -> sq_view st' b' = sq_view st b') /\ sq_inv st'.
Proof.
  intros st b p m stream Hinv Hv Hst Hs.
  destruct (ingest_eq_reduce sq_step sq_view sq_inv sq_rd sq_rd_eid sq_rd_merge
              sq_read sq_replace_last sq_insert b p m stream st Hinv Hv Hst Hs)
    as (st' & o & es' & H1 & H2 & H3 & H4 & H5 & _).
  exists st', o, es'. tauto.
Qed.

Lemma sq_earlier_untouched : forall st b p m es hb,
  sq_inv st -> sq_view st b = Some (m, es) ->
  StronglySorted (fun a c => ts a < ts c) es ->
  Forall (fun e => 0 <= eend e /\ ts e <= MAX_TIMESTAMP) es ->
  eid hb = None ->
  exists st' o es',
    ingest_step sq_step st b p hb = (st', Ok o) /\ sq_view st' b = Some (m, es') /\
    (forall b', b' <> b -> sq_view st' b' = sq_view st b') /\ sq_inv st' /\
    ((exists x, es' = es ++ [x] /\ ts x = ts hb /\ dur x = dur hb /\ data x = data hb) \/
     (exists old l x, es = old ++ [l] /\ es' = old ++ [x] /\
                      eid x = eid l /\ ts x = ts l /\ data x = data l /\ dur l <= dur x)).
Proof.
  intros st b p m es hb Hinv Hv Hs Hrd Hid.
  (* ids of a bucket's rows are Some and distinct by the invariant *)
  assert (Hids : ids_ok es).
  { destruct (sq_view_inv _ _ _ _ Hv) as (r & _ & _ & _ & ->). destruct Hinv as (_ & Hne & _). split.
    - rewrite map_map. cbn [row_event eid].
      assert (G : forall l, NoDup (map er_id l) ->
                  NoDup (map (fun x => Some (er_id x)) (filter (fun e0 => er_bucket e0 =? br_rowid r) l))).
      { induction l as [|a t IH]; intros Hn; [constructor|]. cbn [map] in Hn. inversion Hn as [|? ? Ha Ht]; subst.
        cbn [filter]. destruct (er_bucket a =? br_rowid r); [|apply IH; exact Ht].
        cbn [map]. constructor; [|apply IH; exact Ht].
        intros Hin. apply in_map_iff in Hin. destruct Hin as (x & Hx & Hin). apply filter_In in Hin.
        apply Ha. injection Hx as Hx'. rewrite <- Hx'. apply in_map. tauto. }
      apply G. exact Hne.
    - apply Forall_map. apply Forall_forall. intros x _. cbn. discriminate. }
  destruct (ingest_step_ok sq_step sq_view sq_inv sq_rd sq_read sq_replace_last sq_insert
              st b p hb m es Hinv Hv Hs Hids Hrd Hid) as (st' & o & es' & H1 & H2 & H3 & H4 & H5).
  exists st', o, es'. split; [exact H1|]. split; [exact H2|]. split; [exact H3|]. split; [exact H4|].
  eapply step_shape_untouched. exact H5.
Qed.

(* The hypothesis `0 <= eend` is needed: get_events without a window filters `endtime >= 0`
   (sqlite.py: starttime_i = ... if starttime else 0), so events that end before 1970 are
   stored but never read back, and the loop inserts every heartbeat. *)
Lemma sq_pre1970_counterexample :
  exists h b p m stream,
    sq_view (sq_run sq_init h) b = Some (m, []) /\
    Forall (fun e => eid e = None /\ 0 <= dur e) stream /\
    StronglySorted (fun a c => ts a < ts c) stream /\
    option_map (fun v => map strip_id (snd v))
               (sq_view (fst (ingest_stream sq_step (sq_run sq_init h) b p stream)) b)
    = Some stream /\
    heartbeat_reduce stream p <> stream.
Proof.
  exists [CreateBucket 1 (mkMeta 1 1 1 0 None 0)], 1, 5, (mkMeta 1 1 1 0 None 0),
         [mkEvent None (-10) 2 1; mkEvent None (-7) 2 1].
  split; [reflexivity|]. split; [repeat constructor; cbn; lia|].
  split; [repeat constructor; cbn; lia|]. split; [vm_compute; reflexivity|].
  vm_compute. discriminate.
Qed.
