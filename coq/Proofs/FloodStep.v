(* C10, part 1: specification vocabulary and everything about one iteration of flood's
   loop body (Model.Flood.flood_step). *)
From AwVerif Require Import Base.Prelude Model.Flood.
From Coq Require Import ZifyBool.

(* ---- specification vocabulary ---- *)

(* aw-core's granularity: timestamps and durations are whole milliseconds *)
Definition ms_aligned (e : event) : Prop := ts e mod 1000 = 0 /\ dur e mod 1000 = 0.
Definition ev_ok (e : event) : Prop := 0 <= dur e /\ ms_aligned e.

(* consecutive events do not overlap: end_i <= start_{i+1} *)
Fixpoint chain (c : event) (rest : list event) : Prop :=
  match rest with
  | [] => True
  | n :: r => eend c <= ts n /\ chain n r
  end.
Definition nonoverlapping (l : list event) : Prop :=
  match l with [] => True | c :: r => chain c r end.

(* half-open point sets *)
Definition covers1 (e : event) (t : Z) : Prop := ts e <= t < eend e.
Definition covers (l : list event) (t : Z) : Prop :=
  exists e, In e l /\ ts e <= t < eend e.
Definition covers_label (x : Z) (l : list event) (t : Z) : Prop :=
  exists e, In e l /\ data e = x /\ ts e <= t < eend e.

(* a and b are neighbours in l *)
Definition adjacent (a b : event) (l : list event) : Prop :=
  exists l1 l2, l = l1 ++ a :: b :: l2.
(* t lies in a gap of l that is at most p long *)
Definition in_short_gap (p : Z) (l : list event) (t : Z) : Prop :=
  exists a b, adjacent a b l /\ ts b - eend a <= p /\ eend a <= t < ts b.

(* ---- the two warned_* flags do not influence the events ---- *)

Ltac split_ifs :=
  repeat match goal with
  | |- context [if ?b then _ else _] => let E := fresh "E" in destruct b eqn:E
  | H : context [if ?b then _ else _] |- _ => let E := fresh "E" in destruct b eqn:E
  end.

Definition fill_step (p : Z) (e1 e2 : event) : event * event :=
  fst (flood_step p false false e1 e2).

Lemma step_flags_irrelevant : forall p ws wu e1 e2,
  fst (flood_step p ws wu e1 e2) = fill_step p e1 e2.
Proof.
  intros p ws wu e1 e2. unfold fill_step, flood_step, negative_gap_trim_thres.
  destruct wu; cbn [negb andb]; split_ifs; cbn [fst]; try reflexivity; exfalso; lia.
Qed.

(* ---- floor to the millisecond is the identity on the millisecond grid ---- *)

Lemma floor_ms_id : forall t, t mod 1000 = 0 -> floor_ms t = t.
Proof. intros t H. unfold floor_ms. Z.to_euclidean_division_equations. lia. Qed.

Lemma aligned_add : forall a b, a mod 1000 = 0 -> b mod 1000 = 0 -> (a + b) mod 1000 = 0.
Proof. intros a b Ha Hb. Z.to_euclidean_division_equations. lia. Qed.

Lemma aligned_sub : forall a b, a mod 1000 = 0 -> b mod 1000 = 0 -> (a - b) mod 1000 = 0.
Proof. intros a b Ha Hb. Z.to_euclidean_division_equations. lia. Qed.

(* ---- one step, inside the domain ---- *)

(* What one iteration does to a pair (c, n) of well-formed events with end c <= start n.
   The first line is the key lemma of DESIGN A.2: the right-hand event keeps its end
   (so the next gap the walk computes is the original one) and the left-hand event keeps
   its start; the pair stays well-formed and non-overlapping. *)
Record step_spec (p : Z) (c n c' n' : event) : Prop := {
  ss_ts_c    : ts c' = ts c;
  ss_end_n   : eend n' = eend n;
  ss_data_c  : data c' = data c;
  ss_data_n  : data n' = data n;
  ss_id_c    : eid c' = eid c;
  ss_id_n    : eid n' = eid n;
  ss_ok_c    : ev_ok c';
  ss_ok_n    : ev_ok n';
  ss_sep     : eend c' <= ts n';
  (* nothing covered is lost, label by label *)
  ss_keep_c  : forall t, covers1 c t -> covers1 c' t \/ (data n' = data c /\ covers1 n' t);
  ss_keep_n  : forall t, covers1 n t -> covers1 n' t \/ (data c' = data n /\ covers1 c' t);
  (* a gap of at most p is closed *)
  ss_close   : forall t, ts n - eend c <= p -> eend c <= t < ts n -> covers1 c' t \/ covers1 n' t;
  (* whatever is covered afterwards was covered by the same label before, or lies in the short gap *)
  ss_new_c   : forall t, covers1 c' t ->
                 covers1 c t \/ (data n = data c /\ covers1 n t) \/ (ts n - eend c <= p /\ eend c <= t < ts n);
  ss_new_n   : forall t, covers1 n' t ->
                 covers1 n t \/ (data c = data n /\ covers1 c t) \/ (ts n - eend c <= p /\ eend c <= t < ts n)
}.

Lemma fill_step_spec : forall p c n,
  ev_ok c -> ev_ok n -> eend c <= ts n ->
  step_spec p c n (fst (fill_step p c n)) (snd (fill_step p c n)).
Proof.
  intros p c n (Hdc & Hac1 & Hac2) (Hdn & Han1 & Han2) Hsep.
  pose proof (floor_ms_id (ts c) Hac1) as F1.
  pose proof (floor_ms_id (ts c + dur c) (aligned_add _ _ Hac1 Hac2)) as F2.
  pose proof (floor_ms_id (ts n + dur n) (aligned_add _ _ Han1 Han2)) as F3.
  pose proof (aligned_sub _ _ (aligned_add _ _ Han1 Han2) Hac1) as A1.
  pose proof (aligned_sub _ _ Han1 Hac1) as A2.
  pose proof (aligned_sub _ _ (aligned_add _ _ Han1 Han2) (aligned_add _ _ Hac1 Hac2)) as A3.
  pose proof (aligned_add _ _ Han1 Han2) as A4.
  pose proof (aligned_add _ _ Hac1 Hac2) as A5.
  unfold eend in Hsep.
  unfold fill_step, flood_step, negative_gap_trim_thres.
  split_ifs; cbn [fst snd]; try (exfalso; lia);
    (constructor;
     unfold ev_ok, ms_aligned, covers1, eend, assign_ts, set_dur, set_ts; cbn [ts dur data eid];
     rewrite ?F1, ?F2, ?F3; rewrite ?Z.mod_0_l by lia;
     try reflexivity; try lia; try (intros t; lia); try (repeat split; (assumption || lia))).
Qed.

(* The negative-gap branches and the trim of small overlaps are dead inside the domain:
   with end c <= start n the step is one of: nothing (gap = 0 or gap > p), or one of the
   four fill branches. *)
Lemma fill_step_gap_zero_or_long : forall p c n,
  eend c <= ts n -> (ts n - eend c = 0 \/ p < ts n - eend c) -> fill_step p c n = (c, n).
Proof.
  intros p c n Hsep Hg. unfold eend in *.
  unfold fill_step, flood_step, negative_gap_trim_thres.
  split_ifs; cbn [fst]; try reflexivity; exfalso; lia.
Qed.
